//! Lanes: the same workload run in-process (fast), under ASan, under valgrind, under the fault
//! shim, and the cmsg sweep under Miri. Every lane produces a `LaneResult`; the orchestrator
//! merges them into one report / one evidence file.

use std::{
    collections::{BTreeMap, BTreeSet},
    io::Read,
    process::{Child, Command, Stdio},
    sync::Mutex,
    time::{Duration, Instant},
};

use qv::{
    app::Violation,
    check::{normalize, run_group, CaseOut, Ctx, Group, Report, Tier},
};
use serde_json::{json, Value};

use crate::{
    cmsgsweep::{CmsgOut, Sizes},
    net,
    sweep::{self, Env, Fault, Plan, PROP},
};

// ------------------------------------------------------------------------------------------
// violation flood control: the runner keeps at most 200 violations per run, so a known finding
// that fires thousands of times must not crowd out a new one
// ------------------------------------------------------------------------------------------

pub static SIG_COUNTS: Mutex<BTreeMap<String, u64>> = Mutex::new(BTreeMap::new());

pub fn filter_violations(v: Vec<Violation>) -> Vec<Violation> {
    if v.is_empty() {
        return v;
    }
    let mut m = SIG_COUNTS.lock().unwrap();
    v.into_iter()
        .filter(|x| {
            let c = m.entry(normalize(&x.msg)).or_insert(0);
            *c += 1;
            *c <= 3
        })
        .collect()
}

#[derive(Debug, Default, Clone)]
pub struct LaneResult {
    pub lane: String,
    pub ok: bool,
    pub evaluations: u64,
    pub nontrivial: u64,
    pub fps: BTreeSet<u64>,
    pub violations: Vec<(String, u64, u64, String)>,
    pub sig_counts: BTreeMap<String, u64>,
    pub counters: BTreeMap<String, u64>,
    pub inconclusive: Vec<String>,
    pub harness_errors: Vec<String>,
    pub samples: Vec<Value>,
    pub groups: BTreeMap<String, (u64, u64, bool)>,
    pub combos: BTreeSet<u64>,
    pub extra: BTreeMap<String, Value>,
    pub wall_s: f64,
    /// why the lane could not decide (tool failure, not built, timeout)
    pub tool_failure: Option<String>,
}

impl LaneResult {
    pub fn to_json(&self) -> Value {
        json!({
            "lane": self.lane,
            "ok": self.ok,
            "evaluations": self.evaluations,
            "nontrivial": self.nontrivial,
            "fps": self.fps.iter().collect::<Vec<_>>(),
            "violations": self.violations.iter().map(|v| json!({"group": v.0, "idx": v.1, "seed": v.2, "msg": v.3})).collect::<Vec<_>>(),
            "sig_counts": self.sig_counts,
            "counters": self.counters,
            "inconclusive": self.inconclusive,
            "harness_errors": self.harness_errors,
            "samples": self.samples,
            "groups": self.groups.iter().map(|(k, v)| (k.clone(), json!([v.0, v.1, v.2]))).collect::<BTreeMap<_, _>>(),
            "combos": self.combos.iter().collect::<Vec<_>>(),
            "extra": self.extra,
            "wall_s": self.wall_s,
            "tool_failure": self.tool_failure,
        })
    }

    pub fn from_json(v: &Value) -> Option<Self> {
        let mut r = LaneResult { lane: v["lane"].as_str()?.to_string(), ok: v["ok"].as_bool()?, ..Default::default() };
        r.evaluations = v["evaluations"].as_u64()?;
        r.nontrivial = v["nontrivial"].as_u64()?;
        r.fps = v["fps"].as_array()?.iter().filter_map(|x| x.as_u64()).collect();
        for x in v["violations"].as_array()? {
            r.violations.push((x["group"].as_str()?.to_string(), x["idx"].as_u64()?, x["seed"].as_u64()?, x["msg"].as_str()?.to_string()));
        }
        for (k, x) in v["sig_counts"].as_object()? {
            r.sig_counts.insert(k.clone(), x.as_u64()?);
        }
        for (k, x) in v["counters"].as_object()? {
            r.counters.insert(k.clone(), x.as_u64()?);
        }
        r.inconclusive = v["inconclusive"].as_array()?.iter().filter_map(|x| x.as_str().map(String::from)).collect();
        r.harness_errors = v["harness_errors"].as_array()?.iter().filter_map(|x| x.as_str().map(String::from)).collect();
        r.samples = v["samples"].as_array()?.clone();
        for (k, x) in v["groups"].as_object()? {
            r.groups.insert(k.clone(), (x[0].as_u64()?, x[1].as_u64()?, x[2].as_bool()?));
        }
        r.combos = v["combos"].as_array()?.iter().filter_map(|x| x.as_u64()).collect();
        for (k, x) in v["extra"].as_object()? {
            r.extra.insert(k.clone(), x.clone());
        }
        r.wall_s = v["wall_s"].as_f64().unwrap_or(0.0);
        r.tool_failure = v["tool_failure"].as_str().map(String::from);
        Some(r)
    }

    pub fn summary(&self) -> Value {
        let pick = |k: &str| self.counters.get(k).copied().unwrap_or(0);
        json!({
            "ok": self.ok,
            "tool_failure": self.tool_failure,
            "cases": self.evaluations,
            "distinct_cases": self.fps.len(),
            "transmits_sent": pick("tx.transmits"),
            "gso_transmits": pick("tx.gso_transmits"),
            "datagrams_expected": pick("tx.datagrams_expected"),
            "datagrams_received_and_compared": pick("rx.datagrams_compared"),
            "bytes_compared": pick("rx.bytes_compared"),
            "gro_batches_split_by_stride": pick("rx.gro_batches_split_by_stride"),
            "meta_checked": pick("rx.meta_checked"),
            "cmsg_checks": pick("cmsg.checks"),
            "violations": self.violations.len(),
            "violation_signatures": self.sig_counts,
            "inconclusive_cases": self.inconclusive.len(),
            "distinct_option_combos": self.combos.len(),
            "wall_s": (self.wall_s * 10.0).round() / 10.0,
            "extra": self.extra,
        })
    }
}

#[derive(Debug, Clone)]
pub struct LaneCfg {
    pub lane: String,
    /// "sweep" or "degrade:<mode>"
    pub kind: String,
    pub tier: Tier,
    pub seed: u64,
    pub threads: usize,
    /// multiplies case counts and budgets (slow lanes use < 1)
    pub scale: f64,
    /// multiplies the wall-clock budgets of the groups
    pub bscale: f64,
    pub wait_ms: u64,
    pub replay: Option<(String, u64, u64)>,
    /// (i, n): this process handles every n-th case of the deterministic groups
    pub shard: (u64, u64),
}

fn sc(n: u64, scale: f64) -> u64 {
    ((n as f64 * scale).ceil() as u64).max(1)
}

/// Run a lane in this process.
pub fn run_lane(cfg: &LaneCfg) -> LaneResult {
    let t0 = Instant::now();
    let mut res = LaneResult { lane: cfg.lane.clone(), ..Default::default() };
    let fault = match cfg.kind.strip_prefix("degrade:") {
        Some(m) => match Fault::from_mode(m) {
            Some(f) => f,
            None => {
                res.tool_failure = Some(format!("unknown degradation mode {m}"));
                return res;
            }
        },
        None => Fault::None,
    };
    let calib = match if fault == Fault::RecvmmsgEnosys { Ok(net::Calib::assumed()) } else { net::calib() } {
        Ok(c) => c,
        Err(e) => {
            res.tool_failure = Some(format!("calibration of loopback limits failed: {e}"));
            return res;
        }
    };
    if fault == Fault::None && !calib.gso {
        res.inconclusive.push("kernel/socket reports no UDP GSO support: segmented transmits cannot be exercised".into());
    }
    res.extra.insert("loopback_limits".into(), sweep::calib_json(&calib));
    let env = Env { fault, calib, wait_ms: cfg.wait_ms };
    let ctx = Ctx { prop: PROP, tier: cfg.tier, seed: cfg.seed, threads: cfg.threads, replay: cfg.replay.clone(), verbose: false };
    let mut rep = Report::default();
    let tier = cfg.tier;
    let s = cfg.scale;

    // --- random sweep
    let (n_rand, b_rand) = if fault == Fault::None { (tier.pick(40_000, 4_000_000), tier.pick(20.0, 330.0)) } else { (tier.pick(600, 6_000), tier.pick(8.0, 40.0)) };
    let g = Group { name: "rand", cases: sc(n_rand, s), budget_s: b_rand * cfg.bscale, exhaustive: false };
    run_group(&ctx, &mut rep, &g, |idx, seed, trace| {
        let plan = Plan::random(seed, &env);
        sweep::run_case(&plan, &env, seed, trace, idx < 4)
    });

    if fault == Fault::None {
        // --- every payload length (thorough), a strided subset (quick)
        let stride = if s < 1.0 { tier.pick(61, 7) } else { tier.pick(8, 1) };
        let (sh_i, sh_n) = (cfg.shard.0, cfg.shard.1.max(1));
        let g = Group { name: "lengths", cases: (2 * 256u64).div_ceil(sh_n), budget_s: tier.pick(12.0, 200.0) * cfg.bscale, exhaustive: false };
        let g_done = std::sync::atomic::AtomicU64::new(0);
        run_group(&ctx, &mut rep, &g, |i, _seed, trace| {
            let idx = i * sh_n + sh_i;
            let Some(plan) = Plan::lengths(idx, stride, &env) else { return CaseOut::default() };
            g_done.fetch_add(1, std::sync::atomic::Ordering::Relaxed);
            sweep::run_case(&plan, &env, 0x1E_0000 + idx, trace, idx == 0)
        });
        res.extra.insert("lengths_stride".into(), json!(stride));
        // --- segment size x count grid
        let max_seg = 1500usize;
        let windows = max_seg.div_ceil(8) as u64;
        let step = if s < 1.0 { tier.pick(47, 13) } else { tier.pick(9, 1) };
        let total = sweep::FAMS.len() as u64 * windows;
        let g = Group { name: "gso-grid", cases: total.div_ceil(step).div_ceil(sh_n), budget_s: tier.pick(12.0, 200.0) * cfg.bscale, exhaustive: false };
        run_group(&ctx, &mut rep, &g, |i, _seed, trace| {
            let i = i * sh_n + sh_i;
            let idx = (i * step + (i / 7) % step) % total;
            let Some(plan) = Plan::gso_grid(idx, &env, max_seg) else { return CaseOut::default() };
            sweep::run_case(&plan, &env, 0x65_0000 + idx, trace, i == 0)
        });
        res.extra.insert("gso_grid_step".into(), json!(step));
        // --- control-message encoder / decoder through the hook
        let sizes = if s < 0.02 { Sizes::reduced() } else { Sizes::full() };
        let units = sizes.units();
        let chunk = 16u64;
        let g = Group { name: "cmsg", cases: units.div_ceil(chunk).div_ceil(sh_n), budget_s: tier.pick(20.0, 200.0), exhaustive: true };
        run_group(&ctx, &mut rep, &g, |i, _seed, _trace| {
            let idx = i * sh_n + sh_i;
            let mut out = CmsgOut::default();
            for u in idx * chunk..((idx + 1) * chunk).min(units) {
                sizes.run_unit(u, &mut out);
            }
            cmsg_caseout(&out, idx)
        });
    }

    res.evaluations = rep.evaluations;
    res.nontrivial = rep.nontrivial;
    res.fps = rep.fps.clone();
    for (g, idx, seed, v) in &rep.violations {
        res.violations.push((g.clone(), *idx, *seed, v.msg.clone()));
    }
    res.sig_counts = SIG_COUNTS.lock().unwrap().clone();
    for (k, v) in &rep.cnt.m {
        res.counters.insert(k.to_string(), *v);
    }
    res.inconclusive.extend(rep.inconclusive.iter().cloned());
    res.harness_errors = rep.harness_errors.clone();
    res.samples = rep.samples.clone();
    res.groups = rep.groups.clone();
    res.combos = sweep::COMBOS.lock().unwrap().clone();
    if let Some(st) = shim_stats() {
        if matches!(fault, Fault::GsoErr(..)) && st["sendmsg_gso_failed"].as_u64() == Some(0) {
            res.tool_failure = Some("fault shim never failed a UDP_SEGMENT sendmsg although the lane asked for it".into());
        }
        res.extra.insert("shim_stats".into(), st);
    } else if fault != Fault::None {
        res.tool_failure = Some("fault shim not loaded (faultudp_stats symbol missing)".into());
    }
    res.wall_s = t0.elapsed().as_secs_f64();
    res.ok = res.tool_failure.is_none();
    res
}

pub fn cmsg_caseout(out: &CmsgOut, idx: u64) -> CaseOut {
    let mut co = CaseOut::default();
    co.cnt.add("cmsg.checks", out.checks);
    co.cnt.add("cmsg.prepare_msg_cases", out.encode_cases);
    co.cnt.add("cmsg.roundtrips_ok", out.roundtrip_ok);
    co.cnt.add("cmsg.undersized_buffer_documented_panics", out.roundtrip_documented_panics);
    co.cnt.add("cmsg.decode_recv_cases", out.decode_cases);
    co.nontrivial = out.checks > 0;
    co.fp = qv::util::hash64(0xC5, &[&idx.to_le_bytes()]);
    co.viol = filter_violations(out.viol.iter().map(|m| Violation { prop: PROP, msg: m.clone() }).collect());
    co
}

/// Counters of the LD_PRELOAD shim, if it is loaded into this process.
pub fn shim_stats() -> Option<Value> {
    type F = unsafe extern "C" fn(*mut libc::c_ulong, libc::c_int) -> libc::c_int;
    let sym = unsafe { libc::dlsym(libc::RTLD_DEFAULT, c"faultudp_stats".as_ptr()) };
    if sym.is_null() {
        return None;
    }
    let f: F = unsafe { std::mem::transmute(sym) };
    let mut v = [0 as libc::c_ulong; 8];
    unsafe { f(v.as_mut_ptr(), 8) };
    Some(json!({
        "sendmsg_calls": v[0], "sendmsg_with_udp_segment": v[1], "sendmsg_gso_failed": v[2], "sendmsg_tos_failed": v[3],
        "setsockopt_failed": v[4], "recvmmsg_failed": v[5], "recvmmsg_calls": v[6], "sockets": v[7],
    }))
}

// ------------------------------------------------------------------------------------------
// sub-process lanes
// ------------------------------------------------------------------------------------------

pub struct Spawned {
    pub lane: String,
    pub child: Child,
    /// threads draining stdout / stderr from the moment the child starts
    pub readers: Option<(std::thread::JoinHandle<String>, std::thread::JoinHandle<String>)>,
    pub out_file: Option<String>,
    pub log_file: Option<String>,
    pub started: Instant,
    pub timeout: Duration,
    pub kind: ToolKind,
    /// set by a pool that noticed the exit before `collect` is called
    pub finished_after: Option<Duration>,
}

#[derive(Debug, Clone, Copy, PartialEq, Eq)]
pub enum ToolKind {
    Plain,
    Asan,
    Valgrind,
    Miri,
}

pub fn verif_dir() -> String {
    std::env::var("QV_VERIF_DIR").unwrap_or_else(|_| "/verif".to_string())
}

pub fn lanes_dir() -> String {
    let d = format!("{}/udpharness/target/lanes", verif_dir());
    let _ = std::fs::create_dir_all(&d);
    d
}

pub fn tier_name(t: Tier) -> &'static str {
    t.name()
}

#[allow(clippy::too_many_arguments)]
pub fn spawn_worker(exe: &str, wrapper: &[String], lane: &str, kind: &str, cfg: &LaneCfg, envs: &[(String, String)], tool: ToolKind, timeout_s: u64, inherit_stdio: bool) -> Result<Spawned, String> {
    let out_file = format!("{}/{}.json", lanes_dir(), lane.replace([':', '/'], "_"));
    let _ = std::fs::remove_file(&out_file);
    let mut args: Vec<String> = wrapper.to_vec();
    args.push(exe.to_string());
    args.extend(["lane".to_string(), lane.to_string(), "--kind".into(), kind.to_string(), "--tier".into(), tier_name(cfg.tier).into(), "--seed".into(), cfg.seed.to_string()]);
    args.extend(["--threads".into(), cfg.threads.to_string(), "--scale".into(), cfg.scale.to_string(), "--bscale".into(), cfg.bscale.to_string(), "--wait-ms".into(), cfg.wait_ms.to_string(), "--out".into(), out_file.clone()]);
    args.extend(["--shard".into(), format!("{}/{}", cfg.shard.0, cfg.shard.1)]);
    if let Some((g, i, s)) = &cfg.replay {
        args.extend(["--replay-case".into(), g.clone(), i.to_string(), s.to_string()]);
    }
    let mut cmd = Command::new(&args[0]);
    cmd.args(&args[1..]);
    for (k, v) in envs {
        cmd.env(k, v);
    }
    if !inherit_stdio {
        cmd.stdin(Stdio::null()).stdout(Stdio::piped()).stderr(Stdio::piped());
    }
    let mut child = cmd.spawn().map_err(|e| format!("cannot start {}: {e}", args[0]))?;
    let readers = start_readers(&mut child);
    Ok(Spawned { lane: lane.to_string(), child, readers, out_file: Some(out_file), log_file: None, started: Instant::now(), timeout: Duration::from_secs(timeout_s), kind: tool, finished_after: None })
}

pub fn start_readers(child: &mut Child) -> Option<(std::thread::JoinHandle<String>, std::thread::JoinHandle<String>)> {
    let so = child.stdout.take();
    let se = child.stderr.take();
    let h1 = std::thread::spawn(move || so.map(read_all).unwrap_or_default());
    let h2 = std::thread::spawn(move || se.map(read_all).unwrap_or_default());
    Some((h1, h2))
}

fn read_all(mut r: impl Read) -> String {
    let mut s = String::new();
    let _ = r.read_to_string(&mut s);
    s
}

/// Wait for a spawned lane (bounded), collect its result and the tool's verdict.
pub fn collect(mut sp: Spawned) -> LaneResult {
    let mut timed_out = false;
    let status = loop {
        match sp.child.try_wait() {
            Ok(Some(st)) => break Some(st),
            Ok(None) => {
                if sp.started.elapsed() > sp.timeout {
                    let _ = sp.child.kill();
                    let _ = sp.child.wait();
                    timed_out = true;
                    break None;
                }
                std::thread::sleep(Duration::from_millis(50));
            }
            Err(_) => break None,
        }
    };
    let (stdout, stderr) = match sp.readers.take() {
        Some((h1, h2)) => (h1.join().unwrap_or_default(), h2.join().unwrap_or_default()),
        None => (String::new(), String::new()),
    };
    let finished_after = sp.finished_after.unwrap_or_else(|| sp.started.elapsed());
    let mut res = None;
    if let Some(f) = &sp.out_file {
        if let Ok(s) = std::fs::read_to_string(f) {
            if let Ok(v) = serde_json::from_str::<Value>(&s) {
                res = LaneResult::from_json(&v);
            }
        }
    }
    if res.is_none() {
        // Miri worker: result on stdout
        if let Some(l) = stdout.lines().find_map(|l| l.strip_prefix("LANE-RESULT ")) {
            if let Ok(v) = serde_json::from_str::<Value>(l) {
                res = LaneResult::from_json(&v);
            }
        }
    }
    let had_result = res.is_some();
    let mut r = res.unwrap_or_else(|| LaneResult { lane: sp.lane.clone(), ..Default::default() });
    r.lane = sp.lane.clone();
    r.wall_s = finished_after.as_secs_f64();
    let log = sp.log_file.as_ref().and_then(|f| std::fs::read_to_string(f).ok()).unwrap_or_default();
    let mut reports = 0u64;
    match sp.kind {
        ToolKind::Asan => {
            let all = format!("{stderr}\n{log}");
            for l in all.lines() {
                if l.contains("ERROR: AddressSanitizer") || l.contains("ERROR: LeakSanitizer") {
                    reports += 1;
                    if r.violations.len() < 5 {
                        let frames: Vec<&str> = all.lines().skip_while(|x| *x != l).skip(1).filter(|x| x.trim_start().starts_with('#')).take(6).map(|x| x.trim()).collect();
                        r.violations.push((format!("{}.sanitizer", sp.lane), 0, 0, format!("asan: {} | {}", l.trim(), frames.join(" | "))));
                    }
                }
            }
            r.extra.insert("asan_reports".into(), json!(reports));
        }
        ToolKind::Valgrind => {
            let mut errs = 0u64;
            for l in log.lines() {
                if let Some(p) = l.find("ERROR SUMMARY: ") {
                    let n: u64 = l[p + 15..].split_whitespace().next().and_then(|x| x.parse().ok()).unwrap_or(0);
                    errs += n;
                }
            }
            reports = errs;
            if errs > 0 {
                let first: Vec<&str> = log.lines().filter(|l| !l.contains("ERROR SUMMARY") && l.len() > 12).take(12).collect();
                r.violations.push((format!("{}.memcheck", sp.lane), 0, 0, format!("valgrind: {errs} memcheck errors: {}", first.join(" | "))));
            }
            r.extra.insert("valgrind_errors".into(), json!(errs));
        }
        ToolKind::Miri => {
            let ub = stderr.lines().filter(|l| l.starts_with("error: Undefined Behavior") || l.starts_with("error: memory leaked") || l.starts_with("error: deadlock")).count() as u64;
            let unsupported = stderr.lines().filter(|l| l.starts_with("error: unsupported operation")).count() as u64;
            reports = ub;
            if ub > 0 {
                let lines: Vec<&str> = stderr.lines().collect();
                let at = lines.iter().position(|l| l.starts_with("error: Undefined Behavior") || l.starts_with("error: memory leaked") || l.starts_with("error: deadlock")).unwrap_or(0);
                let err = lines[at].trim_start_matches("error: ");
                let loc = lines[at..].iter().find(|l| l.trim_start().starts_with("-->")).map(|l| l.trim().trim_start_matches("--> ")).unwrap_or("?");
                // violations of the (experimental) aliasing models are a class of their own: bounds, initialisation
                // and alignment errors are "memory"
                let class = if err.contains("borrow stack") || err.contains("is forbidden") || lines[at..].iter().take(12).any(|l| l.contains("Stacked Borrows") || l.contains("Tree Borrows")) { "aliasing-model" } else { "memory" };
                let ctx: Vec<&str> = lines[at..].iter().filter(|l| l.contains("help:") || l.trim_start().starts_with(char::is_numeric)).take(4).map(|l| l.trim()).collect();
                r.violations.push((format!("{}.miri", sp.lane), 0, 0, format!("miri[{class}] at {loc}: {err} | {}", ctx.join(" | "))));
            }
            if unsupported > 0 {
                r.tool_failure = Some(format!("miri: unsupported operation: {}", stderr.lines().find(|l| l.starts_with("error: unsupported")).unwrap_or("")));
            }
            r.extra.insert("miri_ub_reports".into(), json!(ub));
        }
        ToolKind::Plain => {}
    }
    let signal = {
        use std::os::unix::process::ExitStatusExt;
        status.and_then(|s| s.signal())
    };
    let crash = matches!(signal, Some(libc::SIGSEGV) | Some(libc::SIGABRT) | Some(libc::SIGBUS) | Some(libc::SIGILL) | Some(libc::SIGFPE));
    if timed_out {
        r.tool_failure = Some(format!("lane timed out after {} s", sp.timeout.as_secs()));
    } else if !had_result && reports == 0 && crash && sp.kind != ToolKind::Miri {
        // the process that runs the code under test natively died of a fatal signal: memory corruption or an
        // abort inside the code under test (harness panics are caught and reported through the result file)
        let tail: Vec<&str> = stderr.lines().rev().take(4).collect::<Vec<_>>().into_iter().rev().collect();
        r.violations.push((format!("{}.crash", sp.lane), 0, 0, format!("crash: the process running the sweep natively was killed by signal {} before it could report: {}", signal.unwrap_or(0), tail.join(" | "))));
        r.ok = true;
    } else if !had_result && reports == 0 {
        let tail: Vec<&str> = stderr.lines().rev().take(6).collect::<Vec<_>>().into_iter().rev().collect();
        r.tool_failure = Some(format!("lane produced no result (exit {:?}): {}", status.map(|s| s.code()), tail.join(" | ")));
    } else if !had_result {
        // the tool stopped the process at its first report: that is a verdict, not a tool failure
        r.ok = true;
    }
    if r.tool_failure.is_some() {
        r.ok = false;
    }
    r
}

// ------------------------------------------------------------------------------------------
// merging
// ------------------------------------------------------------------------------------------

fn leak(s: String) -> &'static str {
    Box::leak(s.into_boxed_str())
}

pub fn merge_into(rep: &mut Report, lane: &LaneResult, combos: &mut BTreeSet<u64>, sigs: &mut BTreeMap<String, u64>) {
    rep.evaluations += lane.evaluations;
    rep.nontrivial += lane.nontrivial;
    rep.fps.extend(lane.fps.iter().copied());
    for (g, idx, seed, msg) in &lane.violations {
        rep.violations.push((format!("{}.{}", lane.lane, g), *idx, *seed, Violation { prop: PROP, msg: msg.clone() }));
    }
    for (k, v) in &lane.counters {
        rep.cnt.add(leak(k.clone()), *v);
    }
    for s in &lane.samples {
        if rep.samples.len() < 6 {
            rep.samples.push(s.clone());
        }
    }
    for i in &lane.inconclusive {
        if rep.inconclusive.len() < 50 {
            rep.inconclusive.push(format!("{}: {i}", lane.lane));
        }
    }
    if !lane.inconclusive.is_empty() {
        rep.cnt.add("inconclusive_cases", lane.inconclusive.len() as u64);
    }
    for e in &lane.harness_errors {
        rep.harness_errors.push(format!("{}: {e}", lane.lane));
    }
    for (k, v) in &lane.groups {
        rep.groups.insert(format!("{}.{k}", lane.lane), *v);
    }
    combos.extend(lane.combos.iter().copied());
    for (k, v) in &lane.sig_counts {
        *sigs.entry(k.clone()).or_insert(0) += v;
    }
}

/// Fold several results of one tool into one lane entry (keeps the evidence file readable).
pub fn aggregate(name: &str, parts: &[LaneResult]) -> LaneResult {
    let mut a = LaneResult { lane: name.to_string(), ok: !parts.is_empty(), ..Default::default() };
    for p in parts {
        a.evaluations += p.evaluations;
        a.nontrivial += p.nontrivial;
        a.fps.extend(p.fps.iter().copied());
        for v in &p.violations {
            a.violations.push((format!("{}:{}", p.lane, v.0), v.1, v.2, v.3.clone()));
        }
        for (k, v) in &p.sig_counts {
            *a.sig_counts.entry(k.clone()).or_insert(0) += v;
        }
        for (k, v) in &p.counters {
            *a.counters.entry(k.clone()).or_insert(0) += v;
        }
        a.inconclusive.extend(p.inconclusive.iter().cloned());
        a.harness_errors.extend(p.harness_errors.iter().cloned());
        for (k, v) in &p.groups {
            let e = a.groups.entry(k.clone()).or_insert((0, 0, true));
            e.0 += v.0;
            e.1 += v.1;
            e.2 &= v.2;
        }
        for (k, v) in &p.extra {
            if let Some(n) = v.as_u64() {
                let cur = a.extra.get(k).and_then(|x| x.as_u64()).unwrap_or(0);
                a.extra.insert(k.clone(), json!(cur + n));
            }
        }
        a.wall_s = a.wall_s.max(p.wall_s);
        if let Some(f) = &p.tool_failure {
            a.tool_failure = Some(format!("{}: {f}", p.lane));
            a.ok = false;
        }
    }
    a
}
