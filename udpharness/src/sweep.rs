//! Loopback sweep over `UdpSocketState::{send, try_send, recv}` with the C19 oracle.
//!
//! One *case* = one fresh socket pair + a short sequence of bursts. Every transmit has a unique id;
//! payload bytes are a pure function of (transmit id, segment index, offset). The oracle knows the
//! exact list of datagrams every transmit describes and compares it with what `recv` reports.

use std::{
    collections::BTreeSet,
    io::{self, IoSliceMut},
    net::{IpAddr, Ipv6Addr, SocketAddr, SocketAddrV6},
    sync::Mutex,
    time::{Duration, Instant},
};

use qv::{
    app::{Counters, Violation},
    check::{bucket, CaseOut},
    util::{hash64, Rng},
};
use serde_json::json;
use udp::{EcnCodepoint, RecvMeta, Transmit, BATCH_SIZE};

use crate::{
    net::{self, as_seen_by, dest_for, v4, Calib, Kind, Path, Sock},
    pay,
};

pub const PROP: &str = "C19";

#[derive(Debug, Clone, Copy, PartialEq, Eq)]
pub enum Fault {
    None,
    /// sendmsg with UDP_SEGMENT fails with this errno after `after` successes per socket
    GsoErr(i32, u32),
    SockoptSegment,
    SockoptGro,
    SockoptBoth,
    RecvmmsgEnosys,
    TosEinval,
}

impl Fault {
    pub fn from_mode(m: &str) -> Option<Self> {
        Some(match m {
            "none" => Fault::None,
            "gso-eio" => Fault::GsoErr(libc::EIO, 0),
            "gso-einval" => Fault::GsoErr(libc::EINVAL, 0),
            "gso-eio-after2" => Fault::GsoErr(libc::EIO, 2),
            "sockopt-segment" => Fault::SockoptSegment,
            "sockopt-gro" => Fault::SockoptGro,
            "sockopt-both" => Fault::SockoptBoth,
            "recvmmsg-enosys" => Fault::RecvmmsgEnosys,
            "tos-einval" => Fault::TosEinval,
            _ => return None,
        })
    }
    /// environment for the LD_PRELOAD shim
    pub fn env(m: &str) -> Vec<(&'static str, &'static str)> {
        match m {
            "gso-eio" => vec![("FAULTUDP_SENDMSG_GSO", "EIO")],
            "gso-einval" => vec![("FAULTUDP_SENDMSG_GSO", "EINVAL")],
            "gso-eio-after2" => vec![("FAULTUDP_SENDMSG_GSO", "EIO"), ("FAULTUDP_SENDMSG_GSO_AFTER", "2")],
            "sockopt-segment" => vec![("FAULTUDP_SETSOCKOPT", "segment")],
            "sockopt-gro" => vec![("FAULTUDP_SETSOCKOPT", "gro")],
            "sockopt-both" => vec![("FAULTUDP_SETSOCKOPT", "segment,gro")],
            "recvmmsg-enosys" => vec![("FAULTUDP_RECVMMSG", "ENOSYS")],
            "tos-einval" => vec![("FAULTUDP_SENDMSG_TOS", "EINVAL")],
            _ => vec![],
        }
    }
}

pub const DEGRADE_MODES: &[&str] =
    &["gso-eio", "gso-einval", "gso-eio-after2", "sockopt-segment", "sockopt-gro", "sockopt-both", "recvmmsg-enosys", "tos-einval"];

#[derive(Debug, Clone, Copy)]
pub struct Env {
    pub fault: Fault,
    pub calib: Calib,
    /// how long to wait for a datagram that was sent but has not shown up yet
    pub wait_ms: u64,
}

// ------------------------------------------------------------------------------------------
// global coverage set: distinct (family, ecn, gso-count bucket, size bucket, src_ip kind)
// ------------------------------------------------------------------------------------------

pub static COMBOS: Mutex<BTreeSet<u64>> = Mutex::new(BTreeSet::new());

// ------------------------------------------------------------------------------------------
// plans
// ------------------------------------------------------------------------------------------

#[derive(Debug, Clone, Copy, PartialEq, Eq)]
pub enum SrcKind {
    None,
    /// IpAddr::V4(127.0.0.x)
    V4(u8),
    /// IpAddr::V6(::ffff:127.0.0.x) (what RecvMeta::dst_ip of a dual-stack socket reports)
    Mapped(u8),
    /// IpAddr::V6(::1)
    V6,
}

#[derive(Debug, Clone, Copy, PartialEq, Eq)]
pub enum SegField {
    /// segment_size: None
    Absent,
    /// segment_size: Some(len + k)  (k >= 0): effectively a single datagram
    AtLeast(usize),
    /// segment_size: Some(seg), several segments
    Gso,
}

#[derive(Debug, Clone, Copy)]
pub struct TxPlan {
    pub seg: usize,
    pub nsegs: u32,
    pub last: usize,
    pub field: SegField,
    /// 0 = none, 1 = ECT1 (0b01), 2 = ECT0 (0b10), 3 = CE
    pub ecn: u8,
    pub src: SrcKind,
}

impl TxPlan {
    pub fn total(&self) -> usize {
        self.seg * (self.nsegs as usize - 1) + self.last
    }
    pub fn single(len: usize, ecn: u8, src: SrcKind, field: SegField) -> Self {
        Self { seg: len, nsegs: 1, last: len, field, ecn, src }
    }
}

#[derive(Debug, Clone, Copy, PartialEq, Eq)]
pub enum SizeKind {
    Exact,
    Slack(usize),
    Full,
    Huge,
    /// first buffer only `permille` of the message: kernel truncation is expected (prefix oracle)
    Under(u32),
}

#[derive(Debug, Clone, Copy)]
pub struct Shape {
    pub iovecs: usize,
    pub size: SizeKind,
}

#[derive(Debug, Clone)]
pub struct Burst {
    pub txs: Vec<TxPlan>,
    pub shape: Shape,
}

#[derive(Debug, Clone)]
pub struct Plan {
    pub sk: Kind,
    pub rk: Kind,
    pub path: Path,
    pub s_specific: bool,
    pub r_specific: bool,
    /// destination 127.0.0.<dst4> on the IPv4 path
    pub dst4: u8,
    pub gro_on: bool,
    /// true: `send` (errors swallowed), false: `try_send`
    pub api_send: bool,
    pub bursts: Vec<Burst>,
    pub echo: bool,
}

pub const FAMS: [(Kind, Kind, Path, &str); 8] = [
    (Kind::V4, Kind::V4, Path::P4, "v4>v4"),
    (Kind::V4, Kind::Dual, Path::P4, "v4>dual"),
    (Kind::Dual, Kind::V4, Path::P4, "dual>v4 (v4-mapped dest)"),
    (Kind::Dual, Kind::Dual, Path::P4, "dual>dual (v4-mapped dest)"),
    (Kind::V6Only, Kind::V6Only, Path::P6, "v6>v6"),
    (Kind::V6Only, Kind::Dual, Path::P6, "v6>dual"),
    (Kind::Dual, Kind::V6Only, Path::P6, "dual>v6"),
    (Kind::Dual, Kind::Dual, Path::P6, "dual>dual (v6)"),
];

fn fam_index(sk: Kind, rk: Kind, path: Path) -> usize {
    FAMS.iter().position(|f| f.0 == sk && f.1 == rk && f.2 == path).unwrap_or(0)
}

fn fam_counter(i: usize) -> &'static str {
    [
        "cov.fam.v4>v4",
        "cov.fam.v4>dual",
        "cov.fam.dual>v4(mapped)",
        "cov.fam.dual>dual(mapped)",
        "cov.fam.v6>v6",
        "cov.fam.v6>dual",
        "cov.fam.dual>v6",
        "cov.fam.dual>dual(v6)",
    ][i]
}

fn ecn_of(x: u8) -> Option<EcnCodepoint> {
    EcnCodepoint::from_bits(x)
}

/// interesting payload lengths
pub const EDGE_LENS: &[usize] = &[
    1, 2, 3, 4, 7, 8, 9, 15, 16, 17, 31, 32, 33, 63, 64, 65, 127, 128, 129, 255, 256, 257, 511, 512, 513, 1023, 1024, 1025, 1199, 1200,
    1201, 1232, 1252, 1280, 1350, 1452, 1471, 1472, 1473, 1499, 1500, 1501, 2047, 2048, 2049, 4095, 4096, 4097, 8191, 8192, 8193, 9000,
    16383, 16384, 16385, 32767, 32768, 32769, 49152, 65000, 65400,
];

fn pick_len(rng: &mut Rng, max: usize) -> usize {
    let l = match rng.below(10) {
        0 => *rng.pick(EDGE_LENS),
        1 => max - rng.usize(4.min(max)),
        2 => 1 + rng.usize(16),
        3..=5 => 1 + rng.usize(1500),
        6 => 1 + rng.usize(9000),
        _ => {
            // log-uniform
            let bits = 1 + rng.usize(16);
            1 + rng.usize(1usize << bits)
        }
    };
    l.clamp(1, max)
}

fn pick_src(rng: &mut Rng, p: &Plan) -> SrcKind {
    if rng.chance(45) {
        return SrcKind::None;
    }
    match (p.sk, p.path) {
        (Kind::V4, _) => SrcKind::V4(if p.s_specific { 1 } else { 1 + rng.usize(250) as u8 }),
        (_, Path::P4) => {
            let x = 1 + rng.usize(250) as u8;
            if rng.bool() {
                SrcKind::V4(x)
            } else {
                SrcKind::Mapped(x)
            }
        }
        (_, Path::P6) => SrcKind::V6,
    }
}

fn pick_tx(rng: &mut Rng, p: &Plan, env: &Env, max_gso: usize) -> TxPlan {
    let pi = (p.path == Path::P6) as usize;
    let max_single = env.calib.max_single[pi];
    let max_total = env.calib.max_gso_total[pi].max(max_single);
    let ecn = rng.below(4) as u8;
    let src = pick_src(rng, p);
    if max_gso > 1 && rng.chance(55) {
        // segmented transmit
        let nsegs = match rng.below(8) {
            0 => 2,
            1 => max_gso as u32,
            2 => (max_gso as u32 - 1).max(2),
            3 => 3,
            _ => 2 + rng.below(max_gso as u64 - 1) as u32,
        };
        let seg_cap = (max_total / nsegs as usize).min(max_single).max(1);
        let mut seg = match rng.below(8) {
            0 => 1,
            1 => seg_cap,
            2 => 1200,
            3 => 1472,
            4 => 1 + rng.usize(64),
            _ => 1 + rng.usize(1500),
        }
        .clamp(1, seg_cap);
        if rng.chance(10) {
            seg = 1 + rng.usize(seg_cap);
        }
        let last = match rng.below(5) {
            0 => seg,
            1 => 1,
            2 => (seg - 1).max(1),
            _ => 1 + rng.usize(seg),
        };
        TxPlan { seg, nsegs, last, field: SegField::Gso, ecn, src }
    } else {
        let mut len = pick_len(rng, max_single);
        if rng.chance(2) && env.fault == Fault::None {
            // too large for the path: EMSGSIZE is the documented outcome and nothing may be delivered
            len = max_single + 1 + rng.usize(64);
        }
        let field = match rng.below(4) {
            0 => SegField::AtLeast(0),
            1 => SegField::AtLeast(1 + rng.usize(3000)),
            _ => SegField::Absent,
        };
        TxPlan::single(len, ecn, src, field)
    }
}

impl Plan {
    fn base(rng: &mut Rng, fam: usize) -> Plan {
        let (sk, rk, path, _) = FAMS[fam];
        // a dual-stack socket only receives IPv4 when bound to the wildcard address
        let r_specific = !(rk == Kind::Dual && path == Path::P4) && rng.chance(40);
        let s_specific = !(sk == Kind::Dual && path == Path::P4) && rng.chance(30);
        Plan {
            sk,
            rk,
            path,
            s_specific,
            r_specific,
            dst4: 1 + rng.usize(250) as u8,
            gro_on: !rng.chance(30),
            api_send: rng.chance(40),
            bursts: vec![],
            echo: rng.chance(35),
        }
    }

    pub fn random(seed: u64, env: &Env) -> Plan {
        let mut rng = Rng::new(seed);
        let fam = rng.usize(FAMS.len());
        let mut p = Plan::base(&mut rng, fam);
        let max_gso = match env.fault {
            Fault::SockoptSegment | Fault::SockoptBoth => 1,
            _ => {
                if env.calib.gso {
                    64
                } else {
                    1
                }
            }
        };
        let nb = 1 + rng.usize(5);
        for _ in 0..nb {
            let ntx = match rng.below(6) {
                0..=2 => 1,
                3 => 2,
                4 => 1 + rng.usize(6),
                _ => 1 + rng.usize(40),
            };
            let mut txs = Vec::with_capacity(ntx);
            for _ in 0..ntx {
                let mut t = pick_tx(&mut rng, &p, env, max_gso);
                if ntx > 8 {
                    // large bursts: keep the queue small
                    t = TxPlan::single(pick_len(&mut rng, 2000), t.ecn, t.src, SegField::Absent);
                }
                txs.push(t);
            }
            let iovecs = match rng.below(8) {
                0..=2 => 1,
                3 => 2,
                4 => 2 + rng.usize(7),
                5 => BATCH_SIZE,
                6 => BATCH_SIZE + 1 + rng.usize(8),
                _ => 1 + rng.usize(BATCH_SIZE),
            };
            let size = if ntx == 1 {
                match rng.below(10) {
                    0..=2 => SizeKind::Exact,
                    3 => SizeKind::Slack(1),
                    4 => SizeKind::Slack(1 + rng.usize(64)),
                    5..=6 => SizeKind::Full,
                    7 => SizeKind::Huge,
                    _ => SizeKind::Under(1 + rng.below(999) as u32),
                }
            } else {
                match rng.below(6) {
                    0..=1 => SizeKind::Slack(0),
                    2 => SizeKind::Slack(1 + rng.usize(64)),
                    3..=4 => SizeKind::Full,
                    _ => SizeKind::Huge,
                }
            };
            p.bursts.push(Burst { txs, shape: Shape { iovecs, size } });
        }
        p
    }

    /// Deterministic: every payload length of a 256-wide window, single datagrams.
    pub fn lengths(idx: u64, stride: usize, env: &Env) -> Option<Plan> {
        // idx enumerates (path, window); the other dimensions cycle with idx
        let per_path = 65_536usize.div_ceil(256);
        let pi = (idx as usize) / per_path;
        if pi >= 2 {
            return None;
        }
        let win = (idx as usize) % per_path;
        let mut rng = Rng::new(hash64(0x1E96, &[&idx.to_le_bytes()]));
        let fams: Vec<usize> = FAMS.iter().enumerate().filter(|(_, f)| (f.2 == Path::P6) == (pi == 1)).map(|(i, _)| i).collect();
        let fam = fams[win % fams.len()];
        let mut p = Plan::base(&mut rng, fam);
        p.echo = false;
        let max = env.calib.max_single[pi];
        let mut txs = vec![];
        let mut l = win * 256 + 1;
        while l <= (win + 1) * 256 && l <= max + 2 {
            // lengths max+1, max+2 probe the EMSGSIZE behaviour (nothing may be delivered)
            let ecn = ((l + win) % 4) as u8;
            let src = if (l / 4 + win) % 2 == 0 { SrcKind::None } else { pick_src(&mut rng, &p) };
            let field = match l % 3 {
                0 => SegField::Absent,
                1 => SegField::AtLeast(0),
                _ => SegField::AtLeast(l % 97 + 1),
            };
            txs.push(TxPlan::single(l, ecn, src, field));
            l += stride;
        }
        if (win * 256 + 1..=(win + 1) * 256).contains(&max) {
            // whatever the stride: the largest accepted length and the first two rejected ones
            for l in [max - 1, max, max + 1, max + 2] {
                if !txs.iter().any(|t: &TxPlan| t.total() == l) {
                    txs.push(TxPlan::single(l, (l % 4) as u8, SrcKind::None, SegField::Absent));
                }
            }
        }
        if txs.is_empty() {
            return None;
        }
        // one transmit per burst so that exact-size and undersized buffers can be used
        for (i, t) in txs.into_iter().enumerate() {
            let size = match (i + win) % 5 {
                0 => SizeKind::Exact,
                1 => SizeKind::Slack(1),
                2 => SizeKind::Full,
                3 => SizeKind::Slack(7),
                _ => SizeKind::Exact,
            };
            p.bursts.push(Burst { txs: vec![t], shape: Shape { iovecs: 1 + (i % 3), size } });
        }
        Some(p)
    }

    /// Deterministic grid over segment size x segment count x last-segment length.
    pub fn gso_grid(idx: u64, env: &Env, max_seg: usize) -> Option<Plan> {
        const COUNTS: [u32; 10] = [2, 3, 4, 7, 8, 16, 32, 33, 63, 64];
        let segs_per_case = 8usize;
        let seg_windows = max_seg.div_ceil(segs_per_case);
        let fam = (idx as usize) / seg_windows;
        if fam >= FAMS.len() || !env.calib.gso {
            return None;
        }
        let win = (idx as usize) % seg_windows;
        let mut rng = Rng::new(hash64(0x650, &[&idx.to_le_bytes()]));
        let mut p = Plan::base(&mut rng, fam);
        p.echo = false;
        let pi = (p.path == Path::P6) as usize;
        let max_total = env.calib.max_gso_total[pi];
        for s in 0..segs_per_case {
            let seg = win * segs_per_case + s + 1;
            if seg > max_seg {
                break;
            }
            for (ci, &n) in COUNTS.iter().enumerate() {
                if seg * n as usize > max_total {
                    continue;
                }
                let last = match (seg + ci) % 4 {
                    0 => seg,
                    1 => 1,
                    2 => (seg - 1).max(1),
                    _ => 1 + rng.usize(seg),
                };
                let t = TxPlan { seg, nsegs: n, last, field: SegField::Gso, ecn: ((seg + ci) % 4) as u8, src: if (seg + ci) % 3 == 0 { pick_src(&mut rng, &p) } else { SrcKind::None } };
                let size = match (seg + ci) % 4 {
                    0 => SizeKind::Exact,
                    1 => SizeKind::Full,
                    2 => SizeKind::Slack(3),
                    _ => SizeKind::Exact,
                };
                p.bursts.push(Burst { txs: vec![t], shape: Shape { iovecs: 1 + (ci % 4) * 11, size } });
            }
        }
        if p.bursts.is_empty() {
            None
        } else {
            Some(p)
        }
    }

    pub fn summary(&self) -> String {
        let ntx: usize = self.bursts.iter().map(|b| b.txs.len()).sum();
        format!(
            "{} sender_bound={} receiver_bound={} dst4=127.0.0.{} recv_gro={} api={} bursts={} transmits={} echo={}",
            FAMS[fam_index(self.sk, self.rk, self.path)].3,
            if self.s_specific { "specific" } else { "wildcard" },
            if self.r_specific { "specific" } else { "wildcard" },
            self.dst4,
            self.gro_on,
            if self.api_send { "send" } else { "try_send" },
            self.bursts.len(),
            ntx,
            self.echo
        )
    }
}

// ------------------------------------------------------------------------------------------
// execution + oracle
// ------------------------------------------------------------------------------------------

#[derive(Debug, Clone)]
struct Exp {
    tid: u64,
    seg: u32,
    len: usize,
    /// index into `Run::txd`
    tx: usize,
    done: bool,
}

#[derive(Debug, Clone)]
struct TxDesc {
    #[allow(dead_code)]
    tid: u64,
    seg: usize,
    nsegs: u32,
    ecn: Option<EcnCodepoint>,
    /// what RecvMeta::addr must be
    exp_addr: SocketAddr,
    /// what RecvMeta::dst_ip must be
    exp_dst: IpAddr,
    /// ECN may legitimately have been stripped (documented sendmsg_einval fallback mode)
    ecn_may_be_stripped: bool,
    ecn_strip_is_collateral: bool,
}

#[derive(Default)]
pub struct Outcome {
    pub viol: Vec<Violation>,
    /// violations that do not stop the case (the remaining checks are still meaningful)
    pub soft: Vec<Violation>,
    pub cnt: Counters,
    pub missing: Option<String>,
    pub inconclusive: Option<String>,
    pub trace: Vec<String>,
    pub combos: BTreeSet<u64>,
    pub shapes: BTreeSet<u64>,
}

struct Run<'a> {
    env: &'a Env,
    plan: &'a Plan,
    a: Sock,
    b: Sock,
    out: Outcome,
    trace: bool,
    tid_base: u64,
    next_tid: u64,
    txd: Vec<TxDesc>,
    pending: Vec<Exp>,
    /// datagrams already matched in this case (for duplicate diagnosis)
    consumed: Vec<(u64, u32, usize)>,
    /// sender saw EIO/EINVAL from sendmsg (=> sendmsg_einval fallback mode is on)
    sender_fell_back: bool,
    gso_ok_sent: u32,
    last_meta: Option<RecvMeta>,
    recv_dead: bool,
    /// the transmit whose sendmsg was failed by the shim although `send` returned Ok
    trigger_tx: Option<usize>,
    trigger_is_stale_error: bool,
    first_recv_of_burst: bool,
    /// an oversize transmit just failed with EMSGSIZE: with IP_RECVERR on (UdpSocketState::new) the kernel
    /// keeps that error pending on the socket (SO_ERROR) and reports it on the next sendmsg / recvmmsg
    stale_error_pending: bool,
}

fn soft(out: &mut Outcome, msg: String) {
    if out.soft.len() < 2 {
        out.soft.push(Violation { prop: PROP, msg });
    }
}

fn viol(out: &mut Outcome, msg: String) {
    if out.viol.len() < 8 {
        out.viol.push(Violation { prop: PROP, msg });
    }
}

const GUARD: usize = 32;
const FILL: u8 = 0xA5;
const GUARD_BYTE: u8 = 0xC7;

impl<'a> Run<'a> {
    fn t(&mut self, s: impl FnOnce() -> String) {
        if self.trace {
            self.out.trace.push(s());
        }
    }

    fn src_ip(&self, s: SrcKind) -> Option<IpAddr> {
        match s {
            SrcKind::None => None,
            SrcKind::V4(x) => Some(IpAddr::V4(v4(x))),
            SrcKind::Mapped(x) => Some(IpAddr::V6(v4(x).to_ipv6_mapped())),
            SrcKind::V6 => Some(IpAddr::V6(Ipv6Addr::LOCALHOST)),
        }
    }

    /// the source address the receiver must see
    fn exp_src(&self, s: SrcKind) -> IpAddr {
        let ip: IpAddr = match s {
            SrcKind::V4(x) | SrcKind::Mapped(x) => v4(x).into(),
            SrcKind::V6 => Ipv6Addr::LOCALHOST.into(),
            SrcKind::None => match self.plan.path {
                Path::P6 => Ipv6Addr::LOCALHOST.into(),
                Path::P4 => {
                    if self.plan.s_specific {
                        v4(1).into()
                    } else {
                        self.env.calib.default_src4.into()
                    }
                }
            },
        };
        as_seen_by(self.b.kind, ip)
    }

    fn exp_dst(&self) -> IpAddr {
        match self.plan.path {
            Path::P4 => as_seen_by(self.b.kind, v4(self.plan.dst4).into()),
            Path::P6 => Ipv6Addr::LOCALHOST.into(),
        }
    }

    fn sockaddr(ip: IpAddr, port: u16) -> SocketAddr {
        match ip {
            IpAddr::V4(a) => SocketAddr::from((a, port)),
            IpAddr::V6(a) => SocketAddr::V6(SocketAddrV6::new(a, port, 0, 0)),
        }
    }

    fn note_combo(&mut self, t: &TxPlan, sent_segments: u32) {
        let fam = fam_index(self.plan.sk, self.plan.rk, self.plan.path) as u64;
        let srck = match t.src {
            SrcKind::None => 0u64,
            SrcKind::V4(_) => 1,
            SrcKind::Mapped(_) => 2,
            SrcKind::V6 => 3,
        };
        let key = fam << 40 | (t.ecn as u64) << 36 | bucket(sent_segments as u64) << 28 | bucket(t.total() as u64) << 16 | srck;
        self.out.combos.insert(key);
        self.out.cnt.inc(fam_counter(fam as usize));
        self.out.cnt.inc(["cov.ecn.none", "cov.ecn.ect1", "cov.ecn.ect0", "cov.ecn.ce"][t.ecn as usize]);
        self.out.cnt.inc(["cov.src_ip.none", "cov.src_ip.v4", "cov.src_ip.v4mapped", "cov.src_ip.v6"][srck as usize]);
    }

    /// Send one planned transmit (possibly as several plain sends if offload is off) and record
    /// which datagrams it must produce.
    fn send_tx(&mut self, t: &TxPlan) {
        let max_gso = self.a.state.max_gso_segments();
        if t.nsegs > 1 && (t.nsegs as usize) > max_gso {
            // the caller's side of the contract: never ask for more segments than max_gso_segments().
            // Do what quinn does with a prepared batch after offload was halted: one transmit per segment,
            // still carrying the batch's segment_size.
            self.out.cnt.inc("tx.batches_split_by_caller");
            for i in 0..t.nsegs {
                let len = if i + 1 == t.nsegs { t.last } else { t.seg };
                let one = TxPlan { seg: len, nsegs: 1, last: len, field: SegField::AtLeast(t.seg - len), ecn: t.ecn, src: t.src };
                self.send_one(&one);
            }
        } else {
            self.send_one(t);
        }
    }

    fn send_one(&mut self, t: &TxPlan) {
        let tid = self.tid_base.wrapping_add(self.next_tid);
        self.next_tid += 1;
        let contents = pay::build(tid, t.seg, t.nsegs, t.last);
        let total = contents.len();
        let segment_size = match t.field {
            SegField::Absent => None,
            SegField::AtLeast(k) => Some(total + k),
            SegField::Gso => Some(t.seg),
        };
        let dest = dest_for(self.a.kind, self.plan.path, v4(self.plan.dst4), self.b.local.port());
        let ecn = ecn_of(t.ecn);
        let src_ip = self.src_ip(t.src);
        let transmit = Transmit { destination: dest, ecn, contents: &contents, segment_size, src_ip };
        let is_gso = t.nsegs > 1;
        let pi = (self.plan.path == Path::P6) as usize;
        let oversize = !is_gso && total > self.env.calib.max_single[pi];
        self.note_combo(t, t.nsegs);
        self.out.cnt.inc("tx.transmits");
        self.out.cnt.add("tx.segments_described", t.nsegs as u64);
        self.out.cnt.add("tx.bytes", total as u64);
        if is_gso {
            self.out.cnt.inc("tx.gso_transmits");
            if t.last != t.seg {
                self.out.cnt.inc("tx.gso_short_last_segment");
            }
            if t.nsegs as usize == self.a.state.max_gso_segments() {
                self.out.cnt.inc("tx.gso_at_max_segments");
            }
        }
        // will the shim fail this call?
        let mut injected: Option<i32> = None;
        match self.env.fault {
            Fault::GsoErr(errno, after) if is_gso => {
                if self.gso_ok_sent >= after {
                    injected = Some(errno);
                } else {
                    self.gso_ok_sent += 1;
                }
            }
            _ => {}
        }
        let tos_fault = self.env.fault == Fault::TosEinval && self.plan.path == Path::P4;
        // (a call the shim fails never reaches the kernel and leaves a pending error where it is)
        let stale = if injected.is_some() { false } else { std::mem::replace(&mut self.stale_error_pending, false) };
        let mut stale_via_send = false;
        let mut attempts = 0;
        let res = loop {
            let r = if self.plan.api_send {
                self.a.state.send((&self.a.sock).into(), &transmit)
            } else {
                self.a.state.try_send((&self.a.sock).into(), &transmit)
            };
            match r {
                Err(e) if e.kind() == io::ErrorKind::WouldBlock && attempts < 50 => {
                    attempts += 1;
                    self.out.cnt.inc("tx.wouldblock_retries");
                    net::wait_writable(&self.a.sock, 100);
                }
                other => break other,
            }
        };
        if self.trace {
            let line = format!(
                "send tid={tid:#x} total={total} seg_field={segment_size:?} segs={} last={} ecn={ecn:?} src_ip={src_ip:?} dest={dest} api={} => {res:?} (max_gso now {})",
                t.nsegs,
                t.last,
                if self.plan.api_send { "send" } else { "try_send" },
                self.a.state.max_gso_segments()
            );
            self.out.trace.push(line);
        }
        let mut expect_delivery = true;
        match (&res, injected, oversize) {
            (Err(e), _, _) if e.kind() == io::ErrorKind::WouldBlock => {
                self.out.inconclusive = Some("send buffer stayed full (WouldBlock) for 5 s".into());
                return;
            }
            (Ok(()), None, false) => {
                // `send` maps EMSGSIZE to Ok: if the pending error hit this call the datagrams are gone
                stale_via_send = stale && self.plan.api_send;
            }
            (Err(e), None, false) if stale && !self.plan.api_send && e.raw_os_error() == Some(libc::EMSGSIZE) => {
                expect_delivery = false;
                self.out.cnt.inc("tx.stale_socket_error_hit_next_try_send");
                soft(
                    &mut self.out,
                    format!(
                        "stale-error: try_send of a valid transmit ({total} bytes) failed with EMSGSIZE, the error of the PREVIOUS (oversize) transmit: IP_RECVERR keeps it pending on the socket and the next sendmsg reports it; nothing was sent"
                    ),
                );
            }
            // --- oversize single datagram: EMSGSIZE is the documented outcome, nothing may arrive ---
            (Ok(()), None, true) => {
                expect_delivery = false;
                self.stale_error_pending = true;
                if self.plan.api_send {
                    self.out.cnt.inc("tx.oversize_swallowed_by_send");
                } else {
                    viol(&mut self.out, format!("try_send accepted a single datagram of {total} bytes, above the path's maximum of {}", self.env.calib.max_single[pi]));
                }
            }
            (Err(e), None, true) if e.raw_os_error() == Some(libc::EMSGSIZE) && !self.plan.api_send => {
                expect_delivery = false;
                self.stale_error_pending = true;
                self.out.cnt.inc("tx.oversize_emsgsize");
            }
            // --- injected GSO failure: the transmit that triggers the fallback ---
            (Ok(()), Some(_), _) => {
                // (a GSO failure alone must not switch the socket to the old-kernel fallback that
                // strips ECN: `sender_fell_back` stays false)
                // Ok from either entry point: the property demands that the datagrams arrive (as
                // plain sends). Whether the shim really failed a UDP_SEGMENT sendmsg is checked
                // from its statistics at the end of the lane.
                if self.plan.api_send {
                    self.out.cnt.inc("degrade.trigger_via_send");
                } else {
                    self.out.cnt.inc("degrade.trigger_ok_from_try_send");
                }
            }
            (Err(e), Some(errno), _) if e.raw_os_error() == Some(errno) && !self.plan.api_send => {
                // try_send reported the failure to its caller: nothing was sent, nothing is expected
                self.sender_fell_back = true;
                expect_delivery = false;
                self.out.cnt.inc("degrade.trigger_reported_by_try_send");
            }
            (Err(e), _, _) => {
                if self.plan.api_send {
                    viol(&mut self.out, format!("send() returned an error other than WouldBlock: {e} (documented: only WouldBlock is returned)"));
                } else {
                    viol(&mut self.out, format!("try_send failed for a valid transmit (total {total}, segment_size {segment_size:?}, ecn {ecn:?}, src_ip {}): {e}", src_kind_name(t.src)));
                }
                expect_delivery = false;
            }
        }
        if injected.is_some() {
            let m = self.a.state.max_gso_segments();
            if m != 1 {
                viol(&mut self.out, format!("degrade: sendmsg failed with the offload errno but max_gso_segments() is still {m}"));
            } else {
                self.out.cnt.inc("degrade.offload_halted");
            }
        }
        if tos_fault {
            self.sender_fell_back = true;
        }
        if !expect_delivery {
            return;
        }
        let txi = self.txd.len();
        self.txd.push(TxDesc {
            tid,
            seg: t.seg,
            nsegs: t.nsegs,
            ecn,
            exp_addr: Self::sockaddr(self.exp_src(t.src), self.a.local.port()),
            exp_dst: self.exp_dst(),
            ecn_may_be_stripped: self.sender_fell_back && self.plan.path == Path::P4,
            // EIO cannot come from an unsupported IP_TOS cmsg (old kernels answer EINVAL), so after an
            // EIO-triggered offload fallback ECN could still be conveyed
            ecn_strip_is_collateral: matches!(self.env.fault, Fault::GsoErr(libc::EIO, _)),
        });
        for i in 0..t.nsegs {
            let len = if i + 1 == t.nsegs { t.last } else { t.seg };
            self.pending.push(Exp { tid, seg: i, len, tx: txi, done: false });
        }
        self.out.cnt.add("tx.datagrams_expected", t.nsegs as u64);
        if stale_via_send {
            // judged in isolation: did the pending error of the previous transmit swallow this one?
            self.trigger_tx = Some(txi);
            self.trigger_is_stale_error = true;
            self.drain(Shape { iovecs: 4, size: SizeKind::Full });
            self.trigger_tx = None;
            self.trigger_is_stale_error = false;
        }
        if injected.is_some() {
            // The fallback-triggering transmit is judged in isolation, before anything else is sent:
            // remember which expectations belong to it and drain now.
            self.trigger_tx = Some(txi);
            self.drain(Shape { iovecs: 4, size: SizeKind::Full });
            self.trigger_tx = None;
        }
    }
}

fn src_kind_name(s: SrcKind) -> &'static str {
    match s {
        SrcKind::None => "none",
        SrcKind::V4(_) => "v4",
        SrcKind::Mapped(_) => "v4-mapped",
        SrcKind::V6 => "v6",
    }
}

// ------------------------------------------------------------------------------------------
// receive side
// ------------------------------------------------------------------------------------------

impl<'a> Run<'a> {
    fn gro_effective(&self) -> bool {
        self.plan.gro_on && self.b.state.gro_segments() > 1
    }

    /// (total length, number of datagrams, index of first pending entry) of the messages the
    /// kernel is expected to hand out next, in order
    fn predicted(&self) -> Vec<(usize, usize, usize)> {
        let gro = self.gro_effective();
        let mut v: Vec<(usize, usize, usize)> = vec![];
        let mut cur_tx = usize::MAX;
        for (i, e) in self.pending.iter().enumerate() {
            if e.done {
                continue;
            }
            if gro && e.tx == cur_tx && self.txd[e.tx].nsegs > 1 {
                let l = v.last_mut().unwrap();
                l.0 += e.len;
                l.1 += 1;
            } else {
                v.push((e.len, 1, i));
                cur_tx = e.tx;
            }
        }
        v
    }

    fn all_done(&self) -> bool {
        self.pending.iter().all(|e| e.done)
    }

    fn buffer_sizes(&self, shape: Shape, pred: &[(usize, usize, usize)]) -> Vec<usize> {
        let k = shape.iovecs.max(1);
        let maxp = pred.iter().map(|p| p.0).max().unwrap_or(1);
        let maxd = self.pending.iter().filter(|e| !e.done).map(|e| e.len).max().unwrap_or(1);
        let uniform = pred.len() > 1 && self.pending.iter().filter(|e| !e.done).map(|e| e.tx).collect::<BTreeSet<_>>().len() > 1;
        (0..k)
            .map(|i| {
                // buffers beyond the predicted messages must still hold any single datagram: the kernel may
                // hand out a segmented transmit datagram by datagram (e.g. when the GSO skb exceeds the
                // device's gso_max_size it is segmented in software before it reaches the socket)
                let want = if uniform { maxp } else { pred.get(i).map(|p| p.0).unwrap_or(maxd + (i * 37) % 5) };
                match shape.size {
                    SizeKind::Exact => want,
                    SizeKind::Slack(n) => want + n,
                    SizeKind::Full => {
                        if k <= 8 {
                            65_535
                        } else {
                            want.max(maxp) + 16
                        }
                    }
                    SizeKind::Huge => {
                        if i == 0 {
                            1 << 20
                        } else {
                            want.max(maxp) + 1
                        }
                    }
                    SizeKind::Under(pm) => {
                        // For a predicted batch the undersized buffer keeps more than one segment, so that
                        // "batch truncated" (len == buffer) and "kernel delivered datagram by datagram"
                        // (len == segment < buffer) cannot be confused.
                        let lo = match pred.first() {
                            Some(&(_, n, p0)) if n > 1 => self.txd[self.pending[p0].tx].seg + 1,
                            _ => 1,
                        };
                        if i == 0 && self.first_recv_of_burst && want > lo {
                            ((want as u64 * pm as u64 / 1000) as usize).clamp(lo, want - 1)
                        } else {
                            want
                        }
                    }
                }
            })
            .collect()
    }

    fn drain(&mut self, shape: Shape) {
        self.first_recv_of_burst = true;
        let start = Instant::now();
        while !self.all_done() && !self.recv_dead && self.out.viol.is_empty() {
            let only_trigger = self.trigger_tx.is_some() && self.pending.iter().filter(|e| !e.done).all(|e| Some(e.tx) == self.trigger_tx);
            let limit = if only_trigger { Duration::from_millis(60) } else { Duration::from_millis(self.env.wait_ms) };
            let pred = self.predicted();
            let sizes = self.buffer_sizes(shape, &pred);
            match self.recv_once(&sizes, &pred) {
                Ok(true) => {}
                Ok(false) => {
                    // WouldBlock
                    let el = start.elapsed();
                    if el >= limit {
                        if only_trigger && self.trigger_is_stale_error {
                            let t = &self.txd[self.trigger_tx.unwrap()];
                            let n = self.pending.iter().filter(|e| !e.done).count();
                            let (nsegs, seg) = (t.nsegs, t.seg);
                            soft(
                                &mut self.out,
                                format!(
                                    "stale-error: send() returned Ok(()) for a valid transmit ({nsegs} datagrams of {seg} bytes) sent right after an oversize transmit, but {n} of its {nsegs} datagrams were never delivered: IP_RECVERR keeps the EMSGSIZE of the previous transmit pending on the socket, the next sendmsg reports it and send() swallows EMSGSIZE"
                                ),
                            );
                            self.out.cnt.inc("tx.stale_socket_error_swallowed_next_send");
                            self.out.cnt.add("tx.datagrams_lost_to_stale_socket_error", n as u64);
                            for e in self.pending.iter_mut() {
                                e.done = true;
                            }
                            return;
                        }
                        if only_trigger {
                            let t = &self.txd[self.trigger_tx.unwrap()];
                            let n = self.pending.iter().filter(|e| !e.done).count();
                            let (nsegs, seg) = (t.nsegs, t.seg);
                            soft(
                                &mut self.out,
                                format!(
                                    "degrade: send() returned Ok(()) for the GSO transmit that triggered the segmentation-offload fallback ({nsegs} segments of {seg} bytes) but {n} of its {nsegs} datagrams were never delivered: the retry re-encodes the same UDP_SEGMENT cmsg, fails again and the error is swallowed"
                                ),
                            );
                            self.out.cnt.inc("degrade.trigger_transmit_lost_after_send_ok");
                            self.out.cnt.add("degrade.trigger_datagrams_lost", n as u64);
                            for e in self.pending.iter_mut() {
                                e.done = true;
                            }
                            self.trigger_tx = None;
                            return;
                        }
                        let miss: Vec<String> = self.pending.iter().filter(|e| !e.done).take(4).map(|e| format!("tid={:#x} seg={} len={}", e.tid, e.seg, e.len)).collect();
                        let n = self.pending.iter().filter(|e| !e.done).count();
                        self.out.missing = Some(format!("{n} datagram(s) not received within {} ms: {}", limit.as_millis(), miss.join("; ")));
                        return;
                    }
                    let remain = (limit - el).as_millis().min(50) as i32;
                    net::wait_readable(&self.b.sock, remain.max(1));
                }
                Err(()) => return,
            }
        }
        if self.recv_dead || !self.out.viol.is_empty() {
            return;
        }
        // nothing else may be queued: no duplicates, no strays
        let mut buf = vec![0u8; 65_535];
        let mut meta = [RecvMeta::default()];
        let r = {
            let mut iov = [IoSliceMut::new(&mut buf)];
            self.b.state.recv((&self.b.sock).into(), &mut iov, &mut meta)
        };
        match r {
            Err(e) if e.kind() == io::ErrorKind::WouldBlock => {
                self.out.cnt.inc("rx.no_extra_checks");
            }
            Err(e) if self.stale_error_pending && e.raw_os_error() == Some(libc::EMSGSIZE) => {
                self.stale_error_pending = false;
                self.out.cnt.inc("rx.pending_socket_error_surfaced_on_recv");
            }
            Err(e) if self.env.fault == Fault::RecvmmsgEnosys && e.raw_os_error() == Some(libc::ENOSYS) => {
                self.out.cnt.inc("degrade.recv_surfaced_enosys");
                self.recv_dead = true;
            }
            Ok(n) => {
                let m = meta[0];
                let dup = self.consumed.iter().any(|&(tid, seg, len)| len == m.len.min(m.stride.max(1)) && pay::mismatch(pay::seg_key(tid, seg), &buf[..len]).is_none());
                viol(
                    &mut self.out,
                    format!(
                        "rx: unexpected extra message after every described datagram was received ({n} msgs, len {} stride {}): {}",
                        m.len,
                        m.stride,
                        if dup { "duplicate of a datagram already delivered" } else { "bytes match no datagram of this case" }
                    ),
                );
            }
            Err(e) => viol(&mut self.out, format!("recv failed: {e}")),
        }
    }

    /// One `recv` call. Ok(true) = progress, Ok(false) = WouldBlock, Err = stop.
    fn recv_once(&mut self, sizes: &[usize], pred: &[(usize, usize, usize)]) -> Result<bool, ()> {
        // arena: [guard][buf0][guard][buf1]...[guard]
        let total: usize = sizes.iter().sum::<usize>() + GUARD * (sizes.len() + 1);
        let mut arena = vec![FILL; total];
        let mut offs = Vec::with_capacity(sizes.len());
        {
            let mut o = 0;
            for &s in sizes {
                arena[o..o + GUARD].fill(GUARD_BYTE);
                o += GUARD;
                offs.push(o);
                o += s;
            }
            arena[o..o + GUARD].fill(GUARD_BYTE);
        }
        let mut metas = vec![RecvMeta::default(); sizes.len()];
        let res = {
            let mut iovs: Vec<IoSliceMut<'_>> = Vec::with_capacity(sizes.len());
            let mut rest: &mut [u8] = &mut arena[..];
            for &s in sizes {
                let (_, r) = rest.split_at_mut(GUARD);
                let (b, r) = r.split_at_mut(s);
                iovs.push(IoSliceMut::new(b));
                rest = r;
            }
            self.b.state.recv((&self.b.sock).into(), &mut iovs, &mut metas)
        };
        self.out.cnt.inc("rx.recv_calls");
        let n = match res {
            Ok(n) => n,
            Err(e) if e.kind() == io::ErrorKind::WouldBlock => return Ok(false),
            Err(e) if self.env.fault == Fault::RecvmmsgEnosys && e.raw_os_error() == Some(libc::ENOSYS) => {
                self.out.cnt.inc("degrade.recv_surfaced_enosys");
                let n = self.pending.iter().filter(|e| !e.done).count();
                self.out.cnt.add("degrade.datagrams_unreadable_without_recvmmsg", n as u64);
                self.recv_dead = true;
                return Err(());
            }
            Err(e) if self.stale_error_pending && e.raw_os_error() == Some(libc::EMSGSIZE) => {
                // the pending socket error of the oversize transmit was consumed by this recvmmsg: an error
                // report, no datagram is affected
                self.stale_error_pending = false;
                self.out.cnt.inc("rx.pending_socket_error_surfaced_on_recv");
                return Ok(true);
            }
            Err(e) => {
                viol(&mut self.out, format!("recv failed: {e}"));
                return Err(());
            }
        };
        self.t(|| format!("recv iovecs={} sizes={:?} => {n} msgs: {:?}", sizes.len(), &sizes[..sizes.len().min(4)], &metas[..n.min(4)]));
        if n == 0 || n > sizes.len() || n > BATCH_SIZE {
            viol(&mut self.out, format!("recv returned {n} messages for {} buffers (batch size {BATCH_SIZE})", sizes.len()));
            return Err(());
        }
        if n > 1 {
            self.out.cnt.inc("rx.multi_message_batches");
        }
        self.out.shapes.insert((bucket(sizes.len() as u64) << 8) | bucket(n as u64));
        // guards
        {
            let mut o = 0;
            for (i, &s) in sizes.iter().enumerate() {
                if arena[o..o + GUARD].iter().any(|&b| b != GUARD_BYTE) {
                    viol(&mut self.out, format!("memory: guard zone before receive buffer {i} was overwritten"));
                    return Err(());
                }
                o += GUARD + s;
            }
            if arena[o..o + GUARD].iter().any(|&b| b != GUARD_BYTE) {
                viol(&mut self.out, "memory: guard zone after the last receive buffer was overwritten".into());
                return Err(());
            }
        }
        for i in 0..sizes.len() {
            let used = if i < n { metas[i].len.min(sizes[i]) } else { 0 };
            if arena[offs[i] + used..offs[i] + sizes[i]].iter().any(|&b| b != FILL) {
                viol(&mut self.out, format!("memory: receive buffer {i} modified beyond the reported length ({used} of {})", sizes[i]));
                return Err(());
            }
        }
        let first = std::mem::replace(&mut self.first_recv_of_burst, false);
        for i in 0..n {
            let m = metas[i];
            if m.len > sizes[i] {
                viol(&mut self.out, format!("meta: reported len {} exceeds the buffer size {}", m.len, sizes[i]));
                return Err(());
            }
            let data = &arena[offs[i]..offs[i] + m.len];
            let trunc_expected = first && i == 0 && pred.first().is_some_and(|p| sizes[0] < p.0) && m.len == sizes[0];
            let ok = if trunc_expected { self.check_truncated(data, &m, pred[0]) } else { self.check_message(data, &m) };
            if !ok {
                return Err(());
            }
        }
        Ok(true)
    }

    fn check_meta(&mut self, m: &RecvMeta, txi: usize, pieces: usize) -> bool {
        let t = self.txd[txi].clone();
        self.out.cnt.inc("rx.meta_checked");
        if m.addr != t.exp_addr {
            viol(&mut self.out, format!("meta: source address mismatch: transmit left from {} but RecvMeta.addr = {}", t.exp_addr, m.addr));
            return false;
        }
        if m.dst_ip != Some(t.exp_dst) {
            viol(&mut self.out, format!("meta: destination address mismatch: sent to {} but RecvMeta.dst_ip = {:?}", t.exp_dst, m.dst_ip));
            return false;
        }
        if m.ecn != t.ecn {
            if t.ecn_may_be_stripped && m.ecn.is_none() {
                self.out.cnt.inc("degrade.ecn_stripped_in_fallback_mode_v4");
                if t.ecn_strip_is_collateral {
                    soft(
                        &mut self.out,
                        format!(
                            "degrade: ecn no longer conveyed on the IPv4 path after an EIO-triggered segmentation-offload fallback: transmit carried {:?} but RecvMeta.ecn = None (sendmsg_einval mode drops the IP_TOS cmsg although the kernel accepts it)",
                            t.ecn
                        ),
                    );
                }
            } else if pieces > 1 && m.ecn.is_none() {
                soft(
                    &mut self.out,
                    format!(
                        "meta: ecn lost on GRO-coalesced batch: transmit carried {:?} but RecvMeta.ecn = None for a batch of {pieces} datagrams (stride {}); receiver {}",
                        t.ecn,
                        m.stride,
                        self.b.kind.name()
                    ),
                );
                // known defect of the receive path; keep checking the rest of the case
                self.out.cnt.inc("rx.ecn_lost_on_gro_batch");
                return true;
            } else {
                viol(&mut self.out, format!("meta: ecn mismatch on {}: transmit carried {:?} but RecvMeta.ecn = {:?}", if pieces > 1 { "GRO-coalesced batch" } else { "single datagram" }, t.ecn, m.ecn));
                return false;
            }
        } else if t.ecn.is_some() {
            self.out.cnt.inc("rx.ecn_conveyed");
        }
        if m.timestamp.is_some() {
            self.out.cnt.inc("rx.timestamp_present");
        }
        self.last_meta = Some(*m);
        true
    }

    fn find_match(&self, piece: &[u8], want: Option<(u64, u32)>) -> Option<usize> {
        self.pending.iter().position(|e| {
            !e.done && e.len == piece.len() && want.is_none_or(|w| (e.tid, e.seg) == w) && pay::mismatch(pay::seg_key(e.tid, e.seg), piece).is_none()
        })
    }

    fn diagnose(&self, piece: &[u8]) -> String {
        if self.consumed.iter().any(|&(tid, seg, len)| len == piece.len() && pay::mismatch(pay::seg_key(tid, seg), piece).is_none()) {
            return "duplicate of a datagram already delivered".into();
        }
        for e in self.pending.iter().filter(|e| !e.done) {
            let k = pay::seg_key(e.tid, e.seg);
            if e.len > piece.len() && pay::mismatch(k, piece).is_none() {
                return format!("truncated: first {} bytes of a {}-byte datagram (segment {})", piece.len(), e.len, e.seg);
            }
            if e.len < piece.len() && pay::mismatch(k, &piece[..e.len]).is_none() {
                return format!("merged: starts with the complete {}-byte datagram (segment {}) followed by {} more bytes", e.len, e.seg, piece.len() - e.len);
            }
        }
        if let Some(e) = self.pending.iter().find(|e| !e.done) {
            let off = pay::mismatch(pay::seg_key(e.tid, e.seg), &piece[..piece.len().min(e.len)]);
            return format!("bytes differ from the next expected datagram (len {}, segment {}) at offset {:?}", e.len, e.seg, off);
        }
        "no datagram outstanding".into()
    }

    fn check_message(&mut self, data: &[u8], m: &RecvMeta) -> bool {
        self.out.cnt.inc("rx.messages");
        if m.len == 0 || m.stride == 0 {
            viol(&mut self.out, format!("meta: len {} / stride {} is zero", m.len, m.stride));
            return false;
        }
        let pieces: Vec<&[u8]> = data.chunks(m.stride).collect();
        let np = pieces.len();
        let mut first: Option<(u64, u32, usize)> = None;
        for (k, piece) in pieces.iter().enumerate() {
            let want = first.map(|(tid, seg, _)| (tid, seg + k as u32));
            let Some(j) = self.find_match(piece, want) else {
                let d = self.diagnose(piece);
                let what = if k == 0 { "datagram" } else { "piece of a stride-split batch" };
                viol(&mut self.out, format!("rx: received {what} (piece {k} of {np}, {} bytes, len {} stride {}) is not one of the described datagrams: {d}", piece.len(), m.len, m.stride));
                return false;
            };
            if k == 0 {
                let e = &self.pending[j];
                first = Some((e.tid, e.seg, e.tx));
                if self.pending.iter().position(|e| !e.done) != Some(j) {
                    self.out.cnt.inc("rx.reordered");
                }
            }
            let e = &mut self.pending[j];
            e.done = true;
            self.consumed.push((e.tid, e.seg, e.len));
            self.out.cnt.inc("rx.datagrams_compared");
            self.out.cnt.add("rx.bytes_compared", piece.len() as u64);
        }
        let (_, _, txi) = first.unwrap();
        if np > 1 {
            self.out.cnt.inc("rx.gro_batches_split_by_stride");
            self.out.cnt.add("rx.gro_batch_datagrams", np as u64);
            if m.stride != self.txd[txi].seg {
                viol(&mut self.out, format!("meta: stride {} differs from the segment size {} of the transmit", m.stride, self.txd[txi].seg));
                return false;
            }
        } else if m.stride != m.len {
            // a single datagram: splitting by stride must still yield exactly this datagram
            if m.stride < m.len {
                unreachable!();
            }
            self.out.cnt.inc("rx.single_with_larger_stride");
        }
        self.check_meta(m, txi, np)
    }

    /// The first buffer was deliberately smaller than the message: the kernel truncates (documented
    /// UDP semantics, the caller's choice of buffer). Only prefix integrity and memory safety are judged.
    fn check_truncated(&mut self, data: &[u8], m: &RecvMeta, pred: (usize, usize, usize)) -> bool {
        self.out.cnt.inc("rx.truncation_probes");
        let (_, n, p0) = pred;
        let txi = self.pending[p0].tx;
        let (tid, seg0) = (self.pending[p0].tid, self.pending[p0].seg);
        if m.stride == 0 {
            viol(&mut self.out, "meta: stride 0 on a truncated message".into());
            return false;
        }
        let seg = self.txd[txi].seg;
        let exp_stride = if n > 1 { seg } else { m.len };
        if m.stride != exp_stride {
            viol(&mut self.out, format!("meta: stride {} on a truncated message of {n} datagrams (segment size {seg}, reported len {})", m.stride, m.len));
            return false;
        }
        for (k, piece) in data.chunks(m.stride).enumerate() {
            if k >= n || pay::mismatch(pay::seg_key(tid, seg0 + k as u32), piece).is_some() || piece.len() > self.pending[p0 + k].len {
                viol(&mut self.out, format!("rx: truncated message: piece {k} ({} bytes) is not a prefix of segment {} of the transmit", piece.len(), seg0 as usize + k));
                return false;
            }
            self.out.cnt.add("rx.bytes_compared", piece.len() as u64);
        }
        for e in &mut self.pending[p0..p0 + n] {
            e.done = true;
        }
        self.out.cnt.add("rx.datagrams_cut_by_undersized_buffer", n as u64);
        self.check_meta(m, txi, n)
    }

    /// Reply from the receiver using exactly what RecvMeta reported (destination = addr,
    /// src_ip = dst_ip): the original sender must see the roles swapped.
    fn echo(&mut self) {
        let Some(m) = self.last_meta else { return };
        let Some(dst_ip) = m.dst_ip else { return };
        let tid = self.tid_base.wrapping_add(0xEC40_0000 + self.next_tid);
        let len = 1 + (tid % 1400) as usize;
        let contents = pay::build(tid, len, 1, len);
        let ecn = ecn_of((tid >> 8) as u8 & 3);
        let t = Transmit { destination: m.addr, ecn, contents: &contents, segment_size: None, src_ip: Some(dst_ip) };
        if let Err(e) = self.b.state.try_send((&self.b.sock).into(), &t) {
            viol(&mut self.out, format!("echo: try_send(destination = RecvMeta.addr {}, src_ip = RecvMeta.dst_ip {dst_ip}) failed: {e}", m.addr));
            return;
        }
        let deadline = Instant::now() + Duration::from_millis(self.env.wait_ms);
        let mut buf = vec![0u8; 2048];
        let mut meta = [RecvMeta::default()];
        loop {
            let r = {
                let mut iov = [IoSliceMut::new(&mut buf)];
                self.a.state.recv((&self.a.sock).into(), &mut iov, &mut meta)
            };
            match r {
                Ok(_) => break,
                Err(e) if self.stale_error_pending && e.raw_os_error() == Some(libc::EMSGSIZE) => {
                    self.stale_error_pending = false;
                    self.out.cnt.inc("rx.pending_socket_error_surfaced_on_recv");
                }
                Err(e) if e.kind() == io::ErrorKind::WouldBlock => {
                    if Instant::now() > deadline {
                        self.out.missing = Some(format!("echo reply to {} from {dst_ip} not received", m.addr));
                        return;
                    }
                    net::wait_readable(&self.a.sock, 50);
                }
                Err(e) => {
                    viol(&mut self.out, format!("echo: recv failed: {e}"));
                    return;
                }
            }
        }
        let r = meta[0];
        let want_src = Self::sockaddr(as_seen_by(self.a.kind, dst_ip), self.b.local.port());
        let want_dst = as_seen_by(self.a.kind, m.addr.ip());
        let bytes_ok = r.len == len && r.stride == len && pay::mismatch(pay::seg_key(tid, 0), &buf[..r.len.min(buf.len())]).is_none();
        if !bytes_ok || r.addr != want_src || r.dst_ip != Some(want_dst) || r.ecn != ecn {
            viol(
                &mut self.out,
                format!(
                    "echo: reply sent with src_ip = RecvMeta.dst_ip arrived as addr {} dst_ip {:?} ecn {:?} len {} (expected addr {want_src} dst_ip {want_dst} ecn {ecn:?} len {len}, bytes identical: {bytes_ok})",
                    r.addr, r.dst_ip, r.ecn, r.len
                ),
            );
        } else {
            self.out.cnt.inc("echo.roundtrips_checked");
        }
    }
}

fn execute(plan: &Plan, env: &Env, seed: u64, attempt: u32, trace: bool) -> Outcome {
    let bind = |kind: Kind, specific: bool, x: u8| -> Option<IpAddr> {
        if !specific {
            return None;
        }
        Some(match kind {
            Kind::V4 => v4(x).into(),
            _ => Ipv6Addr::LOCALHOST.into(),
        })
    };
    let opened = (|| -> io::Result<(Sock, Sock)> {
        let a = net::open(plan.sk, bind(plan.sk, plan.s_specific, 1), 1 << 20)?;
        let b = net::open(plan.rk, bind(plan.rk, plan.r_specific, plan.dst4), 16 << 20)?;
        Ok((a, b))
    })();
    let (a, b) = match opened {
        Ok(x) => x,
        Err(e) => {
            return Outcome { inconclusive: Some(format!("socket setup failed: {e}")), ..Default::default() };
        }
    };
    let mut run = Run {
        env,
        plan,
        a,
        b,
        out: Outcome::default(),
        trace,
        tid_base: hash64(0x7D, &[&seed.to_le_bytes(), &attempt.to_le_bytes()]),
        next_tid: 0,
        txd: vec![],
        pending: vec![],
        consumed: vec![],
        sender_fell_back: false,
        gso_ok_sent: 0,
        last_meta: None,
        recv_dead: false,
        trigger_tx: None,
        trigger_is_stale_error: false,
        first_recv_of_burst: true,
        stale_error_pending: false,
    };
    // degradation pre-conditions: the shim must have had its effect, otherwise nothing is learnt
    match env.fault {
        Fault::SockoptSegment | Fault::SockoptBoth if run.a.state.max_gso_segments() != 1 => {
            run.out.inconclusive = Some("fault shim inactive: setsockopt(UDP_SEGMENT) did not fail".into());
            return run.out;
        }
        Fault::SockoptGro | Fault::SockoptBoth if run.b.state.gro_segments() != 1 => {
            run.out.inconclusive = Some("fault shim inactive: setsockopt(UDP_GRO) did not fail".into());
            return run.out;
        }
        _ => {}
    }
    if matches!(env.fault, Fault::SockoptSegment | Fault::SockoptBoth) {
        run.out.cnt.inc("degrade.started_without_gso");
    }
    if matches!(env.fault, Fault::SockoptGro | Fault::SockoptBoth) {
        run.out.cnt.inc("degrade.started_without_gro");
    }
    if !plan.gro_on {
        if let Err(e) = net::set_gro(&run.b.sock, false) {
            if run.b.state.gro_segments() > 1 {
                run.out.inconclusive = Some(format!("could not switch UDP_GRO off: {e}"));
                return run.out;
            }
        }
    }
    run.t(|| format!("plan: {}", plan.summary()));
    for burst in &plan.bursts {
        for t in &burst.txs {
            run.send_tx(t);
            if run.out.inconclusive.is_some() || !run.out.viol.is_empty() {
                return run.out;
            }
        }
        run.drain(burst.shape);
        if run.out.missing.is_some() || !run.out.viol.is_empty() || run.recv_dead {
            return run.out;
        }
        run.pending.clear();
    }
    if plan.echo && env.fault == Fault::None {
        run.echo();
    }
    run.out
}

/// Run one case; a datagram that stays missing is only a violation if it is missing three times.
pub fn run_case(plan: &Plan, env: &Env, seed: u64, trace: bool, want_sample: bool) -> CaseOut {
    let mut co = CaseOut::default();
    let mut missing: Vec<String> = vec![];
    let mut out = Outcome::default();
    for attempt in 0..3 {
        out = execute(plan, env, seed, attempt, trace);
        match &out.missing {
            Some(m) => missing.push(m.clone()),
            None => break,
        }
    }
    if missing.len() == 3 {
        out.viol.push(Violation { prop: PROP, msg: format!("rx: lost: {} (reproduced in 3 of 3 executions of the same case: {})", missing[0], plan.summary()) });
    } else if !missing.is_empty() {
        co.inconclusive = Some(format!("transient: {} (not reproduced on retry)", missing[0]));
        out.cnt.inc("rx.transient_missing");
    }
    if let Some(i) = out.inconclusive.take() {
        co.inconclusive = Some(i);
    }
    let mut fpv: Vec<u8> = vec![];
    for c in &out.combos {
        fpv.extend_from_slice(&c.to_le_bytes());
    }
    for s in &out.shapes {
        fpv.extend_from_slice(&s.to_le_bytes());
    }
    fpv.push(plan.gro_on as u8);
    fpv.push(plan.api_send as u8);
    co.fp = hash64(0xF9, &[&fpv]);
    co.nontrivial = out.cnt.get("rx.datagrams_compared") + out.cnt.get("rx.truncation_probes") + out.cnt.get("degrade.recv_surfaced_enosys") > 0;
    if !out.combos.is_empty() {
        COMBOS.lock().unwrap().extend(out.combos.iter().copied());
    }
    if want_sample {
        co.sample = Some(json!({
            "case_seed": seed,
            "plan": plan.summary(),
            "first_burst": plan.bursts.first().map(|b| format!("{:?}", b)).unwrap_or_default().chars().take(400).collect::<String>(),
            "datagrams_compared": out.cnt.get("rx.datagrams_compared"),
        }));
    }
    out.viol.append(&mut out.soft);
    co.viol = crate::lanes::filter_violations(out.viol);
    co.cnt = out.cnt;
    if trace {
        co.trace = Some(out.trace);
    }
    co
}

#[allow(dead_code)]
pub fn calib_json(c: &Calib) -> serde_json::Value {
    json!({
        "max_single_datagram_v4_path": c.max_single[0],
        "max_single_datagram_v6_path": c.max_single[1],
        "max_gso_total_v4_path": c.max_gso_total[0],
        "max_gso_total_v6_path": c.max_gso_total[1],
        "gso_available": c.gso,
        "default_source_for_127/8": c.default_src4.to_string(),
    })
}
