//! qvudp: runtime monitor for property C19 (the UDP layer, crate quinn-udp).
//!
//!   qvudp check C19 [--tier quick|thorough] [--seed N] [--threads N] [--lanes a,b,..] [--replay FILE]
//!   qvudp lane <name> --kind sweep|degrade:<mode> ... --out FILE     (worker, used by `check`)
//!   qvudp cmsg --mode quick|thorough|noop --shard I/N                (worker for `cargo miri run`)

mod cmsgsweep;
mod lanes;
mod net;
mod pay;
mod sweep;

use std::{
    collections::{BTreeMap, BTreeSet},
    process::{Command, Stdio},
    time::Instant,
};

use lanes::{collect, merge_into, run_lane, spawn_worker, LaneCfg, LaneResult, Spawned, ToolKind};
use qv::check::{self, Ctx, Finish, Report, Tier};
use serde_json::json;

fn usage() -> ! {
    eprintln!("usage: qvudp check C19 [--tier quick|thorough] [--seed N] [--threads N] [--lanes fast,degrade,asan,valgrind,miri] [--replay FILE]");
    std::process::exit(2)
}

fn parse_tier(s: &str) -> Tier {
    if s == "thorough" {
        Tier::Thorough
    } else {
        Tier::Quick
    }
}

fn main() {
    let args: Vec<String> = std::env::args().collect();
    if args.len() < 2 {
        usage();
    }
    check::install_panic_hook();
    let code = match args[1].as_str() {
        "check" => cmd_check(&args[2..]),
        "lane" => cmd_lane(&args[2..]),
        "cmsg" => cmd_cmsg(&args[2..]),
        // qvudp seed <run seed> <group> <idx>: the case seed the runner derives (for hand-written replay files)
        "seed" if args.len() == 5 => {
            let ctx = Ctx { prop: "C19", tier: Tier::Quick, seed: args[2].parse().unwrap_or(1), threads: 1, replay: None, verbose: false };
            println!("{}", check::case_seed(&ctx, &args[3], args[4].parse().unwrap_or(0)));
            0
        }
        _ => usage(),
    };
    std::process::exit(code);
}

// ------------------------------------------------------------------------------------------
// worker: one lane in this process, result to a file
// ------------------------------------------------------------------------------------------

fn cmd_lane(a: &[String]) -> i32 {
    if a.is_empty() {
        usage();
    }
    let mut cfg = LaneCfg { lane: a[0].clone(), kind: "sweep".into(), tier: Tier::Quick, seed: 1, threads: 4, scale: 1.0, bscale: 1.0, wait_ms: 3000, replay: None, shard: (0, 1) };
    let mut out = None;
    let mut i = 1;
    while i < a.len() {
        let v = |k: usize| a.get(i + k).cloned().unwrap_or_default();
        match a[i].as_str() {
            "--kind" => cfg.kind = v(1),
            "--tier" => cfg.tier = parse_tier(&v(1)),
            "--seed" => cfg.seed = v(1).parse().unwrap_or(1),
            "--threads" => cfg.threads = v(1).parse().unwrap_or(4),
            "--scale" => cfg.scale = v(1).parse().unwrap_or(1.0),
            "--bscale" => cfg.bscale = v(1).parse().unwrap_or(1.0),
            "--wait-ms" => cfg.wait_ms = v(1).parse().unwrap_or(3000),
            "--out" => out = Some(v(1)),
            "--shard" => {
                let s = v(1);
                if let Some((x, y)) = s.split_once('/') {
                    cfg.shard = (x.parse().unwrap_or(0), y.parse().unwrap_or(1));
                }
            }
            "--replay-case" => {
                cfg.replay = Some((v(1), v(2).parse().unwrap_or(0), v(3).parse().unwrap_or(0)));
                i += 2;
            }
            _ => usage(),
        }
        i += 2;
    }
    let res = run_lane(&cfg);
    if cfg.replay.is_some() {
        for v in &res.violations {
            println!("REPLAY-VIOLATION {}", v.3);
        }
    }
    let body = serde_json::to_string(&res.to_json()).unwrap();
    match out {
        Some(f) => {
            if std::fs::write(&f, body).is_err() {
                return 2;
            }
        }
        None => println!("LANE-RESULT {body}"),
    }
    0
}

// ------------------------------------------------------------------------------------------
// worker: cmsg sweep only (no sockets, no threads, no clock): this is what runs under Miri
// ------------------------------------------------------------------------------------------

fn cmd_cmsg(a: &[String]) -> i32 {
    let mut mode = "quick".to_string();
    let (mut shard, mut nshards) = (0u64, 1u64);
    let (mut lo, mut hi) = (0u64, u64::MAX);
    let mut space: Option<char> = None;
    let mut max_units = u64::MAX;
    let mut i = 0;
    while i < a.len() {
        match a[i].as_str() {
            "--mode" => mode = a.get(i + 1).cloned().unwrap_or_default(),
            "--space" => space = a.get(i + 1).and_then(|s| s.chars().next()),
            "--max-units" => max_units = a.get(i + 1).and_then(|s| s.parse().ok()).unwrap_or(u64::MAX),
            "--range" => {
                let s = a.get(i + 1).cloned().unwrap_or_default();
                if let Some((x, y)) = s.split_once('-') {
                    lo = x.parse().unwrap_or(0);
                    hi = y.parse().unwrap_or(u64::MAX);
                }
            }
            "--shard" => {
                let s = a.get(i + 1).cloned().unwrap_or_default();
                let mut it = s.split('/');
                shard = it.next().and_then(|x| x.parse().ok()).unwrap_or(0);
                nshards = it.next().and_then(|x| x.parse().ok()).unwrap_or(1).max(1);
            }
            _ => usage(),
        }
        i += 2;
    }
    let sizes = match mode.as_str() {
        "noop" => return 0,
        "thorough" => cmsgsweep::Sizes::miri_thorough(),
        "full" => cmsgsweep::Sizes::full(),
        _ => cmsgsweep::Sizes::miri_quick(),
    };
    let mut out = cmsgsweep::CmsgOut::default();
    let units = sizes.units();
    let mut ran = 0u64;
    let mut u = shard;
    while u < units {
        if u < lo || u >= hi || space.is_some_and(|c| sizes.space_of(u) != c) {
            u += nshards;
            continue;
        }
        if ran >= max_units {
            break;
        }
        sizes.run_unit(u, &mut out);
        ran += 1;
        u += nshards;
    }
    let mut res = LaneResult { lane: format!("miri-{shard}"), ok: true, evaluations: ran, nontrivial: ran, ..Default::default() };
    for k in 0..ran {
        res.fps.insert(qv::util::hash64(0xC6, &[&(shard + k * nshards).to_le_bytes()]));
    }
    res.counters.insert("miri.cmsg.checks".into(), out.checks);
    res.counters.insert("miri.cmsg.prepare_msg_cases".into(), out.encode_cases);
    res.counters.insert("miri.cmsg.roundtrips_ok".into(), out.roundtrip_ok);
    res.counters.insert("miri.cmsg.undersized_buffer_documented_panics".into(), out.roundtrip_documented_panics);
    res.counters.insert("miri.cmsg.decode_recv_cases".into(), out.decode_cases);
    for m in &out.viol {
        res.violations.push(("cmsg".into(), shard, 0, m.clone()));
    }
    res.groups.insert("cmsg".into(), (ran, ran, true));
    println!("LANE-RESULT {}", serde_json::to_string(&res.to_json()).unwrap());
    0
}

// ------------------------------------------------------------------------------------------
// orchestrator
// ------------------------------------------------------------------------------------------

fn build_shim(verif: &str) -> Result<String, String> {
    let src = format!("{verif}/shims/faultudp.c");
    let dir = format!("{verif}/udpharness/target/shim");
    let so = format!("{dir}/faultudp.so");
    let fresh = match (std::fs::metadata(&src).and_then(|m| m.modified()), std::fs::metadata(&so).and_then(|m| m.modified())) {
        (Ok(a), Ok(b)) => b >= a,
        _ => false,
    };
    if fresh {
        return Ok(so);
    }
    std::fs::create_dir_all(&dir).map_err(|e| e.to_string())?;
    let st = Command::new("cc").args(["-O2", "-fPIC", "-shared", "-o", &so, &src, "-ldl"]).stdin(Stdio::null()).output().map_err(|e| format!("cc: {e}"))?;
    if !st.status.success() {
        return Err(format!("cc failed: {}", String::from_utf8_lossy(&st.stderr)));
    }
    Ok(so)
}

fn cmd_check(a: &[String]) -> i32 {
    if a.is_empty() || a[0] != "C19" {
        eprintln!("unknown property {:?} (this binary implements C19)", a.first());
        return 2;
    }
    let mut tier = match std::env::var("VERIF_TIER").as_deref() {
        Ok("thorough") => Tier::Thorough,
        _ => Tier::Quick,
    };
    let mut seed: u64 = std::env::var("VERIF_SEED").ok().and_then(|s| s.parse().ok()).unwrap_or(1);
    let mut threads = std::thread::available_parallelism().map(|n| n.get()).unwrap_or(8);
    let mut lanes_sel: Option<Vec<String>> = None;
    let mut replay_file = None;
    let mut i = 1;
    while i < a.len() {
        let v = a.get(i + 1).cloned().unwrap_or_default();
        match a[i].as_str() {
            "--tier" => tier = parse_tier(&v),
            "--seed" => seed = v.parse().unwrap_or(1),
            "--threads" => threads = v.parse().unwrap_or(threads),
            "--lanes" => lanes_sel = Some(v.split(',').map(String::from).collect()),
            "--replay" => replay_file = Some(v),
            _ => usage(),
        }
        i += 2;
    }
    let verif = lanes::verif_dir();
    let exe = std::env::current_exe().map(|p| p.to_string_lossy().to_string()).unwrap_or_else(|_| "qvudp".into());
    if let Some(f) = replay_file {
        return replay(&f, &exe, &verif, threads);
    }
    let t0 = Instant::now();
    let want = |l: &str| match &lanes_sel {
        Some(v) => v.iter().any(|x| x == l),
        None => match l {
            "fast" | "degrade" | "miri" => true,
            "asan" | "valgrind" => tier == Tier::Thorough,
            _ => false,
        },
    };
    let ctx = Ctx { prop: "C19", tier, seed, threads, replay: None, verbose: false };
    let mut results: Vec<LaneResult> = vec![];
    let mut skipped: Vec<String> = vec![];
    let base = LaneCfg { lane: "fast".into(), kind: "sweep".into(), tier, seed, threads, scale: 1.0, bscale: 1.0, wait_ms: 3000, replay: None, shard: (0, 1) };

    // Miri runs beside everything else as a pool of short processes: shards are launched while the launch
    // budget lasts, so a loaded machine yields fewer completed shards (reported), never a timeout.
    let miri_handle = if want("miri") {
        let shards = tier.pick(8u64, 96);
        let sweep_flags = "-Zmiri-permissive-provenance -Zmiri-disable-stacked-borrows";
        let probe = |space: &str| -> Vec<String> { vec!["--mode".into(), "quick".into(), "--space".into(), space.into(), "--max-units".into(), "3".into()] };
        let mut jobs: Vec<MiriJob> = vec![
            // aliasing-model probes: Stacked Borrows and Tree Borrows on the encoder and the decoder
            MiriJob { name: "miri-sb-encode".into(), args: probe("E"), flags: "-Zmiri-permissive-provenance", probe: true, attempt: 0 },
            MiriJob { name: "miri-sb-decode".into(), args: probe("D"), flags: "-Zmiri-permissive-provenance", probe: true, attempt: 0 },
            MiriJob { name: "miri-tb-encode".into(), args: probe("E"), flags: "-Zmiri-permissive-provenance -Zmiri-tree-borrows", probe: true, attempt: 0 },
            MiriJob { name: "miri-tb-decode".into(), args: probe("D"), flags: "-Zmiri-permissive-provenance -Zmiri-tree-borrows", probe: true, attempt: 0 },
        ];
        // the sweep: every check Miri has except the aliasing model (which stops at Encoder::push, see the probes)
        for s in 0..shards {
            jobs.push(MiriJob { name: format!("miri-{s}"), args: vec!["--mode".into(), tier.name().into(), "--shard".into(), format!("{s}/{shards}")], flags: sweep_flags, probe: false, attempt: 0 });
        }
        let dir = format!("{verif}/udpharness");
        let (conc, launch_s, grace_s) = (tier.pick(4usize, 8), tier.pick(40u64, 780), tier.pick(75u64, 240));
        Some(std::thread::spawn(move || miri_pool(&dir, jobs, conc, launch_s, grace_s)))
    } else {
        None
    };

    if want("fast") {
        // a separate process, so that memory corruption in the code under test cannot take the verdict down with it
        let mut cfg = base.clone();
        if want("miri") {
            cfg.threads = threads.saturating_sub(tier.pick(2, 4)).max(2);
        }
        println!("[C19] lane fast: loopback sweep + cmsg sweep ({} threads)", cfg.threads);
        match spawn_worker(&exe, &[], "fast", "sweep", &cfg, &[], ToolKind::Plain, tier.pick(300, 1500), false) {
            Ok(s) => results.push(collect(s)),
            Err(e) => skipped.push(format!("fast: {e}")),
        }
    }

    if want("degrade") {
        match build_shim(&verif) {
            Err(e) => skipped.push(format!("degrade: cannot build the fault shim: {e}")),
            Ok(so) => {
                println!("[C19] lane degrade: {} fault modes under LD_PRELOAD={so}", sweep::DEGRADE_MODES.len());
                let mut sp = vec![];
                for m in sweep::DEGRADE_MODES {
                    let mut cfg = base.clone();
                    cfg.threads = 2;
                    cfg.bscale = 1.0;
                    let mut envs: Vec<(String, String)> = vec![("LD_PRELOAD".into(), so.clone())];
                    envs.extend(sweep::Fault::env(m).into_iter().map(|(k, v)| (k.to_string(), v.to_string())));
                    match spawn_worker(&exe, &[], &format!("degrade:{m}"), &format!("degrade:{m}"), &cfg, &envs, ToolKind::Plain, tier.pick(120, 400), false) {
                        Ok(s) => sp.push(s),
                        Err(e) => skipped.push(format!("degrade:{m}: {e}")),
                    }
                }
                for s in sp {
                    results.push(collect(s));
                }
            }
        }
    }

    if want("asan") {
        let asan = format!("{verif}/udpharness/target/asan/x86_64-unknown-linux-gnu/asan/qvudp");
        if std::path::Path::new(&asan).exists() {
            let shards = 4;
            println!("[C19] lane asan: {shards} processes of {asan}");
            let mut sp = vec![];
            for s in 0..shards {
                let mut cfg = base.clone();
                cfg.seed = seed.wrapping_mul(1000).wrapping_add(s);
                cfg.threads = (threads / shards as usize).max(2);
                cfg.scale = tier.pick(0.05, 0.06);
                cfg.bscale = tier.pick(0.5, 0.6);
                cfg.shard = (s, shards);
                let envs = vec![("ASAN_OPTIONS".to_string(), "detect_leaks=0:abort_on_error=0:halt_on_error=1:detect_stack_use_after_return=1:strict_string_checks=1".to_string())];
                match spawn_worker(&asan, &[], &format!("asan-{s}"), "sweep", &cfg, &envs, ToolKind::Asan, tier.pick(300, 900), false) {
                    Ok(x) => sp.push(x),
                    Err(e) => skipped.push(format!("asan-{s}: {e}")),
                }
            }
            for s in sp {
                results.push(collect(s));
            }
        } else {
            skipped.push(format!("asan: binary {asan} not built (run /verif/run_c19)"));
        }
    }

    if want("valgrind") {
        let shards = tier.pick(4u64, 12);
        println!("[C19] lane valgrind: {shards} memcheck processes");
        let mut sp = vec![];
        for s in 0..shards {
            let mut cfg = base.clone();
            cfg.seed = seed.wrapping_mul(7919).wrapping_add(s);
            cfg.threads = 1;
            cfg.scale = tier.pick(0.004, 0.0015);
            cfg.bscale = tier.pick(1.5, 0.6);
            cfg.shard = (s, shards);
            cfg.wait_ms = 15_000;
            let log = format!("{}/valgrind-{s}.log", lanes::lanes_dir());
            let _ = std::fs::remove_file(&log);
            let wrapper: Vec<String> = vec!["valgrind".into(), "--error-exitcode=99".into(), "--quiet".into(), "--show-error-list=yes".into(), format!("--log-file={log}")];
            match spawn_worker(&exe, &wrapper, &format!("valgrind-{s}"), "sweep", &cfg, &[], ToolKind::Valgrind, tier.pick(400, 1200), false) {
                Ok(mut x) => {
                    x.log_file = Some(log);
                    sp.push(x)
                }
                Err(e) => skipped.push(format!("valgrind-{s}: {e}")),
            }
        }
        for s in sp {
            let mut r = collect(s);
            // without --quiet-less summary lines valgrind prints nothing on success; the exit code decides
            if r.tool_failure.is_none() && !r.extra.contains_key("valgrind_errors") {
                r.extra.insert("valgrind_errors".into(), json!(0));
            }
            results.push(r);
        }
    }

    if let Some(h) = miri_handle {
        let pool = h.join().unwrap_or_default();
        let sweep: Vec<LaneResult> = pool.results.iter().filter(|r| !r.lane.contains("-sb-") && !r.lane.contains("-tb-")).cloned().collect();
        let probes: Vec<LaneResult> = pool.results.iter().filter(|r| r.lane.contains("-sb-") || r.lane.contains("-tb-")).cloned().collect();
        let completed = sweep.iter().filter(|r| r.ok).count() as u64;
        let floor = tier.pick(2u64, 12);
        let mut agg = lanes::aggregate("miri", &sweep);
        agg.extra.insert("shards_planned".into(), json!(pool.planned));
        agg.extra.insert("shards_completed".into(), json!(completed));
        agg.extra.insert("shards_not_started_when_budget_ended".into(), json!(pool.not_started));
        agg.extra.insert("shards_stopped_at_budget".into(), json!(pool.stopped));
        if completed < floor {
            agg.tool_failure = Some(format!("only {completed} of {} Miri shards completed within the budget (floor {floor})", pool.planned));
            agg.ok = false;
        }
        results.push(agg);
        for p in probes {
            results.push(p);
        }
        skipped.extend(pool.errors);
    }

    // ---- merge
    let mut rep = Report::default();
    let mut combos = BTreeSet::new();
    let mut sigs = BTreeMap::new();
    let mut lane_summaries = BTreeMap::new();
    let mut tool_failures = vec![];
    let mut per_tool: BTreeMap<&str, (u64, u64)> = BTreeMap::new();
    for r in &results {
        merge_into(&mut rep, r, &mut combos, &mut sigs);
        lane_summaries.insert(r.lane.clone(), r.summary());
        let tool = if r.lane.starts_with("asan") {
            "asan"
        } else if r.lane.starts_with("valgrind") {
            "valgrind"
        } else if r.lane.starts_with("miri") {
            "miri"
        } else if r.lane.starts_with("degrade") {
            "degrade"
        } else {
            "fast"
        };
        let e = per_tool.entry(tool).or_insert((0, 0));
        if r.ok {
            e.0 += 1;
        } else {
            e.1 += 1;
        }
        if let Some(f) = &r.tool_failure {
            tool_failures.push(format!("{}: {f}", r.lane));
        }
    }
    for (tool, (ok, _bad)) in &per_tool {
        if *ok > 0 {
            rep.cnt.add(
                match *tool {
                    "asan" => "lane.asan.processes_completed",
                    "valgrind" => "lane.valgrind.processes_completed",
                    "miri" => "lane.miri.processes_completed",
                    "degrade" => "lane.degrade.processes_completed",
                    _ => "lane.fast.completed",
                },
                *ok,
            );
        }
    }
    for f in tool_failures.iter().chain(skipped.iter()) {
        println!("INCONCLUSIVE-LANE: {f}");
    }
    let sum = |k: &str| -> u64 { results.iter().map(|r| r.extra.get(k).and_then(|v| v.as_u64()).unwrap_or(0)).sum() };
    rep.extra.insert("lanes".into(), json!(lane_summaries));
    rep.extra.insert("lane_tool_failures".into(), json!(tool_failures));
    rep.extra.insert("lanes_skipped".into(), json!(skipped));
    rep.extra.insert("distinct_option_combos (family, ecn, gso-count bucket, size bucket, src_ip form)".into(), json!(combos.len()));
    rep.extra.insert("violation_signature_counts".into(), json!(sigs));
    rep.extra.insert("asan_reports".into(), json!(sum("asan_reports")));
    rep.extra.insert("valgrind_errors".into(), json!(sum("valgrind_errors")));
    rep.extra.insert("miri_ub_reports".into(), json!(sum("miri_ub_reports")));
    rep.extra.insert(
        "observed".into(),
        json!({
            "transmits_sent": rep.cnt.get("tx.transmits"),
            "gso_transmits": rep.cnt.get("tx.gso_transmits"),
            "datagrams_expected": rep.cnt.get("tx.datagrams_expected"),
            "datagrams_received_and_compared": rep.cnt.get("rx.datagrams_compared"),
            "bytes_compared": rep.cnt.get("rx.bytes_compared"),
            "gro_batches_split_by_stride": rep.cnt.get("rx.gro_batches_split_by_stride"),
            "recvmeta_checked": rep.cnt.get("rx.meta_checked"),
            "echo_roundtrips": rep.cnt.get("echo.roundtrips_checked"),
            "cmsg_checks_native": rep.cnt.get("cmsg.checks"),
            "cmsg_checks_miri": rep.cnt.get("miri.cmsg.checks"),
            "accounting": {
                "datagrams_expected": rep.cnt.get("tx.datagrams_expected"),
                "compared_byte_for_byte": rep.cnt.get("rx.datagrams_compared"),
                "cut_by_deliberately_undersized_buffer (prefix compared)": rep.cnt.get("rx.datagrams_cut_by_undersized_buffer"),
                "lost_in_fallback_triggering_transmit (known finding)": rep.cnt.get("degrade.trigger_datagrams_lost"),
                "unreadable: recv surfaces ENOSYS when recvmmsg is missing (observation)": rep.cnt.get("degrade.datagrams_unreadable_without_recvmmsg"),
                "lost_to_stale_socket_error (known finding)": rep.cnt.get("tx.datagrams_lost_to_stale_socket_error"),
                "unaccounted": rep.cnt.get("tx.datagrams_expected") as i64
                    - rep.cnt.get("tx.datagrams_lost_to_stale_socket_error") as i64
                    - rep.cnt.get("degrade.datagrams_unreadable_without_recvmmsg") as i64
                    - rep.cnt.get("rx.datagrams_compared") as i64
                    - rep.cnt.get("rx.datagrams_cut_by_undersized_buffer") as i64
                    - rep.cnt.get("degrade.trigger_datagrams_lost") as i64,
            },
        }),
    );
    // a lane that was requested but could not run makes the run inconclusive (never a violation)
    let mut required: Vec<&'static str> = vec![];
    if want("fast") {
        required.extend(["lane.fast.completed", "rx.datagrams_compared", "rx.gro_batches_split_by_stride", "rx.meta_checked", "rx.ecn_conveyed", "echo.roundtrips_checked", "rx.truncation_probes", "rx.multi_message_batches", "tx.gso_short_last_segment", "tx.gso_at_max_segments", "cmsg.checks", "cmsg.undersized_buffer_documented_panics", "tx.oversize_emsgsize"]);
    }
    if want("degrade") {
        required.extend(["lane.degrade.processes_completed", "degrade.offload_halted", "degrade.started_without_gso", "degrade.started_without_gro", "degrade.trigger_ok_from_try_send", "degrade.recv_surfaced_enosys"]);
    }
    if want("asan") {
        required.push("lane.asan.processes_completed");
    }
    if want("valgrind") {
        required.push("lane.valgrind.processes_completed");
    }
    if want("miri") {
        required.extend(["lane.miri.processes_completed", "miri.cmsg.checks"]);
    }
    if !tool_failures.is_empty() || !skipped.is_empty() {
        // surfaces as INCONCLUSIVE (exit 2) through the harness-error path of `finish`
        for f in tool_failures.iter().chain(skipped.iter()) {
            rep.harness_errors.push(format!("lane could not decide: {f}"));
        }
    }
    let fin = Finish {
        level: "exploration",
        rule: "real quinn-udp code against the real kernel over loopback. One case = one fresh socket pair (8 family combinations: v4, v6-only and dual-stack senders/receivers incl. v4-mapped destinations; wildcard or specific binds) and 1-5 bursts of transmits through UdpSocketState::send / try_send: payload 1..max accepted by the path, segment_size absent / >= len / GSO with 2..max_gso_segments() segments incl. short last segment, ECN none/ECT0/ECT1/CE, src_ip none / v4 / v4-mapped / v6, receiver with UDP_GRO on or switched off; drained through UdpSocketState::recv with 1..40 iovecs of exact, +slack, 64 KiB, 1 MiB or deliberately undersized buffers between guard zones. Groups: seeded random; every payload length (thorough: all of 1..max+2 on both paths; quick: strided); grid of segment size 1..1500 x segment count x last-segment length; control-message encoder/decoder through the quinn_udp::verif hook for every option combination and buffer size. Lanes: fast (in-process), degrade (LD_PRELOAD fault shim, 8 fault modes), asan, valgrind (reduced sweeps), miri (cmsg sweep). A case is non-trivial if at least one received datagram was compared byte-for-byte; distinct = distinct fingerprint of (option combinations exercised, receive batch shapes, GRO on/off, API).".into(),
        assumptions: vec![
            "payload bytes are a pure function of (transmit id, segment index, offset): every received datagram identifies the segment it came from".into(),
            "loopback with a 16 MiB receive buffer drained after every burst does not drop; a datagram missing after 3 s is retried twice and only a 3-of-3 reproduction counts as loss".into(),
            "ordering between different transmits is not part of the property (UDP); reorderings are counted, pieces of one stride-split batch must be consecutive segments of one transmit".into(),
            "a receive buffer smaller than the queued message is the caller's choice: only prefix integrity and memory safety are judged there (counted as truncation probes)".into(),
            "non-Linux back ends are out of reach; the async endpoint's stride splitting is covered by the C18/C19 in-memory socket component, not here".into(),
        ],
        min_evals: tier.pick(300, 20_000),
        min_nontrivial: tier.pick(100, 2_000),
        required,
        exhaustive: false,
    };
    check::finish(&ctx, &rep, fin, t0.elapsed().as_secs_f64())
}

fn replay(file: &str, exe: &str, verif: &str, threads: usize) -> i32 {
    let Ok(s) = std::fs::read_to_string(file) else {
        eprintln!("cannot read {file}");
        return 2;
    };
    let Ok(v) = serde_json::from_str::<serde_json::Value>(&s) else {
        eprintln!("cannot parse {file}");
        return 2;
    };
    let group = v["group"].as_str().unwrap_or("").to_string();
    let (lane, g) = group.split_once('.').map(|(a, b)| (a.to_string(), b.to_string())).unwrap_or(("fast".into(), group.clone()));
    let tier = parse_tier(v["tier"].as_str().unwrap_or("quick"));
    let cfg = LaneCfg {
        lane: lane.clone(),
        kind: if lane.starts_with("degrade:") { lane.clone() } else { "sweep".into() },
        tier,
        seed: v["run_seed"].as_u64().unwrap_or(1),
        threads,
        scale: 1.0,
        bscale: 1.0,
        wait_ms: 3000,
        shard: (0, 1),
        replay: Some((g, v["case_index"].as_u64().unwrap_or(0), v["case_seed"].as_u64().unwrap_or(0))),
    };
    println!("replaying {group} case {} (recorded message: {})", cfg.replay.as_ref().unwrap().1, v["message"].as_str().unwrap_or(""));
    if let Some(m) = lane.strip_prefix("degrade:") {
        let so = match build_shim(verif) {
            Ok(s) => s,
            Err(e) => {
                eprintln!("cannot build shim: {e}");
                return 2;
            }
        };
        let mut envs: Vec<(String, String)> = vec![("LD_PRELOAD".into(), so)];
        envs.extend(sweep::Fault::env(m).into_iter().map(|(k, v)| (k.to_string(), v.to_string())));
        return match spawn_worker(exe, &[], &lane, &lane, &cfg, &envs, ToolKind::Plain, 120, true) {
            Ok(mut s) => {
                let _ = s.child.wait();
                0
            }
            Err(e) => {
                eprintln!("{e}");
                2
            }
        };
    }
    if lane != "fast" {
        println!("note: lane {lane} is replayed in-process without its tool");
    }
    let r = run_lane(&cfg);
    for v in &r.violations {
        println!("REPLAY-VIOLATION {}", v.3);
    }
    if r.violations.is_empty() {
        println!("replay: no violation reproduced");
        0
    } else {
        1
    }
}

// ------------------------------------------------------------------------------------------
// Miri pool
// ------------------------------------------------------------------------------------------

struct MiriJob {
    name: String,
    args: Vec<String>,
    flags: &'static str,
    probe: bool,
    attempt: u32,
}

#[derive(Default)]
struct MiriPool {
    results: Vec<LaneResult>,
    errors: Vec<String>,
    planned: u64,
    not_started: u64,
    stopped: u64,
}

fn miri_pool(dir: &str, jobs: Vec<MiriJob>, conc: usize, launch_s: u64, grace_s: u64) -> MiriPool {
    let t0 = Instant::now();
    let mut pool = MiriPool { planned: jobs.iter().filter(|j| !j.probe).count() as u64, ..Default::default() };
    let mut queue: std::collections::VecDeque<MiriJob> = jobs.into();
    let mut running: Vec<Spawned> = vec![];
    let mut meta: std::collections::BTreeMap<String, MiriJob> = Default::default();
    loop {
        // launch
        while running.len() < conc && !queue.is_empty() && (t0.elapsed().as_secs() < launch_s || queue.front().is_some_and(|j| j.probe)) {
            let j = queue.pop_front().unwrap();
            let mut cmd = Command::new("cargo");
            cmd.current_dir(dir)
                .args(["+nightly", "miri", "run", "--offline", "--quiet", "--bin", "qvudp", "--", "cmsg"])
                .args(&j.args)
                .env("MIRIFLAGS", j.flags)
                .env_remove("RUSTFLAGS")
                .stdin(Stdio::null())
                .stdout(Stdio::piped())
                .stderr(Stdio::piped());
            match cmd.spawn() {
                Ok(mut child) => {
                    let readers = lanes::start_readers(&mut child);
                    meta.insert(j.name.clone(), MiriJob { name: j.name.clone(), args: j.args.clone(), flags: j.flags, probe: j.probe, attempt: j.attempt });
                    running.push(Spawned { lane: j.name, child, readers, out_file: None, log_file: None, started: Instant::now(), timeout: std::time::Duration::from_secs(3600), kind: ToolKind::Miri, finished_after: None });
                }
                Err(e) => pool.errors.push(format!("{}: cannot start cargo miri: {e}", j.name)),
            }
        }
        // reap
        let mut i = 0;
        while i < running.len() {
            match running[i].child.try_wait() {
                Ok(Some(_)) => {
                    let mut sp = running.swap_remove(i);
                    sp.finished_after = Some(sp.started.elapsed());
                    let r = collect(sp);
                    // a shard that produced neither a result nor a Miri report (e.g. the shared runner library was
                    // being rebuilt underneath it) is tried once more
                    match meta.remove(&r.lane) {
                        Some(mut j) if r.tool_failure.is_some() && r.violations.is_empty() && j.attempt == 0 => {
                            j.attempt = 1;
                            queue.push_front(j);
                        }
                        _ => pool.results.push(r),
                    }
                }
                _ => i += 1,
            }
        }
        let launching = !queue.is_empty() && t0.elapsed().as_secs() < launch_s;
        if running.is_empty() && !launching {
            break;
        }
        if !launching && t0.elapsed().as_secs() > launch_s + grace_s {
            // budget over: stop what is still running; this is not a failure of the lane
            for mut sp in running.drain(..) {
                let _ = sp.child.kill();
                let _ = sp.child.wait();
                pool.stopped += 1;
            }
            break;
        }
        std::thread::sleep(std::time::Duration::from_millis(100));
    }
    pool.not_started = queue.iter().filter(|j| !j.probe).count() as u64;
    pool
}
