//! Control-message encoder / decoder sweep through the `quinn_udp::verif` hook (no system calls,
//! so the same code runs natively, under ASan, valgrind and Miri).
//!
//! Three index spaces:
//!   E  `encode_transmit`  = the real `prepare_msg` for every combination of transmit options
//!   R  `cmsg_roundtrip`   = `cmsg::Encoder` + `cmsg::Iter` + `cmsg::decode` for every message
//!                           sequence and every control-buffer size (exact-size heap buffer)
//!   D  `decode_control`   = the real `decode_recv` over kernel-style control buffers
//!
//! The expected results come from an independent model of the cmsg layout (16-byte header,
//! payload, padding to 8).

use std::{
    net::{IpAddr, Ipv4Addr, Ipv6Addr, SocketAddr, SocketAddrV4, SocketAddrV6},
    panic::{catch_unwind, AssertUnwindSafe},
    time::Duration,
};

use qv::util::hash64;
use udp::{
    verif::{self, Val},
    EcnCodepoint, Transmit,
};

const HDR: usize = 16;
fn align8(n: usize) -> usize {
    (n + 7) & !7
}
fn space(n: usize) -> usize {
    align8(HDR + n)
}

#[derive(Default, Debug, Clone)]
pub struct CmsgOut {
    pub checks: u64,
    pub encode_cases: u64,
    pub roundtrip_ok: u64,
    pub roundtrip_documented_panics: u64,
    pub decode_cases: u64,
    pub viol: Vec<String>,
}

// ---------------------------------------------------------------- E: prepare_msg

pub const E_TOTAL: u64 = 3 * 4 * 4 * 4 * 2 * 2 * 4;

fn val_bytes(v: Val) -> Vec<u8> {
    match v {
        Val::U8(x) => vec![x],
        Val::U16(x) => x.to_ne_bytes().to_vec(),
        Val::I32(x) => x.to_ne_bytes().to_vec(),
        Val::PktInfo4(i, s, a) => [&i.to_ne_bytes()[..], &s[..], &a[..]].concat(),
        Val::PktInfo6(a, i) => [&a[..], &i.to_ne_bytes()[..]].concat(),
        Val::Timespec(s, n) => [&s.to_ne_bytes()[..], &n.to_ne_bytes()[..]].concat(),
    }
}

pub fn encode_case(idx: u64, out: &mut CmsgOut) {
    let mut i = idx;
    let mut take = |n: u64| {
        let r = i % n;
        i /= n;
        r
    };
    let dest_k = take(3);
    let ecn_k = take(4) as u8;
    let seg_k = take(4);
    let src_k = take(4);
    let einval = take(2) == 1;
    let encode_src_ip = take(2) == 1;
    let len = [1usize, 2, 1200, 65_507][take(4) as usize];
    let h = hash64(0xE0, &[&idx.to_le_bytes()]);
    let port = 1024 + (h % 60_000) as u16;
    let v4a = Ipv4Addr::new(127, (h >> 8) as u8, (h >> 16) as u8, 1 + (h >> 24) as u8 % 250);
    let v6a = Ipv6Addr::from((h as u128) << 64 | (h.rotate_left(13) as u128) | 1 << 120);
    let destination: SocketAddr = match dest_k {
        0 => SocketAddrV4::new(v4a, port).into(),
        1 => SocketAddrV6::new(v6a, port, 0, 0).into(),
        _ => SocketAddrV6::new(v4a.to_ipv6_mapped(), port, 0, 0).into(),
    };
    static BYTES: [u8; 65_507] = [0x11; 65_507];
    let contents = &BYTES[..len];
    let segment_size = match seg_k {
        0 => None,
        1 => Some((len / 3).max(1)),
        2 => Some(len),
        _ => Some(len + 1 + (h % 500) as usize),
    };
    let src_v4 = Ipv4Addr::new(127, 1, (h >> 32) as u8, (h >> 40) as u8);
    let src_v6 = Ipv6Addr::from(((h.rotate_left(29) as u128) << 64) | h as u128);
    let src_ip: Option<IpAddr> = match src_k {
        0 => None,
        1 => Some(src_v4.into()),
        2 => Some(src_v6.into()),
        _ => Some(src_v4.to_ipv6_mapped().into()),
    };
    let ecn = EcnCodepoint::from_bits(ecn_k);
    let t = Transmit { destination, ecn, contents, segment_size, src_ip };
    let r = catch_unwind(AssertUnwindSafe(|| verif::encode_transmit(&t, encode_src_ip, einval)));
    out.checks += 1;
    out.encode_cases += 1;
    let p = match r {
        Ok(p) => p,
        Err(_) => {
            let (loc, msg) = qv::check::take_panic().unwrap_or_default();
            out.viol.push(format!("cmsg: prepare_msg panicked for a valid transmit (dest kind {dest_k}, ecn {ecn:?}, segment_size {segment_size:?}, src_ip {src_ip:?}, fallback {einval}) at {loc}: {msg}"));
            return;
        }
    };
    // independent model
    let mut exp: Vec<(i32, i32, Vec<u8>)> = vec![];
    let is_v4 = dest_k != 1;
    if is_v4 {
        if !einval {
            exp.push((libc::IPPROTO_IP, libc::IP_TOS, (ecn_k as i32).to_ne_bytes().to_vec()));
        }
    } else {
        exp.push((libc::IPPROTO_IPV6, libc::IPV6_TCLASS, (ecn_k as i32).to_ne_bytes().to_vec()));
    }
    if let Some(s) = segment_size {
        if s < len {
            exp.push((libc::SOL_UDP, libc::UDP_SEGMENT, (s as u16).to_ne_bytes().to_vec()));
        }
    }
    match src_ip {
        Some(IpAddr::V4(a)) => exp.push((libc::IPPROTO_IP, libc::IP_PKTINFO, val_bytes(Val::PktInfo4(0, a.octets(), [0; 4])))),
        Some(IpAddr::V6(a)) => exp.push((libc::IPPROTO_IPV6, libc::IPV6_PKTINFO, val_bytes(Val::PktInfo6(a.octets(), 0)))),
        None => {}
    }
    let exp_len: usize = exp.iter().map(|e| space(e.2.len())).sum();
    let mut bad = vec![];
    if p.controllen != exp_len {
        bad.push(format!("msg_controllen {} != {}", p.controllen, exp_len));
    }
    if p.controllen > verif::CONTROL_LEN {
        bad.push(format!("msg_controllen {} exceeds the {}-byte control buffer", p.controllen, verif::CONTROL_LEN));
    }
    if p.control_is_null != exp.is_empty() {
        bad.push(format!("msg_control null = {} with {} control messages", p.control_is_null, exp.len()));
    }
    if p.iov_len != len {
        bad.push(format!("iov_len {} != contents.len() {}", p.iov_len, len));
    }
    if p.name != destination {
        bad.push(format!("msg_name {} != destination {}", p.name, destination));
    }
    if p.cmsgs.len() != exp.len() {
        bad.push(format!("{} control messages, expected {}", p.cmsgs.len(), exp.len()));
    } else {
        let mut off = 0;
        for (c, e) in p.cmsgs.iter().zip(exp.iter()) {
            if (c.level, c.ty) != (e.0, e.1) || c.data != e.2 || c.cmsg_len != HDR + e.2.len() || c.offset != off {
                bad.push(format!("cmsg (level {}, type {}, len {}, offset {}, data {:?}) != expected (level {}, type {}, len {}, offset {off}, data {:?})", c.level, c.ty, c.cmsg_len, c.offset, c.data, e.0, e.1, HDR + e.2.len(), e.2));
            }
            off += space(e.2.len());
        }
    }
    if !bad.is_empty() {
        out.viol.push(format!("cmsg: prepare_msg(dest kind {dest_k}, ecn {ecn:?}, segment_size {segment_size:?} of {len}, src_ip {src_ip:?}, fallback {einval}): {}", bad.join("; ")));
    }
}

// ---------------------------------------------------------------- R: Encoder / Iter / decode

const R_KINDS: u64 = 7;

fn r_kind(k: u64, h: u64) -> (i32, i32, Val) {
    match k {
        0 => (libc::IPPROTO_IP, libc::IP_TOS, Val::I32((h & 3) as i32)),
        1 => (libc::IPPROTO_IPV6, libc::IPV6_TCLASS, Val::I32((h >> 2 & 3) as i32)),
        2 => (libc::SOL_UDP, libc::UDP_SEGMENT, Val::U16((h >> 4) as u16)),
        3 => (libc::IPPROTO_IP, libc::IP_PKTINFO, Val::PktInfo4((h >> 8) as i32 & 0xff, (h as u32).to_be_bytes(), ((h >> 32) as u32).to_le_bytes())),
        4 => (libc::IPPROTO_IPV6, libc::IPV6_PKTINFO, Val::PktInfo6(((h as u128) << 64 | h.rotate_left(7) as u128).to_be_bytes(), (h >> 40) as u32 & 0xffff)),
        5 => (libc::SOL_SOCKET, libc::SCM_TIMESTAMPNS, Val::Timespec((h >> 3) as i64 & 0xffff_ffff, (h % 1_000_000_000) as i64)),
        _ => (libc::IPPROTO_IP, libc::IP_TOS, Val::U8(h as u8)),
    }
}

/// number of message sequences of length 0..=max_len
pub fn r_sequences(max_len: u32) -> u64 {
    (0..=max_len).map(|l| R_KINDS.pow(l)).sum()
}

fn r_sequence(mut s: u64, max_len: u32) -> Vec<u64> {
    for l in 0..=max_len {
        let n = R_KINDS.pow(l);
        if s < n {
            let mut v = vec![];
            for _ in 0..l {
                v.push(s % R_KINDS);
                s /= R_KINDS;
            }
            return v;
        }
        s -= n;
    }
    vec![]
}

pub fn roundtrip_case(seq_idx: u64, max_len: u32, buf_len: usize, out: &mut CmsgOut) {
    let kinds = r_sequence(seq_idx, max_len);
    let msgs: Vec<(i32, i32, Val)> = kinds.iter().enumerate().map(|(i, &k)| r_kind(k, hash64(0x12, &[&seq_idx.to_le_bytes(), &(i as u64).to_le_bytes()]))).collect();
    let needed: usize = msgs.iter().map(|m| space(val_bytes(m.2).len())).sum();
    let r = catch_unwind(AssertUnwindSafe(|| verif::cmsg_roundtrip(buf_len, &msgs)));
    out.checks += 1;
    match r {
        Err(_) => {
            let (loc, msg) = qv::check::take_panic().unwrap_or_default();
            let documented = loc.contains("cmsg") && (msg.contains("control message buffer too small") || msg.contains("no control buffer space remaining"));
            if needed <= buf_len {
                out.viol.push(format!("cmsg: Encoder panicked although the buffer is large enough ({} messages needing {needed} bytes, buffer {buf_len}) at {loc}: {msg}", msgs.len()));
            } else if !documented {
                out.viol.push(format!("cmsg: undersized buffer ({needed} needed, {buf_len} given) ended in an undocumented panic at {loc}: {msg}"));
            } else {
                out.roundtrip_documented_panics += 1;
            }
        }
        Ok((controllen, raw, decoded)) => {
            if needed > buf_len {
                out.viol.push(format!("cmsg: Encoder accepted {} messages needing {needed} bytes into a {buf_len}-byte control buffer (msg_controllen {controllen})", msgs.len()));
                return;
            }
            let mut bad = vec![];
            if controllen != needed {
                bad.push(format!("msg_controllen {controllen} != {needed}"));
            }
            if raw.len() != msgs.len() || decoded.len() != msgs.len() {
                bad.push(format!("iterator yielded {} messages, {} were pushed", raw.len(), msgs.len()));
            } else {
                let mut off = 0;
                for (i, m) in msgs.iter().enumerate() {
                    let b = val_bytes(m.2);
                    let c = &raw[i];
                    if (c.level, c.ty) != (m.0, m.1) || c.cmsg_len != HDR + b.len() || c.offset != off || c.data != b {
                        bad.push(format!("message {i}: raw (level {}, type {}, len {}, offset {}) != pushed (level {}, type {}, len {}, offset {off}) or payload differs", c.level, c.ty, c.cmsg_len, c.offset, m.0, m.1, HDR + b.len()));
                    }
                    if decoded[i] != *m {
                        bad.push(format!("message {i}: decoded {:?} != pushed {:?}", decoded[i], m));
                    }
                    off += space(b.len());
                }
            }
            if bad.is_empty() {
                out.roundtrip_ok += 1;
            } else {
                out.viol.push(format!("cmsg: roundtrip of {} messages through a {buf_len}-byte buffer: {}", msgs.len(), bad.join("; ")));
            }
        }
    }
}

// ---------------------------------------------------------------- D: decode_recv

const D_KINDS: u64 = 8;

pub fn d_sequences(max_len: u32) -> u64 {
    (0..=max_len).map(|l| D_KINDS.pow(l)).sum()
}

fn d_sequence(mut s: u64, max_len: u32) -> Vec<u64> {
    for l in 0..=max_len {
        let n = D_KINDS.pow(l);
        if s < n {
            let mut v = vec![];
            for _ in 0..l {
                v.push(s % D_KINDS);
                s /= D_KINDS;
            }
            return v;
        }
        s -= n;
    }
    vec![]
}

fn put(buf: &mut Vec<u8>, level: i32, ty: i32, data: &[u8], pad: bool) {
    buf.extend_from_slice(&(HDR + data.len()).to_ne_bytes());
    buf.extend_from_slice(&level.to_ne_bytes());
    buf.extend_from_slice(&ty.to_ne_bytes());
    buf.extend_from_slice(data);
    if pad {
        while buf.len() % 8 != 0 {
            buf.push(0);
        }
    }
}

/// variant 0: every message padded; variant 1: the last message ends the buffer unpadded (the
/// kernel clips msg_controllen to the space that was left)
pub fn decode_case(seq_idx: u64, max_len: u32, variant: u64, out: &mut CmsgOut) {
    let kinds = d_sequence(seq_idx, max_len);
    let mut ctrl = vec![];
    let mut ecn_bits = 0u8;
    let mut dst_ip: Option<IpAddr> = None;
    let mut ifindex: Option<u32> = None;
    let mut stride: Option<usize> = None;
    let mut ts: Option<Duration> = None;
    let h0 = hash64(0xD0, &[&seq_idx.to_le_bytes()]);
    let len = 1 + (h0 % 65_000) as usize;
    for (i, &k) in kinds.iter().enumerate() {
        let h = hash64(0xD1, &[&seq_idx.to_le_bytes(), &(i as u64).to_le_bytes()]);
        let pad = !(variant == 1 && i + 1 == kinds.len());
        match k {
            0 => {
                ecn_bits = h as u8;
                put(&mut ctrl, libc::IPPROTO_IP, libc::IP_TOS, &[h as u8], pad);
            }
            1 => {
                ecn_bits = (h >> 8) as u8;
                put(&mut ctrl, libc::IPPROTO_IP, libc::IP_RECVTOS, &[(h >> 8) as u8], pad);
            }
            2 => {
                let v = (h >> 16) as i32 & 0xff;
                ecn_bits = v as u8;
                put(&mut ctrl, libc::IPPROTO_IPV6, libc::IPV6_TCLASS, &v.to_ne_bytes(), pad);
            }
            3 => {
                let idx = (h >> 24) as i32 & 0x7fff;
                let spec = ((h >> 3) as u32).to_be_bytes();
                let addr = Ipv4Addr::from((h >> 29) as u32);
                put(&mut ctrl, libc::IPPROTO_IP, libc::IP_PKTINFO, &val_bytes(Val::PktInfo4(idx, spec, addr.octets())), pad);
                dst_ip = Some(addr.into());
                ifindex = Some(idx as u32);
            }
            4 => {
                let addr = Ipv6Addr::from((h as u128) << 64 | h.rotate_left(17) as u128);
                let idx = (h >> 11) as u32 & 0xffff;
                put(&mut ctrl, libc::IPPROTO_IPV6, libc::IPV6_PKTINFO, &val_bytes(Val::PktInfo6(addr.octets(), idx)), pad);
                dst_ip = Some(addr.into());
                ifindex = Some(idx);
            }
            5 => {
                let v = 1 + ((h >> 5) % 65_000) as i32;
                put(&mut ctrl, libc::SOL_UDP, libc::UDP_GRO, &v.to_ne_bytes(), pad);
                stride = Some(v as usize);
            }
            6 => {
                let sec = if h % 7 == 0 { -5 } else { (h >> 9) as i64 & 0x7fff_ffff };
                let nsec = (h % 1_000_000_000) as i64;
                put(&mut ctrl, libc::SOL_SOCKET, libc::SCM_TIMESTAMPNS, &val_bytes(Val::Timespec(sec, nsec)), pad);
                ts = Some(Duration::new(u64::try_from(sec).unwrap_or(0), nsec as u32));
            }
            _ => {
                put(&mut ctrl, libc::IPPROTO_IP, libc::IP_TTL, &64i32.to_ne_bytes(), pad);
            }
        }
    }
    let src: SocketAddr = match h0 % 3 {
        0 => SocketAddrV4::new(Ipv4Addr::from((h0 >> 8) as u32), (h0 >> 40) as u16).into(),
        1 => SocketAddrV6::new(Ipv6Addr::from((h0 as u128) << 60 | 7), (h0 >> 40) as u16, 0, 0).into(),
        _ => SocketAddrV6::new(Ipv4Addr::from((h0 >> 8) as u32).to_ipv6_mapped(), (h0 >> 40) as u16, 0, 0).into(),
    };
    let r = catch_unwind(AssertUnwindSafe(|| verif::decode_control(&ctrl, src, len)));
    out.checks += 1;
    out.decode_cases += 1;
    match r {
        Err(_) => {
            let (loc, msg) = qv::check::take_panic().unwrap_or_default();
            out.viol.push(format!("cmsg: decode_recv panicked on a well-formed control buffer (kinds {kinds:?}, variant {variant}) at {loc}: {msg}"));
        }
        Ok(Err(e)) => out.viol.push(format!("cmsg: decode_recv failed on a well-formed control buffer (kinds {kinds:?}): {e}")),
        Ok(Ok(m)) => {
            let exp_ecn = EcnCodepoint::from_bits(ecn_bits);
            let exp_stride = stride.unwrap_or(len);
            if m.addr != src || m.len != len || m.stride != exp_stride || m.ecn != exp_ecn || m.dst_ip != dst_ip || m.interface_index != ifindex || m.timestamp != ts {
                out.viol.push(format!(
                    "cmsg: decode_recv(kinds {kinds:?}, variant {variant}) = {m:?}, expected addr {src} len {len} stride {exp_stride} ecn {exp_ecn:?} dst_ip {dst_ip:?} ifindex {ifindex:?} timestamp {ts:?}"
                ));
            }
        }
    }
}

// ---------------------------------------------------------------- work lists

#[derive(Debug, Clone, Copy)]
pub struct Sizes {
    pub r_len: u32,
    pub d_len: u32,
    /// buffer sizes tried for every R sequence: every size 0..=r_buf_max with this step, plus the edges
    pub r_buf_max: usize,
    pub r_buf_step: usize,
    pub e_step: u64,
}

impl Sizes {
    pub fn full() -> Self {
        Self { r_len: 4, d_len: 4, r_buf_max: 168, r_buf_step: 1, e_step: 1 }
    }
    pub fn miri_quick() -> Self {
        Self { r_len: 2, d_len: 2, r_buf_max: 104, r_buf_step: 8, e_step: 7 }
    }
    pub fn miri_thorough() -> Self {
        Self { r_len: 4, d_len: 4, r_buf_max: 136, r_buf_step: 24, e_step: 1 }
    }
    /// reduced sweep for the valgrind lane
    pub fn reduced() -> Self {
        Self { r_len: 3, d_len: 3, r_buf_max: 136, r_buf_step: 4, e_step: 1 }
    }
    /// 'E', 'R' or 'D'
    pub fn space_of(&self, u: u64) -> char {
        let e_units = E_TOTAL.div_ceil(self.e_step);
        if u < e_units {
            'E'
        } else if u < e_units + r_sequences(self.r_len) {
            'R'
        } else {
            'D'
        }
    }
    pub fn buf_sizes(&self) -> Vec<usize> {
        let mut v: Vec<usize> = (0..=self.r_buf_max).step_by(self.r_buf_step).collect();
        for e in [15usize, 16, 17, 23, 24, 25, 31, 33, 39, 41, 87, 88, 89, 95, 96, 97] {
            if e <= self.r_buf_max + 1 {
                v.push(e);
            }
        }
        v.sort_unstable();
        v.dedup();
        v
    }
    /// number of work units (one unit = one E index, one R sequence over all buffer sizes, or one D sequence with both variants)
    pub fn units(&self) -> u64 {
        E_TOTAL.div_ceil(self.e_step) + r_sequences(self.r_len) + d_sequences(self.d_len)
    }
    pub fn run_unit(&self, u: u64, out: &mut CmsgOut) {
        let e_units = E_TOTAL.div_ceil(self.e_step);
        if u < e_units {
            // rotate so that a strided subset still sees every option value
            encode_case((u * self.e_step + u / 3) % E_TOTAL, out);
            return;
        }
        let u = u - e_units;
        let rs = r_sequences(self.r_len);
        if u < rs {
            for b in self.buf_sizes() {
                roundtrip_case(u, self.r_len, b, out);
            }
            return;
        }
        let u = u - rs;
        decode_case(u, self.d_len, 0, out);
        decode_case(u, self.d_len, 1, out);
    }
}
