//! Self-identifying payloads: every byte is a pure function of (transmit id, segment index, offset).

use qv::util::hash64;

#[inline]
fn mix64(mut z: u64) -> u64 {
    z = (z ^ (z >> 30)).wrapping_mul(0xBF58_476D_1CE4_E5B9);
    z = (z ^ (z >> 27)).wrapping_mul(0x94D0_49BB_1331_11EB);
    z ^ (z >> 31)
}

pub fn seg_key(tid: u64, seg: u32) -> u64 {
    hash64(0xC19, &[&tid.to_le_bytes(), &seg.to_le_bytes()])
}

#[inline]
fn word(key: u64, j: u64) -> u64 {
    mix64(key ^ j.wrapping_mul(0x9E37_79B9_7F4A_7C15))
}

/// Fill `buf` with the bytes of segment `key` starting at offset 0.
pub fn fill(key: u64, buf: &mut [u8]) {
    for (j, c) in buf.chunks_mut(8).enumerate() {
        let w = word(key, j as u64).to_le_bytes();
        c.copy_from_slice(&w[..c.len()]);
    }
}

/// First offset at which `buf` differs from the bytes of segment `key` (offset 0 based).
pub fn mismatch(key: u64, buf: &[u8]) -> Option<usize> {
    for (j, c) in buf.chunks(8).enumerate() {
        let w = word(key, j as u64).to_le_bytes();
        if c != &w[..c.len()] {
            let k = c.iter().zip(w.iter()).position(|(a, b)| a != b).unwrap_or(0);
            return Some(j * 8 + k);
        }
    }
    None
}

/// Build the contents of a transmit: `nsegs` segments of `seg` bytes, the last one `last` bytes.
pub fn build(tid: u64, seg: usize, nsegs: u32, last: usize) -> Vec<u8> {
    let total = seg * (nsegs as usize - 1) + last;
    let mut v = vec![0u8; total];
    for i in 0..nsegs {
        let a = i as usize * seg;
        let b = if i + 1 == nsegs { a + last } else { a + seg };
        fill(seg_key(tid, i), &mut v[a..b]);
    }
    v
}
