//! Real loopback sockets for the sweep: creation, tuning, calibration of kernel limits.

use std::{
    io,
    net::{IpAddr, Ipv4Addr, Ipv6Addr, SocketAddr, SocketAddrV4, SocketAddrV6},
    os::fd::AsRawFd,
    sync::OnceLock,
};

use socket2::{Domain, Protocol, Socket, Type};
use udp::{RecvMeta, Transmit, UdpSocketState};

#[derive(Debug, Clone, Copy, PartialEq, Eq, Hash, PartialOrd, Ord)]
pub enum Kind {
    V4,
    V6Only,
    Dual,
}

impl Kind {
    pub fn name(self) -> &'static str {
        match self {
            Kind::V4 => "v4",
            Kind::V6Only => "v6only",
            Kind::Dual => "dual",
        }
    }
}

#[derive(Debug, Clone, Copy, PartialEq, Eq, Hash, PartialOrd, Ord)]
pub enum Path {
    P4,
    P6,
}

pub struct Sock {
    pub sock: Socket,
    pub state: UdpSocketState,
    pub kind: Kind,
    pub local: SocketAddr,
}

pub fn v4(x: u8) -> Ipv4Addr {
    Ipv4Addr::new(127, 0, 0, x)
}

/// Create, bind and wrap a socket. `bind_ip = None` binds the wildcard address.
pub fn open(kind: Kind, bind_ip: Option<IpAddr>, rcvbuf: usize) -> io::Result<Sock> {
    let sock = match kind {
        Kind::V4 => Socket::new(Domain::IPV4, Type::DGRAM, Some(Protocol::UDP))?,
        Kind::V6Only | Kind::Dual => {
            let s = Socket::new(Domain::IPV6, Type::DGRAM, Some(Protocol::UDP))?;
            s.set_only_v6(kind == Kind::V6Only)?;
            s
        }
    };
    let addr: SocketAddr = match (kind, bind_ip) {
        (Kind::V4, None) => SocketAddrV4::new(Ipv4Addr::UNSPECIFIED, 0).into(),
        (Kind::V4, Some(IpAddr::V4(a))) => SocketAddrV4::new(a, 0).into(),
        (_, None) => SocketAddrV6::new(Ipv6Addr::UNSPECIFIED, 0, 0, 0).into(),
        (_, Some(IpAddr::V6(a))) => SocketAddrV6::new(a, 0, 0, 0).into(),
        _ => return Err(io::Error::other("bind address family mismatch")),
    };
    sock.bind(&addr.into())?;
    if rcvbuf > 0 {
        // root: bypass net.core.rmem_max so that a burst can never overflow the queue
        let v: libc::c_int = rcvbuf as libc::c_int;
        let rc = unsafe {
            libc::setsockopt(
                sock.as_raw_fd(),
                libc::SOL_SOCKET,
                libc::SO_RCVBUFFORCE,
                &v as *const _ as *const libc::c_void,
                std::mem::size_of_val(&v) as libc::socklen_t,
            )
        };
        if rc != 0 {
            sock.set_recv_buffer_size(rcvbuf)?;
        }
    }
    let state = UdpSocketState::new((&sock).into())?;
    let local = sock.local_addr()?.as_socket().ok_or_else(|| io::Error::other("no local addr"))?;
    Ok(Sock { sock, state, kind, local })
}

pub fn set_gro(sock: &Socket, on: bool) -> io::Result<()> {
    let v: libc::c_int = on as libc::c_int;
    let rc = unsafe {
        libc::setsockopt(
            sock.as_raw_fd(),
            libc::SOL_UDP,
            libc::UDP_GRO,
            &v as *const _ as *const libc::c_void,
            std::mem::size_of_val(&v) as libc::socklen_t,
        )
    };
    if rc == 0 {
        Ok(())
    } else {
        Err(io::Error::last_os_error())
    }
}

/// Wait until `sock` is readable (true) or `ms` elapsed (false).
pub fn wait_readable(sock: &Socket, ms: i32) -> bool {
    let mut pfd = libc::pollfd { fd: sock.as_raw_fd(), events: libc::POLLIN, revents: 0 };
    let n = unsafe { libc::poll(&mut pfd, 1, ms) };
    n > 0 && (pfd.revents & libc::POLLIN) != 0
}

pub fn wait_writable(sock: &Socket, ms: i32) -> bool {
    let mut pfd = libc::pollfd { fd: sock.as_raw_fd(), events: libc::POLLOUT, revents: 0 };
    let n = unsafe { libc::poll(&mut pfd, 1, ms) };
    n > 0
}

/// Destination address as the sender must spell it.
pub fn dest_for(sender: Kind, path: Path, ip4: Ipv4Addr, port: u16) -> SocketAddr {
    match (sender, path) {
        (Kind::V4, Path::P4) => SocketAddrV4::new(ip4, port).into(),
        (_, Path::P4) => SocketAddrV6::new(ip4.to_ipv6_mapped(), port, 0, 0).into(),
        (_, Path::P6) => SocketAddrV6::new(Ipv6Addr::LOCALHOST, port, 0, 0).into(),
    }
}

/// An IP address as a socket of `kind` reports it.
pub fn as_seen_by(kind: Kind, ip: IpAddr) -> IpAddr {
    match (kind, ip) {
        (Kind::V4, IpAddr::V6(a)) => a.to_ipv4_mapped().map(IpAddr::V4).unwrap_or(ip),
        (Kind::V4, _) => ip,
        (_, IpAddr::V4(a)) => IpAddr::V6(a.to_ipv6_mapped()),
        (_, _) => ip,
    }
}

#[derive(Debug, Clone, Copy)]
pub struct Calib {
    /// largest single datagram accepted on the IPv4 / IPv6 send path over loopback
    pub max_single: [usize; 2],
    /// largest total length of a segmented transmit accepted (segment size 1200)
    pub max_gso_total: [usize; 2],
    pub gso: bool,
    /// default source address the kernel picks for 127.0.0.0/8 destinations
    pub default_src4: Ipv4Addr,
}

impl Calib {
    /// Limits of a Linux loopback device with the default 65536-byte MTU (used when a fault mode makes
    /// measuring impossible)
    pub fn assumed() -> Self {
        Self { max_single: [65_507, 65_488], max_gso_total: [65_507, 65_527], gso: true, default_src4: v4(1) }
    }
}

static CALIB: OnceLock<Result<Calib, String>> = OnceLock::new();

pub fn calib() -> Result<Calib, String> {
    CALIB.get_or_init(calibrate).clone()
}

fn try_len(path: Path, total: usize, seg: Option<usize>) -> Result<bool, String> {
    let (k, bind): (Kind, IpAddr) = match path {
        Path::P4 => (Kind::V4, v4(1).into()),
        Path::P6 => (Kind::V6Only, Ipv6Addr::LOCALHOST.into()),
    };
    let a = open(k, Some(bind), 8 << 20).map_err(|e| format!("open: {e}"))?;
    let b = open(k, Some(bind), 8 << 20).map_err(|e| format!("open: {e}"))?;
    let buf = vec![0x5Au8; total];
    let t = Transmit { destination: b.local, ecn: None, contents: &buf, segment_size: seg, src_ip: None };
    match a.state.try_send((&a.sock).into(), &t) {
        Ok(()) => {
            // Drain whatever arrives; calibration only measures what the kernel *accepts*. Whether everything
            // that was accepted also arrives intact is the sweep's question, not calibration's.
            let mut rb = vec![0u8; 70_000];
            let mut got = 0usize;
            let mut meta = [RecvMeta::default()];
            while got < total && wait_readable(&b.sock, 200) {
                let mut iov = [std::io::IoSliceMut::new(&mut rb)];
                match b.state.recv((&b.sock).into(), &mut iov, &mut meta) {
                    Ok(_) => got += meta[0].len.max(1),
                    Err(e) if e.kind() == io::ErrorKind::WouldBlock => {}
                    Err(_) => break,
                }
            }
            Ok(true)
        }
        Err(e) if e.raw_os_error() == Some(libc::EMSGSIZE) => Ok(false),
        Err(e) if e.raw_os_error() == Some(libc::EINVAL) || e.raw_os_error() == Some(libc::EIO) => Ok(false),
        Err(e) => Err(format!("calibration try_send({total},{seg:?}): {e}")),
    }
}

fn search(path: Path, seg: Option<usize>, lo_ok: usize, hi_bad: usize) -> Result<usize, String> {
    let (mut lo, mut hi) = (lo_ok, hi_bad);
    if !try_len(path, lo, seg)? {
        return Ok(0);
    }
    while hi - lo > 1 {
        let mid = (lo + hi) / 2;
        if try_len(path, mid, seg)? {
            lo = mid;
        } else {
            hi = mid;
        }
    }
    Ok(lo)
}

fn calibrate() -> Result<Calib, String> {
    let probe = open(Kind::V4, Some(v4(1).into()), 0).map_err(|e| format!("open: {e}"))?;
    let gso = probe.state.max_gso_segments() > 1;
    let mut c = Calib { max_single: [0; 2], max_gso_total: [0; 2], gso, default_src4: v4(1) };
    for (i, p) in [Path::P4, Path::P6].into_iter().enumerate() {
        c.max_single[i] = search(p, None, 1200, 65_600)?;
        c.max_gso_total[i] = if gso { search(p, Some(1200), 2400, 65_600)? } else { 0 };
    }
    // default source for a wildcard-bound sender
    let a = open(Kind::V4, None, 0).map_err(|e| format!("open: {e}"))?;
    let b = open(Kind::V4, None, 0).map_err(|e| format!("open: {e}"))?;
    let dst = SocketAddr::from((v4(9), b.local.port()));
    let t = Transmit { destination: dst, ecn: None, contents: b"x", segment_size: None, src_ip: None };
    a.state.try_send((&a.sock).into(), &t).map_err(|e| format!("calibration send: {e}"))?;
    if !wait_readable(&b.sock, 2000) {
        return Err("calibration: probe datagram not received".into());
    }
    let mut rb = [0u8; 16];
    let mut meta = [RecvMeta::default()];
    let mut iov = [std::io::IoSliceMut::new(&mut rb)];
    b.state.recv((&b.sock).into(), &mut iov, &mut meta).map_err(|e| format!("calibration recv: {e}"))?;
    if let IpAddr::V4(s) = meta[0].addr.ip() {
        c.default_src4 = s;
    }
    Ok(c)
}
