p='quinn/src/connection.rs'
s=open(p).read()
old="""        if !conn.inner.is_closed() {
            // If the driver is alive, it's just it and us, so we'd better shut it down. If it's
            // not, we can't do any harm. If there were any streams being opened, then either
            // the connection will be closed for an unrelated reason or a fresh reference will
            // be constructed for the newly opened stream.
            conn.implicit_close(&self.shared);
        }"""
new="""        let _ = conn;"""
assert old in s
open(p,'w').write(s.replace(old,new))
