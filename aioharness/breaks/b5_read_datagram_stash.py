p='quinn/src/connection.rs'
s=open(p).read()
old="""        if let Some(x) = state.inner.datagrams().recv() {
            return Poll::Ready(Ok(x));
        } else if let Some(ref e) = state.error {"""
new="""        if let Some(x) = this.stash.take() {
            return Poll::Ready(Ok(x));
        }
        if let Some(x) = state.inner.datagrams().recv() {
            // hand the datagram over on the next poll
            *this.stash = Some(x);
            ctx.waker().wake_by_ref();
            return Poll::Pending;
        } else if let Some(ref e) = state.error {"""
assert old in s
s=s.replace(old,new)
old="""    pub struct ReadDatagram<'a> {
        conn: &'a ConnectionRef,
        #[pin]
        notify: Notified<'a>,
    }"""
new="""    pub struct ReadDatagram<'a> {
        conn: &'a ConnectionRef,
        stash: Option<Bytes>,
        #[pin]
        notify: Notified<'a>,
    }"""
assert old in s
s=s.replace(old,new)
old="""        ReadDatagram {
            conn: &self.0,
            notify: self.0.shared.datagram_received.notified(),"""
new="""        ReadDatagram {
            conn: &self.0,
            stash: None,
            notify: self.0.shared.datagram_received.notified(),"""
assert old in s
s=s.replace(old,new)
s=s.replace("        let mut this = self.project();\n        let mut state = this.conn.state.lock(\"ReadDatagram::poll\");","        let mut this = self.project();\n        let mut state = this.conn.state.lock(\"ReadDatagram::poll\");",1)
open(p,'w').write(s)
