p='quinn/src/connection.rs'
s=open(p).read()
old="""            // Construct the future while the lock is held to ensure we can't miss a wakeup if
            // the `Notify` is signaled immediately after we release the lock. `await` it after
            // the lock guard is out of scope.
            self.0.shared.closed.notified()
        }
        .await;
        self.0
            .state
            .lock("closed")"""
new="""        }
        self.0.shared.closed.notified().await;
        self.0
            .state
            .lock("closed")"""
assert old in s
open(p,'w').write(s.replace(old,new,1))
