p='quinn/src/connection.rs'
s=open(p).read()
old="""                Stream(StreamEvent::Available { dir }) => {
                    // Might mean any number of streams are ready, so we wake up everyone
                    shared.stream_budget_available[dir as usize].notify_waiters();
                }"""
new="""                Stream(StreamEvent::Available { dir }) => {
                    // Might mean any number of streams are ready, so we wake up everyone
                    if dir == Dir::Uni {
                        shared.stream_budget_available[dir as usize].notify_waiters();
                    }
                }"""
assert old in s
open(p,'w').write(s.replace(old,new))
