p='quinn/src/connection.rs'
s=open(p).read()
old="""        shared.stream_incoming[Dir::Uni as usize].notify_waiters();
        shared.stream_incoming[Dir::Bi as usize].notify_waiters();
        shared.datagram_received.notify_waiters();"""
new="""        shared.stream_incoming[Dir::Bi as usize].notify_waiters();"""
assert old in s
open(p,'w').write(s.replace(old,new))
