p='quinn/src/connection.rs'
s=open(p).read()
old="""                Stream(StreamEvent::Stopped { id, .. }) => {
                    wake_stream_notify(id, &mut self.stopped);
                    wake_stream(id, &mut self.blocked_writers);
                }"""
new="""                Stream(StreamEvent::Stopped { id, .. }) => {
                    wake_stream_notify(id, &mut self.stopped);
                }"""
assert old in s
open(p,'w').write(s.replace(old,new))
