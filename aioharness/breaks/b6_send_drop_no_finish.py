p='quinn/src/send_stream.rs'
s=open(p).read()
old="""        match conn.inner.send_stream(self.stream).finish() {
            Ok(()) => conn.wake(),"""
new="""        if conn.inner.send_stream(self.stream).stopped().map(|s| s.is_none()).unwrap_or(false) {
            return;
        }
        match conn.inner.send_stream(self.stream).finish() {
            Ok(()) => conn.wake(),"""
assert old in s
open(p,'w').write(s.replace(old,new))
