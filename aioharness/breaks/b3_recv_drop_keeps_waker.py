p='quinn/src/recv_stream.rs'
s=open(p).read()
old="""        // clean up any previously registered wakers
        conn.blocked_readers.remove(&self.stream);

        if conn.error.is_some() || (self.is_0rtt"""
new="""        if conn.error.is_some() || (self.is_0rtt"""
assert old in s
open(p,'w').write(s.replace(old,new))
