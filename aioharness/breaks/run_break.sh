#!/bin/bash
# usage: breaks/run_break.sh <edit-script.py> [run-seed]
# Applies one seeded break to a scratch worktree of /repo HEAD (created on demand under /tmp, remove
# it with `git -C /repo worktree remove --force /tmp/wt-c18` when done), builds qvaio against it and
# runs the quick tier with the committed known-findings file. Expected: exit 1 with a VIOLATION.
set -u
edit="$(cd "$(dirname "$1")" && pwd)/$(basename "$1")"; seed="${2:-1}"
WT=/tmp/wt-c18
[ -d "$WT" ] || git -C /repo worktree add --detach "$WT" HEAD >/dev/null || exit 9
cd "$WT" && git reset -q --hard "$(git -C /repo rev-parse HEAD)" && python3 "$edit" || { echo "edit failed"; exit 9; }
git diff --stat | tail -1
mkdir -p /tmp/c18-break-verif && cp /verif/known_findings.json /tmp/c18-break-verif/ && rm -rf /tmp/c18-break-verif/evidence
cd /verif/aioharness && QV_VERIF_DIR=/tmp/c18-break-verif QVAIO_REPO="$WT" QVAIO_TARGET_DIR=/tmp/c18-wt-target VERIF_SEED="$seed" ../run_c18 quick 2>&1 \
  | grep -v '^NOTE\|INCONCLUSIVE-CASE' | sed 's/[0-9]\+/#/g' | cut -c1-240 | sort | uniq -c | sort -rn | head -8
