//! Harness environment shared by all application tasks of one world: violation log, counters,
//! registry of live handles and pending operations (the harness side of the registration census),
//! the stream/datagram ledger of the integrity oracle, and the tracked-operation wrapper that
//! implements cancel points and the lost-wakeup probe.

use std::{
    collections::{BTreeMap, BTreeSet},
    future::Future,
    pin::Pin,
    sync::{
        atomic::{AtomicU64, Ordering},
        Arc, Mutex,
    },
    task::{Context, Poll},
    time::Duration,
};

use qv::{app::Counters, check::common::leak_prefixed, util::Ranges};

use crate::exec::{BoxFut, Kind, Shared, TraceSink, VSleep, CURRENT_TASK, PROBING};

pub enum Mode {
    Det(Arc<Shared>),
    Real,
}

#[derive(Clone, Copy, Debug, PartialEq, Eq, PartialOrd, Ord)]
pub enum OpKind {
    Connect,
    Accept,
    OpenUni,
    OpenBi,
    AcceptUni,
    AcceptBi,
    Write,
    WriteAll,
    WriteChunks,
    WriteChunk,
    WriteAllChunks,
    Stopped,
    Read,
    ReadChunk,
    ReadChunks,
    ReadExact,
    ReadToEnd,
    ReceivedReset,
    SendDatagramWait,
    ReadDatagram,
    Closed,
    WaitIdle,
    HandshakeConfirmed,
}

impl OpKind {
    pub fn name(self) -> &'static str {
        use OpKind::*;
        match self {
            Connect => "connect",
            Accept => "accept",
            OpenUni => "open_uni",
            OpenBi => "open_bi",
            AcceptUni => "accept_uni",
            AcceptBi => "accept_bi",
            Write => "write",
            WriteAll => "write_all",
            WriteChunks => "write_chunks",
            WriteChunk => "write_chunk",
            WriteAllChunks => "write_all_chunks",
            Stopped => "stopped",
            Read => "read",
            ReadChunk => "read_chunk",
            ReadChunks => "read_chunks",
            ReadExact => "read_exact",
            ReadToEnd => "read_to_end",
            ReceivedReset => "received_reset",
            SendDatagramWait => "send_datagram_wait",
            ReadDatagram => "read_datagram",
            Closed => "closed",
            WaitIdle => "wait_idle",
            HandshakeConfirmed => "handshake_confirmed",
        }
    }
    /// Coarse class used in violation messages (so that signatures do not depend on the API variant)
    pub fn class(self) -> &'static str {
        use OpKind::*;
        match self {
            Write | WriteAll | WriteChunks | WriteChunk | WriteAllChunks => "write-type operation",
            Read | ReadChunk | ReadChunks | ReadExact | ReadToEnd => "read-type operation",
            OpenUni | OpenBi => "stream open",
            AcceptUni | AcceptBi => "stream accept",
            k => k.name(),
        }
    }
    /// Which waker map a pending future of this kind may legitimately occupy
    pub fn reg_map(self) -> Option<&'static str> {
        use OpKind::*;
        match self {
            Write | WriteAll | WriteChunks | WriteChunk | WriteAllChunks => Some("blocked_writers"),
            Read | ReadChunk | ReadChunks | ReadExact | ReadToEnd | ReceivedReset => Some("blocked_readers"),
            Stopped => Some("stopped"),
            _ => None,
        }
    }
}

#[derive(Clone, Debug)]
pub struct PendingOp {
    pub task: usize,
    pub kind: OpKind,
    /// connection key: pair index * 2 + side (0 = client, 1 = server); usize::MAX for endpoint ops
    pub ck: usize,
    pub sid: Option<u64>,
    pub polls: u32,
}

#[derive(Default, Debug, Clone)]
pub struct FlowLedger {
    pub key: u64,
    // writer side
    pub attempted: u64,
    pub committed: u64,
    pub uncertain: bool,
    pub fin: Option<u64>,
    pub reset: Option<u64>,
    pub w_stopped_seen: Option<u64>,
    // reader side
    pub delivered: Ranges,
    pub eos: bool,
    pub r_stop: Option<u64>,
    pub r_reset_seen: Option<u64>,
    pub r_started: bool,
}

#[derive(Default, Debug, Clone)]
pub struct DgramLedger {
    pub sent: BTreeMap<u32, usize>,
    pub maybe_sent: BTreeSet<u32>,
    pub received: BTreeSet<u32>,
}

#[derive(Clone, Debug, PartialEq)]
pub struct CloseExpect {
    pub by: usize,
    pub code: u64,
    pub reason: Vec<u8>,
    pub how: &'static str,
}

#[derive(Default, Debug, Clone)]
pub struct PairState {
    pub closing: Option<CloseExpect>,
    pub done: [bool; 2],
    pub established: [bool; 2],
    pub peer_close_seen: [Option<String>; 2],
    /// the connection was lost for protocol-level reasons before any close was initiated
    pub lost_early: bool,
}

/// Flags from which a stale registration is classified into a history class.
#[derive(Default, Debug, Clone)]
pub struct StreamHist {
    pub ops: Vec<String>,
    pub rr_cancelled: bool,
    pub read_cancelled: bool,
    pub read_to_eos: bool,
    pub recv_dropped: bool,
    pub stopped_cancelled: bool,
    pub reset_called: bool,
    pub finished: bool,
    pub send_dropped: bool,
}

#[derive(Default)]
pub struct EnvState {
    pub viol: Vec<String>,
    pub notes: Vec<String>,
    pub cnt: Counters,
    pub pending: BTreeMap<u64, PendingOp>,
    pub live_send: BTreeMap<(usize, u64), u32>,
    pub live_recv: BTreeMap<(usize, u64), u32>,
    pub live_conn: BTreeMap<usize, u32>,
    pub weak: BTreeMap<usize, quinn::VerifWeakConnection>,
    pub flows: BTreeMap<(usize, u64, u8), FlowLedger>,
    pub dgrams: BTreeMap<(usize, u8), DgramLedger>,
    pub pairs: Vec<PairState>,
    pub hist: BTreeMap<(usize, u64), StreamHist>,
    pub harness_err: Vec<String>,
    pub lingering_max: u64,
    /// tasks already probed since the last external event (each is probed at most once per event)
    pub probed: BTreeSet<usize>,
    pub probe_epoch: u64,
    /// debugging only (QVAIO_DEBUG): strong clones, which change teardown behaviour
    pub debug_conns: Vec<(usize, quinn::Connection)>,
}

pub struct Env {
    pub mode: Mode,
    pub st: Mutex<EnvState>,
    pub tracing: bool,
    pub trace: TraceSink,
    next_op: AtomicU64,
    pub shutdown: tokio::sync::Notify,
}

pub fn ck(k: usize, side: usize) -> usize {
    k * 2 + side
}

impl Env {
    pub fn new(mode: Mode, pairs: usize, tracing: bool, sink: Option<TraceSink>) -> Arc<Self> {
        let mut st = EnvState::default();
        st.pairs = vec![PairState::default(); pairs];
        Arc::new(Self { mode, st: Mutex::new(st), tracing, trace: sink.unwrap_or_else(|| Arc::new(Mutex::new(Vec::new()))), next_op: AtomicU64::new(1), shutdown: tokio::sync::Notify::new() })
    }

    pub fn is_det(&self) -> bool {
        matches!(self.mode, Mode::Det(_))
    }

    pub fn now_ns(&self) -> u64 {
        match &self.mode {
            Mode::Det(sh) => sh.now_ns.load(Ordering::Relaxed),
            Mode::Real => crate::exec::base_instant().elapsed().as_nanos() as u64,
        }
    }

    pub fn violate(&self, msg: String) {
        if self.tracing {
            let t = self.now_ns();
            self.trace.lock().unwrap().push(format!("t={t:>12} VIOLATION {msg}"));
        }
        let mut st = self.st.lock().unwrap();
        if st.viol.len() < 20 && !st.viol.contains(&msg) {
            st.viol.push(msg);
        }
    }

    pub fn harness_error(&self, msg: String) {
        let mut st = self.st.lock().unwrap();
        if st.harness_err.len() < 20 {
            st.harness_err.push(msg);
        }
    }

    pub fn inc(&self, k: &'static str) {
        self.st.lock().unwrap().cnt.inc(k);
    }

    pub fn add(&self, k: &'static str, n: u64) {
        self.st.lock().unwrap().cnt.add(k, n);
    }

    pub fn inc2(&self, prefix: &str, k: &str) {
        let key = leak_prefixed(prefix, k);
        self.st.lock().unwrap().cnt.inc(key);
    }

    pub fn tr(&self, f: impl FnOnce() -> String) {
        if self.tracing {
            let t = self.now_ns();
            let s = f();
            let mut tr = self.trace.lock().unwrap();
            if tr.len() < 40_000 {
                tr.push(format!("t={t:>12} app   {s}"));
            }
        }
    }

    /// Append to the per-stream operation history (used to print minimal failing histories).
    pub fn hist(&self, ck: usize, sid: u64, s: impl FnOnce() -> String, f: impl FnOnce(&mut StreamHist)) {
        let mut st = self.st.lock().unwrap();
        let h = st.hist.entry((ck, sid)).or_default();
        if h.ops.len() < 64 {
            h.ops.push(s());
        }
        f(h);
    }

    pub fn spawn(self: &Arc<Self>, name: String, fut: BoxFut) {
        match &self.mode {
            Mode::Det(sh) => sh.spawn(Kind::App, name, fut),
            Mode::Real => {
                tokio::spawn(fut);
            }
        }
    }

    /// Sleep in the world's time (virtual in the deterministic lanes).
    pub async fn sleep_ns(&self, ns: u64) {
        match &self.mode {
            Mode::Det(sh) => {
                let t = sh.new_timer(sh.now_ns.load(Ordering::Relaxed) + ns);
                VSleep(t).await
            }
            Mode::Real => tokio::time::sleep(Duration::from_nanos(ns)).await,
        }
    }

    pub fn closing(&self, k: usize) -> Option<CloseExpect> {
        self.st.lock().unwrap().pairs[k].closing.clone()
    }

    pub fn set_closing(&self, k: usize, ce: CloseExpect) {
        let mut st = self.st.lock().unwrap();
        if st.pairs[k].closing.is_none() {
            st.pairs[k].closing = Some(ce);
        }
    }

    /// Wrap a quinn future into a tracked operation with an optional cancel point.
    pub fn op<'a, T: std::fmt::Debug>(
        self: &Arc<Self>,
        kind: OpKind,
        ck: usize,
        sid: Option<u64>,
        cancel_after: Option<u32>,
        fut: impl Future<Output = T> + Send + 'a,
    ) -> Op<'a, T> {
        Op {
            env: self.clone(),
            id: self.next_op.fetch_add(1, Ordering::Relaxed),
            kind,
            ck,
            sid,
            fut: Some(Box::pin(fut)),
            pend_polls: 0,
            cancel_after,
            registered: false,
            ctx: "",
        }
    }
}

pub enum OpRes<T> {
    Done(T),
    /// the future was dropped while pending (cancel point)
    Cancelled,
}

/// A quinn future under observation.
pub struct Op<'a, T> {
    env: Arc<Env>,
    id: u64,
    kind: OpKind,
    ck: usize,
    sid: Option<u64>,
    fut: Option<Pin<Box<dyn Future<Output = T> + Send + 'a>>>,
    pend_polls: u32,
    cancel_after: Option<u32>,
    registered: bool,
    /// extra context shown in violation messages (e.g. " issued during 0-RTT")
    pub ctx: &'static str,
}

impl<T> Unpin for Op<'_, T> {}

impl<T> Op<'_, T> {
    fn unregister(&mut self) {
        if self.registered {
            self.env.st.lock().unwrap().pending.remove(&self.id);
            self.registered = false;
        }
    }
    fn label(&self) -> String {
        match self.sid {
            Some(s) => format!("{}(c{}{} s{})", self.kind.name(), self.ck / 2, if self.ck % 2 == 0 { "C" } else { "S" }, s),
            None if self.ck == usize::MAX => format!("{}(endpoint)", self.kind.name()),
            None => format!("{}(c{}{})", self.kind.name(), self.ck / 2, if self.ck % 2 == 0 { "C" } else { "S" }),
        }
    }
}

impl<T: std::fmt::Debug> Future for Op<'_, T> {
    type Output = OpRes<T>;
    fn poll(mut self: Pin<&mut Self>, cx: &mut Context<'_>) -> Poll<OpRes<T>> {
        let this = &mut *self;
        let probing = PROBING.with(|p| p.get());
        let fut = this.fut.as_mut().expect("op polled after completion");
        match fut.as_mut().poll(cx) {
            Poll::Ready(v) => {
                this.fut = None;
                this.unregister();
                let env = this.env.clone();
                env.inc2("op.done.", this.kind.name());
                if this.pend_polls > 0 {
                    env.inc2("op.done_after_pending.", this.kind.name());
                }
                if probing && this.pend_polls > 0 {
                    let mut outcome = format!("{v:?}");
                    if let Some((i, _)) = outcome.char_indices().nth(40) {
                        outcome.truncate(i);
                        outcome.push_str("..");
                    }
                    env.violate(format!(
                        "lost wakeup: pending {}{} completed with {outcome} when polled spuriously at a quiescent point (no runnable task, no datagram in flight): its condition already held and nothing was going to wake it; operation {} in task {}",
                        this.kind.class(),
                        this.ctx,
                        this.label(),
                        CURRENT_TASK.with(|c| c.get())
                    ));
                }
                env.tr(|| format!("{} -> ready after {} pending polls", this.label(), this.pend_polls));
                Poll::Ready(OpRes::Done(v))
            }
            Poll::Pending => {
                this.pend_polls += 1;
                if probing {
                    this.env.inc("probe.still_pending");
                }
                if !this.registered {
                    this.registered = true;
                    let task = CURRENT_TASK.with(|c| c.get());
                    this.env.st.lock().unwrap().pending.insert(this.id, PendingOp { task, kind: this.kind, ck: this.ck, sid: this.sid, polls: 1 });
                    this.env.inc2("op.pending.", this.kind.name());
                    this.env.tr(|| format!("{} -> pending", this.label()));
                } else if let Some(p) = this.env.st.lock().unwrap().pending.get_mut(&this.id) {
                    p.polls = this.pend_polls;
                }
                if let Some(j) = this.cancel_after {
                    if this.pend_polls >= j {
                        // CANCEL POINT: drop the pending future
                        this.fut = None;
                        this.unregister();
                        this.env.inc2("cancel.", this.kind.name());
                        this.env.tr(|| format!("{} -> CANCELLED (future dropped after {} polls)", this.label(), this.pend_polls));
                        return Poll::Ready(OpRes::Cancelled);
                    }
                }
                Poll::Pending
            }
        }
    }
}

impl<T> Drop for Op<'_, T> {
    fn drop(&mut self) {
        if self.fut.is_some() && self.registered {
            // dropped from outside while pending (select lost / task torn down)
            self.env.inc2("cancel.", self.kind.name());
            self.env.inc("cancel.by_select");
            let l = self.label();
            self.env.tr(|| format!("{l} -> CANCELLED (dropped by select)"));
        }
        self.fut = None;
        self.unregister();
    }
}

/// Poll two futures; the first that completes wins and the other is dropped.
pub enum Either<A, B> {
    A(A),
    B(B),
}

pub async fn select2<A, B>(a: impl Future<Output = A>, b: impl Future<Output = B>) -> Either<A, B> {
    let mut a = std::pin::pin!(a);
    let mut b = std::pin::pin!(b);
    std::future::poll_fn(move |cx| {
        if let Poll::Ready(v) = a.as_mut().poll(cx) {
            return Poll::Ready(Either::A(v));
        }
        if let Poll::Ready(v) = b.as_mut().poll(cx) {
            return Poll::Ready(Either::B(v));
        }
        Poll::Pending
    })
    .await
}

/// Counting latch over harness tasks (works on both executors).
pub struct Group {
    n: Mutex<usize>,
    notify: tokio::sync::Notify,
}

impl Group {
    pub fn new() -> Arc<Self> {
        Arc::new(Self { n: Mutex::new(0), notify: tokio::sync::Notify::new() })
    }
    pub fn add(&self) {
        *self.n.lock().unwrap() += 1;
    }
    pub fn done(&self) {
        let mut n = self.n.lock().unwrap();
        *n -= 1;
        if *n == 0 {
            self.notify.notify_waiters();
        }
    }
    pub async fn wait(&self) {
        loop {
            let fut = self.notify.notified();
            let mut fut = std::pin::pin!(fut);
            fut.as_mut().enable();
            if *self.n.lock().unwrap() == 0 {
                return;
            }
            fut.await;
        }
    }
    pub fn spawn(self: &Arc<Self>, env: &Arc<Env>, name: String, fut: impl Future<Output = ()> + Send + 'static) {
        self.add();
        let g = self.clone();
        env.spawn(
            name,
            Box::pin(async move {
                fut.await;
                g.done();
            }),
        );
    }
}

/// A flag that tasks can wait on (harness-level barrier).
pub struct Flag {
    set: Mutex<bool>,
    notify: tokio::sync::Notify,
}

impl Flag {
    pub fn new() -> Arc<Self> {
        Arc::new(Self { set: Mutex::new(false), notify: tokio::sync::Notify::new() })
    }
    pub fn set(&self) {
        *self.set.lock().unwrap() = true;
        self.notify.notify_waiters();
    }
    pub fn is_set(&self) -> bool {
        *self.set.lock().unwrap()
    }
    pub async fn wait(&self) {
        loop {
            let fut = self.notify.notified();
            let mut fut = std::pin::pin!(fut);
            fut.as_mut().enable();
            if *self.set.lock().unwrap() {
                return;
            }
            fut.await;
        }
    }
}

// ---------------------------------------------------------------------------------------------
// Handle wrappers: the harness knows exactly which stream / connection handles are alive
// ---------------------------------------------------------------------------------------------

pub fn sid_u64(id: quinn::StreamId) -> u64 {
    quinn::VarInt::from(id).into_inner()
}

pub struct TSend {
    pub s: Option<quinn::SendStream>,
    pub env: Arc<Env>,
    pub ck: usize,
    pub sid: u64,
}

impl TSend {
    pub fn new(env: &Arc<Env>, ck: usize, s: quinn::SendStream) -> Self {
        let sid = sid_u64(s.id());
        *env.st.lock().unwrap().live_send.entry((ck, sid)).or_insert(0) += 1;
        Self { s: Some(s), env: env.clone(), ck, sid }
    }
    pub fn get(&mut self) -> &mut quinn::SendStream {
        self.s.as_mut().unwrap()
    }
}

impl Drop for TSend {
    fn drop(&mut self) {
        self.env.hist(self.ck, self.sid, || "SendStream dropped".into(), |h| h.send_dropped = true);
        self.env.tr(|| format!("drop SendStream c{} s{}", self.ck, self.sid));
        self.env.inc("handle.send_dropped");
        drop(self.s.take());
        let mut st = self.env.st.lock().unwrap();
        if let Some(n) = st.live_send.get_mut(&(self.ck, self.sid)) {
            *n -= 1;
            if *n == 0 {
                st.live_send.remove(&(self.ck, self.sid));
            }
        }
    }
}

pub struct TRecv {
    pub r: Option<quinn::RecvStream>,
    pub env: Arc<Env>,
    pub ck: usize,
    pub sid: u64,
}

impl TRecv {
    pub fn new(env: &Arc<Env>, ck: usize, r: quinn::RecvStream) -> Self {
        let sid = sid_u64(r.id());
        *env.st.lock().unwrap().live_recv.entry((ck, sid)).or_insert(0) += 1;
        Self { r: Some(r), env: env.clone(), ck, sid }
    }
    pub fn get(&mut self) -> &mut quinn::RecvStream {
        self.r.as_mut().unwrap()
    }
}

impl Drop for TRecv {
    fn drop(&mut self) {
        self.env.hist(self.ck, self.sid, || "RecvStream dropped".into(), |h| h.recv_dropped = true);
        self.env.tr(|| format!("drop RecvStream c{} s{}", self.ck, self.sid));
        self.env.inc("handle.recv_dropped");
        drop(self.r.take());
        let mut st = self.env.st.lock().unwrap();
        if let Some(n) = st.live_recv.get_mut(&(self.ck, self.sid)) {
            *n -= 1;
            if *n == 0 {
                st.live_recv.remove(&(self.ck, self.sid));
            }
        }
    }
}

/// Counted `Connection` handle.
pub struct TConn {
    pub c: Option<quinn::Connection>,
    pub env: Arc<Env>,
    pub ck: usize,
}

impl TConn {
    pub fn new(env: &Arc<Env>, ck: usize, c: quinn::Connection) -> Self {
        let mut st = env.st.lock().unwrap();
        *st.live_conn.entry(ck).or_insert(0) += 1;
        st.weak.entry(ck).or_insert_with(|| c.verif_weak());
        if std::env::var("QVAIO_DEBUG").is_ok() && !st.debug_conns.iter().any(|(k, _)| *k == ck) {
            st.debug_conns.push((ck, c.clone()));
        }
        drop(st);
        Self { c: Some(c), env: env.clone(), ck }
    }
    pub fn get(&self) -> &quinn::Connection {
        self.c.as_ref().unwrap()
    }
}

impl Clone for TConn {
    fn clone(&self) -> Self {
        *self.env.st.lock().unwrap().live_conn.entry(self.ck).or_insert(0) += 1;
        Self { c: self.c.clone(), env: self.env.clone(), ck: self.ck }
    }
}

impl Drop for TConn {
    fn drop(&mut self) {
        drop(self.c.take());
        let mut st = self.env.st.lock().unwrap();
        if let Some(n) = st.live_conn.get_mut(&self.ck) {
            *n -= 1;
        }
    }
}
