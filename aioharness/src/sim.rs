//! One deterministic world: build endpoints on the virtual runtime, run the program under the
//! seeded scheduler, apply the quiescence oracles (registration census, lost-wakeup probes, stuck
//! detection) and the teardown oracle, and summarise the run.

use std::{
    collections::BTreeSet,
    net::SocketAddr,
    sync::{
        atomic::{AtomicBool, AtomicUsize, Ordering},
        Arc,
    },
    time::Duration,
};

use qv::{
    app::Violation,
    cfg::{CcShared, SeqCidGen},
    check::{common::leak_prefixed, CaseOut},
    nullcrypto::{NullClientConfig, NullHmacKey, NullServerConfig, NullShared, NullTokenKey},
    util::hash64,
};
use serde_json::json;

use crate::{
    env::{Env, Flag, Mode, OpKind},
    exec::{Exec, Kind, RunEnd, VRuntime},
    net::{Net, VSocket},
    plan::Plan,
    prog::{client_main, server_main, World},
};

pub fn endpoint_config(seed: u64, idx: u64) -> quinn::EndpointConfig {
    let mut ec = quinn::EndpointConfig::new(Arc::new(NullHmacKey(hash64(seed, &[b"hmac", &idx.to_le_bytes()]))));
    let s = hash64(seed, &[b"cid", &idx.to_le_bytes()]);
    ec.cid_generator(Arc::new(move || -> Box<dyn proto::ConnectionIdGenerator> { Box::new(SeqCidGen { len: 8, seed: s, ctr: 0, lifetime: None }) }));
    let mut rs = [0u8; 32];
    for (i, c) in rs.chunks_mut(8).enumerate() {
        c.copy_from_slice(&hash64(seed, &[b"rng", &idx.to_le_bytes(), &[i as u8]]).to_le_bytes());
    }
    ec.rng_seed(Some(rs));
    ec
}

pub fn configs(plan: &Plan) -> (quinn::ServerConfig, quinn::ClientConfig) {
    let shared = NullShared::new(plan.seed);
    *shared.issue_tickets.lock().unwrap() = false;
    let mut sc = quinn::ServerConfig::new(Arc::new(NullServerConfig { shared: shared.clone() }), Arc::new(NullTokenKey(plan.seed ^ 0x70)));
    sc.transport_config(Arc::new(plan.tc[1].build(CcShared::new())));
    let mut cc = quinn::ClientConfig::new(Arc::new(NullClientConfig { shared }));
    cc.transport_config(Arc::new(plan.tc[0].build(CcShared::new())));
    (sc, cc)
}

pub fn make_world(env: Arc<Env>, plan: Arc<Plan>, server_addr: SocketAddr, client_addrs: Vec<SocketAddr>, ccfg: quinn::ClientConfig) -> Arc<World> {
    let np = plan.pairs.len();
    let nc = plan.clients.len();
    Arc::new(World {
        env,
        plan,
        server_addr,
        client_addrs,
        ccfg,
        pair_done: (0..np).map(|_| [Flag::new(), Flag::new()]).collect(),
        cur_pair: (0..nc).map(|_| AtomicUsize::new(usize::MAX)).collect(),
        server_started: (0..np).map(|_| AtomicBool::new(false)).collect(),
        clients_left: AtomicUsize::new(nc),
        all_clients_done: Flag::new(),
        mains_left: AtomicUsize::new(nc + 1),
    })
}

fn side_name(ck: usize) -> String {
    format!("conn {} {}", ck / 2, if ck % 2 == 0 { "client" } else { "server" })
}

/// Registration census (oracle 3) over every connection whose state is still allocated.
fn census(env: &Arc<Env>) {
    let weak: Vec<(usize, quinn::VerifWeakConnection)> = env.st.lock().unwrap().weak.iter().map(|(k, w)| (*k, w.clone())).collect();
    for (ck, w) in weak {
        let Some(regs) = w.registrations() else { continue };
        let mut st = env.st.lock().unwrap();
        st.cnt.inc("census.connections_checked");
        let n_keys = (regs.blocked_readers.len() + regs.blocked_writers.len() + regs.stopped.len()) as u64;
        st.cnt.add("census.keys_checked", n_keys);
        let pend: Vec<(OpKind, Option<u64>)> = st.pending.values().filter(|p| p.ck == ck).map(|p| (p.kind, p.sid)).collect();
        let has_pending = |map: &str, sid: u64| pend.iter().any(|(k, s)| k.reg_map() == Some(map) && *s == Some(sid));
        let mut viol = vec![];
        let mut lingering = 0u64;
        if regs.closed && n_keys > 0 {
            viol.push(format!(
                "stale registration: {} is closed but still holds registrations readers={:?} writers={:?} stopped={:?}",
                side_name(ck),
                regs.blocked_readers,
                regs.blocked_writers,
                regs.stopped
            ));
        }
        for id in &regs.blocked_readers {
            let sid = crate::env::sid_u64(*id);
            if has_pending("blocked_readers", sid) {
                continue;
            }
            if st.live_recv.contains_key(&(ck, sid)) {
                lingering += 1;
                continue;
            }
            let h = st.hist.get(&(ck, sid)).cloned().unwrap_or_default();
            // (quinn marks the stream as completely read as soon as a read returns the last bytes, which
            // the application cannot observe, so the class does not require a visible end of stream)
            let class = if h.rr_cancelled && h.recv_dropped {
                "received_reset() future dropped while pending, stream later read to its end, RecvStream dropped"
            } else {
                "unclassified history"
            };
            viol.push(format!(
                "stale registration in blocked_readers: {class}; {} stream {sid} has neither a RecvStream handle nor a pending future, yet its waker stays registered for the life of the connection; history: [{}]",
                side_name(ck),
                h.ops.join(", ")
            ));
        }
        for id in &regs.blocked_writers {
            let sid = crate::env::sid_u64(*id);
            if has_pending("blocked_writers", sid) {
                continue;
            }
            if st.live_send.contains_key(&(ck, sid)) {
                lingering += 1;
                continue;
            }
            let h = st.hist.get(&(ck, sid)).cloned().unwrap_or_default();
            viol.push(format!(
                "stale registration in blocked_writers: {} stream {sid} has neither a SendStream handle nor a pending future; history: [{}]",
                side_name(ck),
                h.ops.join(", ")
            ));
        }
        for (i, id) in regs.stopped.iter().enumerate() {
            let sid = crate::env::sid_u64(*id);
            if has_pending("stopped", sid) {
                continue;
            }
            if !regs.stopped_closed.contains(id) {
                // the send half still exists: Finished / Stopped will remove the entry
                lingering += 1;
                continue;
            }
            let h = st.hist.get(&(ck, sid)).cloned().unwrap_or_default();
            let class = if h.stopped_cancelled && h.reset_called {
                "stopped() future dropped while pending, stream later reset locally, send half closed"
            } else {
                "unclassified history"
            };
            viol.push(format!(
                "stale registration in stopped: {class}; {} stream {sid} has no pending stopped() future ({} holders) and its send half no longer exists, yet the notifier stays registered for the life of the connection; history: [{}]",
                side_name(ck),
                regs.stopped_waiters.get(i).copied().unwrap_or(0),
                h.ops.join(", ")
            ));
        }
        st.cnt.add("census.lingering_registrations", lingering);
        st.lingering_max = st.lingering_max.max(lingering);
        drop(st);
        for v in viol {
            env.violate(v);
        }
    }
}

/// Everything that is checked at a quiescent point.
pub fn quiescent_oracles(env: &Arc<Env>, ex: &mut Exec) {
    census(env);
    probes(env, ex);
}

fn probes(env: &Arc<Env>, ex: &mut Exec) {
    let tasks: Vec<usize> = {
        let mut st = env.st.lock().unwrap();
        let epoch = ex.external_events();
        if st.probe_epoch != epoch {
            st.probe_epoch = epoch;
            st.probed.clear();
        }
        let all: BTreeSet<usize> = st.pending.values().map(|p| p.task).filter(|t| *t != usize::MAX).collect();
        all.into_iter().filter(|t| !st.probed.contains(t)).collect()
    };
    for t in tasks {
        if ex.has_ready() {
            // an earlier probe poll hit a cancel point or completed an operation and thereby woke
            // something: the world is no longer quiescent, later completions would not be lost
            // wakeups. The remaining tasks are probed at the next quiescent point.
            env.inc("probe.rounds_cut_short");
            ex.rerun_hook = true;
            break;
        }
        env.inc("probe.spurious_polls");
        env.st.lock().unwrap().probed.insert(t);
        ex.probe_task(t);
    }
}

fn pending_summary(env: &Arc<Env>, ex: &Exec) -> String {
    let st = env.st.lock().unwrap();
    let v: Vec<String> = st
        .pending
        .values()
        .take(12)
        .map(|p| format!("{}({}{}) in task '{}'", p.kind.name(), if p.ck == usize::MAX { "endpoint".into() } else { side_name(p.ck) }, p.sid.map(|s| format!(" stream {s}")).unwrap_or_default(), ex.task_name(p.task)))
        .collect();
    v.join("; ")
}

pub struct SimOpts {
    pub trace: bool,
    /// where trace lines go (shared so that a trace survives a panic of the case thread)
    pub sink: Option<crate::exec::TraceSink>,
    pub max_steps: u64,
    pub max_virtual_ns: u64,
    pub wall_cap: Duration,
}

impl Default for SimOpts {
    fn default() -> Self {
        Self { trace: false, sink: None, max_steps: 400_000, max_virtual_ns: 900_000_000_000, wall_cap: Duration::from_secs(40) }
    }
}

pub fn run_case(plan: Plan, opts: &SimOpts) -> CaseOut {
    let plan = Arc::new(plan);
    let net = Net::new(plan.net.clone(), plan.seed);
    let mut ex = Exec::new(plan.seed, plan.policy, net);
    ex.wall_cap = opts.wall_cap;
    let env = Env::new(Mode::Det(ex.sh.clone()), plan.pairs.len(), opts.trace, opts.sink.clone());
    crate::exec::PROBING.with(|p| p.set(false));
    if opts.trace {
        ex.trace = Some(env.trace.clone());
    }
    let (sc, cc) = configs(&plan);
    let server_addr: SocketAddr = "10.0.0.1:4433".parse().unwrap();
    let client_addrs: Vec<SocketAddr> = (0..plan.clients.len()).map(|i| format!("10.0.1.{}:{}", i + 1, 5000 + i).parse().unwrap()).collect();
    let world = make_world(env.clone(), plan.clone(), server_addr, client_addrs.clone(), cc);
    let sep = quinn::Endpoint::new_with_abstract_socket(endpoint_config(plan.seed, 0), Some(sc), VSocket::bind(&ex.sh, server_addr), VRuntime::new(ex.sh.clone(), 0)).expect("server endpoint");
    ex.sh.spawn(Kind::App, "server.main".into(), Box::pin(server_main(world.clone(), sep)));
    for (i, a) in client_addrs.iter().enumerate() {
        let cep = quinn::Endpoint::new_with_abstract_socket(endpoint_config(plan.seed, 1 + i as u64), None, VSocket::bind(&ex.sh, *a), VRuntime::new(ex.sh.clone(), 1 + i)).expect("client endpoint");
        ex.sh.spawn(Kind::App, format!("client{i}.main"), Box::pin(client_main(world.clone(), i, cep)));
    }

    let env_q = env.clone();
    let mut on_q = move |ex: &mut Exec| {
        census(&env_q);
        probes(&env_q, ex);
    };
    let w2 = world.clone();
    let mut done = move |_: &mut Exec| w2.mains_left.load(Ordering::SeqCst) == 0;
    let end = ex.run(opts.max_steps, opts.max_virtual_ns, &mut done, &mut on_q);
    let mut inconclusive = None;
    match end {
        RunEnd::Done => {}
        RunEnd::Stuck => {
            let parked = pending_summary(&env, &ex);
            if parked.is_empty() {
                env.harness_error(format!("world stuck with no application task parked on a quinn future; live tasks: {:?}", ex.live_task_names()));
            } else {
                env.violate(format!("stuck: no runnable task, no timer armed, no datagram in flight, workload incomplete; parked operations: {parked}"));
            }
        }
        RunEnd::TimeCap => {
            let parked = pending_summary(&env, &ex);
            inconclusive = Some(format!("virtual time cap before completion; parked: {parked}"));
        }
        RunEnd::StepCap => inconclusive = Some("step cap before completion".to_string()),
        RunEnd::WallCap => inconclusive = Some("wall-clock watchdog".to_string()),
    }
    if std::env::var("QVAIO_DEBUG").is_ok() {
        for (k, l) in env.st.lock().unwrap().dgrams.iter() {
            let missing: Vec<_> = l.sent.iter().filter(|(s, _)| !l.received.contains(s)).collect();
            eprintln!("DEBUG dgrams {k:?}: sent {:?} missing {missing:?}", l.sent);
        }
    }
    for (ck, c) in env.st.lock().unwrap().debug_conns.drain(..) {
        let s = c.stats();
        eprintln!("DEBUG conn ck={ck} frame_tx={:?}\n      frame_rx={:?}\n      path={:?} udp_tx={:?} udp_rx={:?} dgram_space={} max_dgram={:?}", s.frame_tx, s.frame_rx, s.path, s.udp_tx, s.udp_rx, c.datagram_send_buffer_space(), c.max_datagram_size());
    }
    // teardown (oracle 4): every application handle is gone now; drivers must drain and terminate
    let mut teardown_checked = false;
    if end == RunEnd::Done {
        let t0 = ex.now_ns();
        let mut done2 = |ex: &mut Exec| ex.live_tasks() == 0;
        let end2 = ex.run(opts.max_steps, t0 + 180_000_000_000, &mut done2, &mut on_q);
        match end2 {
            RunEnd::Done => {
                teardown_checked = true;
                env.inc("teardown.all_tasks_terminated");
                env.add("teardown.driver_tasks_terminated", ex.stats.tasks_finished);
                let timers = ex.sh.live_timers.load(Ordering::Relaxed);
                if timers != 0 {
                    env.violate(format!("teardown: all tasks terminated but {timers} runtime timers are still allocated"));
                }
            }
            RunEnd::Stuck | RunEnd::TimeCap => {
                env.violate(format!(
                    "teardown: every application handle was dropped but tasks are still alive {} ({} ms of virtual time later): {:?}",
                    if end2 == RunEnd::Stuck { "with nothing left that could wake them" } else { "after the drain period" },
                    (ex.now_ns() - t0) / 1_000_000,
                    ex.live_task_names()
                ));
            }
            RunEnd::StepCap => inconclusive = Some("step cap during teardown".to_string()),
            RunEnd::WallCap => inconclusive = Some("wall-clock watchdog during teardown".to_string()),
        }
    }
    drop(on_q);
    drop(done);
    let leaked = ex.abandon();
    let _ = leaked;

    // summarise
    let mut out = CaseOut::default();
    let mut st = env.st.lock().unwrap();
    out.fp = ex.fp;
    out.cnt.merge(&st.cnt);
    let s = &ex.stats;
    for (k, v) in [
        ("exec.polls", s.polls),
        ("exec.polls.epdriver", s.polls_by_kind[0]),
        ("exec.polls.conndriver", s.polls_by_kind[1]),
        ("exec.polls.app", s.polls_by_kind[2]),
        ("exec.deliveries", s.deliveries),
        ("exec.timer_fires", s.timer_fires),
        ("exec.sender_unblocks", s.unblocks),
        ("exec.clock_jumps", s.clock_jumps),
        ("exec.quiescent_points", s.quiescent_points),
        ("exec.probe_polls", s.probe_polls),
        ("exec.tasks_spawned", s.tasks_spawned),
    ] {
        out.cnt.add(k, v);
    }
    {
        let n = ex.sh.net.lock().unwrap();
        let ns = &n.stats;
        for (k, v) in [
            ("net.sent", ns.sent),
            ("net.loss", ns.lost),
            ("net.dup", ns.dup),
            ("net.reorder", ns.reordered),
            ("net.delivered", ns.delivered),
            ("net.gso_batches", ns.gso_batches),
            ("net.gro_batches", ns.gro_batches),
            ("net.gro_segments", ns.gro_segments),
            ("net.send_blocked", ns.send_blocked),
            ("net.dead_destination", ns.dead_dst),
        ] {
            out.cnt.add(k, v);
        }
    }
    out.cnt.inc(leak_prefixed("end.", &format!("{end:?}").to_lowercase()));
    out.cnt.inc(leak_prefixed("policy.", &format!("{:?}", plan.policy).to_lowercase()));
    if teardown_checked {
        out.cnt.inc("teardown.checked");
    }
    let ops_done: u64 = st.cnt.m.iter().filter(|(k, _)| k.starts_with("op.done.")).map(|(_, v)| *v).sum();
    out.nontrivial = ops_done > 0 && s.polls > 10;
    out.viol = st
        .viol
        .drain(..)
        .map(|msg| {
            // liveness / limit accounting of the protocol core: another property's subject, shown as a NOTE
            if let Some(m) = msg.strip_prefix("[C02] ") {
                Violation { prop: "C02", msg: m.to_string() }
            } else if let Some(m) = msg.strip_prefix("[C05] ") {
                Violation { prop: "C05", msg: m.to_string() }
            } else {
                Violation { prop: "C18", msg }
            }
        })
        .collect();
    if out.viol.iter().any(|v| v.prop != "C18") && inconclusive.is_none() {
        inconclusive = Some("connection lost without a close (protocol-level liveness, not judged here)".into());
    }
    if !st.harness_err.is_empty() {
        // surfaced as a harness error by the runner
        let e = st.harness_err.join(" | ");
        out.inconclusive = Some(format!("harness error: {e}"));
        out.cnt.inc("harness.errors");
        return out;
    }
    if out.inconclusive.is_none() {
        out.inconclusive = inconclusive;
    }
    out.sample = Some(json!({
        "plan": plan.summary(),
        "end": format!("{end:?}"),
        "interleaving_fingerprint": format!("{:016x}", ex.fp),
        "task_polls": s.polls,
        "quiescent_points": s.quiescent_points,
        "probe_polls": s.probe_polls,
        "virtual_ms": ex.now_ns() / 1_000_000,
        "operations_completed": ops_done,
        "datagrams_on_wire": out.cnt.get("net.sent"),
    }));
    if opts.trace {
        let mut t = env.trace.lock().unwrap().clone();
        t.push(format!("PLAN {}", plan.summary()));
        t.push(format!("END {end:?} fp={:016x} polls={} quiescent={} virtual_ms={}", ex.fp, s.polls, s.quiescent_points, ex.now_ns() / 1_000_000));
        out.trace = Some(t);
    }
    out
}
