//! In-memory UDP network with a seeded fault model, synthetic GRO batches and GSO splitting.

use std::{
    collections::{BTreeMap, VecDeque},
    io::{self, IoSliceMut},
    net::SocketAddr,
    pin::Pin,
    sync::{atomic::Ordering, Arc},
    task::{Context, Poll, Waker},
};

use qv::util::Rng;
use quinn::udp::{EcnCodepoint, RecvMeta, Transmit};

use crate::exec::Shared;

#[derive(Clone, Debug)]
pub struct NetCfg {
    pub loss_pct: u32,
    pub dup_pct: u32,
    pub reorder_pct: u32,
    pub delay_ns: u64,
    pub jitter_ns: u64,
    /// probability (percent) that a `poll_send` reports back-pressure once
    pub send_block_pct: u32,
    /// `max_receive_segments` of the sockets (1 = no GRO batches)
    pub gro: usize,
    /// `max_transmit_segments` of the senders (1 = no GSO)
    pub gso: usize,
    /// longest run of consecutive losses on one (src,dst) pair
    pub max_consecutive_loss: u32,
}

impl NetCfg {
    pub fn lossless(&self) -> bool {
        self.loss_pct == 0
    }
    pub fn describe(&self) -> String {
        format!(
            "loss={}% dup={}% reorder={}% delay={}us jitter={}us sendblock={}% gro={} gso={}",
            self.loss_pct,
            self.dup_pct,
            self.reorder_pct,
            self.delay_ns / 1000,
            self.jitter_ns / 1000,
            self.send_block_pct,
            self.gro,
            self.gso
        )
    }
}

pub struct Dg {
    pub deliver_at: u64,
    pub seq: u64,
    pub src: SocketAddr,
    pub dst: SocketAddr,
    pub ecn: Option<EcnCodepoint>,
    pub data: Vec<u8>,
}

#[derive(Default)]
pub struct Sock {
    pub inbox: VecDeque<Dg>,
    pub waker: Option<Waker>,
    pub open: bool,
}

#[derive(Default, Debug, Clone)]
pub struct NetStats {
    pub sent: u64,
    pub gso_batches: u64,
    pub gso_segments: u64,
    pub lost: u64,
    pub dup: u64,
    pub reordered: u64,
    pub delivered: u64,
    pub dead_dst: u64,
    pub recv_calls: u64,
    pub gro_batches: u64,
    pub gro_segments: u64,
    pub send_blocked: u64,
}

pub struct Net {
    pub cfg: NetCfg,
    pub rng: Rng,
    pub socks: BTreeMap<SocketAddr, Sock>,
    pub inflight: Vec<Dg>,
    pub blocked: Vec<Waker>,
    pub stats: NetStats,
    seq: u64,
    consecutive_loss: BTreeMap<(SocketAddr, SocketAddr), u32>,
    /// faults are switched off when the harness winds the world down
    pub faults_on: bool,
}

impl Net {
    pub fn new(cfg: NetCfg, seed: u64) -> Self {
        Self {
            cfg,
            rng: Rng::new(seed ^ 0x4E45_5457),
            socks: BTreeMap::new(),
            inflight: Vec::new(),
            blocked: Vec::new(),
            stats: NetStats::default(),
            seq: 0,
            consecutive_loss: BTreeMap::new(),
            faults_on: true,
        }
    }

    pub fn bind(&mut self, addr: SocketAddr) {
        self.socks.insert(addr, Sock { open: true, ..Default::default() });
    }

    fn push(&mut self, now: u64, src: SocketAddr, dst: SocketAddr, ecn: Option<EcnCodepoint>, data: &[u8]) {
        self.stats.sent += 1;
        let faults = self.faults_on;
        if faults && self.rng.chance(self.cfg.loss_pct) {
            let c = self.consecutive_loss.entry((src, dst)).or_insert(0);
            if *c < self.cfg.max_consecutive_loss {
                *c += 1;
                self.stats.lost += 1;
                return;
            }
        }
        self.consecutive_loss.insert((src, dst), 0);
        let copies = if faults && self.rng.chance(self.cfg.dup_pct) {
            self.stats.dup += 1;
            2
        } else {
            1
        };
        for _ in 0..copies {
            let mut delay = self.cfg.delay_ns;
            if self.cfg.jitter_ns > 0 {
                delay += self.rng.below(self.cfg.jitter_ns + 1);
            }
            if faults && self.rng.chance(self.cfg.reorder_pct) {
                delay += self.cfg.delay_ns + self.rng.below(3 * self.cfg.jitter_ns + 1_000_000);
                self.stats.reordered += 1;
            }
            self.seq += 1;
            self.inflight.push(Dg { deliver_at: now + delay, seq: self.seq, src, dst, ecn, data: data.to_vec() });
        }
    }

    /// Move in-flight datagram `k` to its destination inbox; returns the receiver's waker.
    pub fn deliver(&mut self, k: usize) -> (Option<Waker>, String) {
        let d = self.inflight.swap_remove(k);
        let desc = format!("#{} {}->{} {}B", d.seq, d.src.port(), d.dst.port(), d.data.len());
        match self.socks.get_mut(&d.dst) {
            Some(s) if s.open => {
                self.stats.delivered += 1;
                s.inbox.push_back(d);
                (s.waker.take(), desc)
            }
            _ => {
                self.stats.dead_dst += 1;
                (None, format!("{desc} (destination closed)"))
            }
        }
    }

    pub fn unblock(&mut self, k: usize) -> Option<Waker> {
        if k < self.blocked.len() {
            Some(self.blocked.swap_remove(k))
        } else {
            None
        }
    }
}

pub struct VSocket {
    pub sh: Arc<Shared>,
    pub addr: SocketAddr,
}

impl std::fmt::Debug for VSocket {
    fn fmt(&self, f: &mut std::fmt::Formatter<'_>) -> std::fmt::Result {
        write!(f, "VSocket({})", self.addr)
    }
}

impl VSocket {
    pub fn bind(sh: &Arc<Shared>, addr: SocketAddr) -> Box<Self> {
        sh.net.lock().unwrap().bind(addr);
        Box::new(Self { sh: sh.clone(), addr })
    }
}

impl Drop for VSocket {
    fn drop(&mut self) {
        let mut n = self.sh.net.lock().unwrap();
        if let Some(s) = n.socks.get_mut(&self.addr) {
            s.open = false;
            s.inbox.clear();
            s.waker = None;
        }
    }
}

impl quinn::AsyncUdpSocket for VSocket {
    fn create_sender(&self) -> Pin<Box<dyn quinn::UdpSender>> {
        let gso = self.sh.net.lock().unwrap().cfg.gso;
        Box::pin(VSender { sh: self.sh.clone(), src: self.addr, gso, blocked_once: false })
    }

    fn poll_recv(&mut self, cx: &mut Context<'_>, bufs: &mut [IoSliceMut<'_>], meta: &mut [RecvMeta]) -> Poll<io::Result<usize>> {
        let mut guard = self.sh.net.lock().unwrap();
        let n = &mut *guard;
        let max_gro = n.cfg.gro.max(1);
        let Some(s) = n.socks.get_mut(&self.addr) else {
            return Poll::Ready(Err(io::Error::other("socket closed")));
        };
        if s.inbox.is_empty() {
            s.waker = Some(cx.waker().clone());
            return Poll::Pending;
        }
        n.stats.recv_calls += 1;
        let want = 1 + n.rng.usize(bufs.len().min(meta.len()));
        let mut filled = 0;
        while filled < want {
            let Some(first) = s.inbox.pop_front() else { break };
            let stride = first.data.len();
            let buf = &mut bufs[filled];
            let cap = buf.len();
            let mut len = 0;
            buf[..stride].copy_from_slice(&first.data);
            len += stride;
            let mut segs = 1;
            // synthetic GRO: coalesce following datagrams of the same flow with the same size
            // (the last one may be shorter), as the kernel does
            let batch = if max_gro > 1 { 1 + n.rng.usize(max_gro) } else { 1 };
            while segs < batch {
                let ok = match s.inbox.front() {
                    Some(nx) => nx.src == first.src && nx.ecn == first.ecn && nx.data.len() <= stride && !nx.data.is_empty() && len + nx.data.len() <= cap && stride > 0,
                    None => false,
                };
                if !ok {
                    break;
                }
                let nx = s.inbox.pop_front().unwrap();
                buf[len..len + nx.data.len()].copy_from_slice(&nx.data);
                len += nx.data.len();
                segs += 1;
                if nx.data.len() < stride {
                    break;
                }
            }
            if segs > 1 {
                n.stats.gro_batches += 1;
                n.stats.gro_segments += segs as u64;
            }
            let mut m = RecvMeta::default();
            m.addr = first.src;
            m.len = len;
            m.stride = stride;
            m.ecn = first.ecn;
            m.dst_ip = Some(self.addr.ip());
            meta[filled] = m;
            filled += 1;
        }
        Poll::Ready(Ok(filled))
    }

    fn local_addr(&self) -> io::Result<SocketAddr> {
        Ok(self.addr)
    }

    fn max_receive_segments(&self) -> usize {
        self.sh.net.lock().unwrap().cfg.gro.max(1)
    }

    fn may_fragment(&self) -> bool {
        false
    }
}

pub struct VSender {
    sh: Arc<Shared>,
    src: SocketAddr,
    gso: usize,
    blocked_once: bool,
}

impl std::fmt::Debug for VSender {
    fn fmt(&self, f: &mut std::fmt::Formatter<'_>) -> std::fmt::Result {
        write!(f, "VSender({})", self.src)
    }
}

impl quinn::UdpSender for VSender {
    fn poll_send(mut self: Pin<&mut Self>, t: &Transmit<'_>, cx: &mut Context<'_>) -> Poll<io::Result<()>> {
        let now = self.sh.now_ns.load(Ordering::Relaxed);
        let mut n = self.sh.net.lock().unwrap();
        if !self.blocked_once && n.faults_on && n.cfg.send_block_pct > 0 {
            let pct = n.cfg.send_block_pct;
            if n.rng.chance(pct) {
                n.blocked.push(cx.waker().clone());
                n.stats.send_blocked += 1;
                drop(n);
                self.blocked_once = true;
                return Poll::Pending;
            }
        }
        drop(n);
        self.blocked_once = false;
        let mut n = self.sh.net.lock().unwrap();
        let seg = t.segment_size.unwrap_or(t.contents.len()).max(1);
        if t.segment_size.is_some() && t.contents.len() > seg {
            n.stats.gso_batches += 1;
            n.stats.gso_segments += t.contents.len().div_ceil(seg) as u64;
        }
        for c in t.contents.chunks(seg) {
            n.push(now, self.src, t.destination, t.ecn, c);
        }
        Poll::Ready(Ok(()))
    }

    fn max_transmit_segments(&self) -> usize {
        self.gso.max(1)
    }
}
