//! Real-scheduler lane (oracle 5): the same programs on a multi-thread tokio runtime over real
//! loopback UDP. Built plain (integrity + teardown oracles) and under ThreadSanitizer /
//! AddressSanitizer, where any sanitizer report is a violation.

use std::{
    net::{SocketAddr, UdpSocket},
    sync::{atomic::Ordering, Arc},
    time::{Duration, Instant},
};

use qv::{app::Violation, check::CaseOut};
use serde_json::json;

use crate::{
    env::{Env, Mode},
    plan::Plan,
    prog::{client_main, server_main},
    sim::{configs, endpoint_config, make_world},
};

pub fn runtime(workers: usize) -> tokio::runtime::Runtime {
    tokio::runtime::Builder::new_multi_thread().worker_threads(workers).enable_all().build().expect("tokio runtime")
}

async fn one_world(plan: Plan, deadline: Duration) -> CaseOut {
    crate::flow::REAL_MODE.store(true, Ordering::Relaxed);
    let plan = Arc::new(plan);
    let env = Env::new(Mode::Real, plan.pairs.len(), false, None);
    let (sc, cc) = configs(&plan);
    let rt: Arc<dyn quinn::Runtime> = Arc::new(quinn::TokioRuntime);
    let bind = || UdpSocket::bind("127.0.0.1:0").expect("bind loopback");
    let ss = bind();
    let server_addr: SocketAddr = ss.local_addr().unwrap();
    let csocks: Vec<UdpSocket> = (0..plan.clients.len()).map(|_| bind()).collect();
    let client_addrs: Vec<SocketAddr> = csocks.iter().map(|s| s.local_addr().unwrap()).collect();
    let world = make_world(env.clone(), plan.clone(), server_addr, client_addrs, cc);
    let sep = quinn::Endpoint::new(endpoint_config(plan.seed, 0), Some(sc), ss, rt.clone()).expect("server endpoint");
    tokio::spawn(server_main(world.clone(), sep));
    for (i, s) in csocks.into_iter().enumerate() {
        let cep = quinn::Endpoint::new(endpoint_config(plan.seed, 1 + i as u64), None, s, rt.clone()).expect("client endpoint");
        tokio::spawn(client_main(world.clone(), i, cep));
    }
    let t0 = Instant::now();
    let mut out = CaseOut::default();
    while world.mains_left.load(Ordering::SeqCst) != 0 {
        if t0.elapsed() > deadline {
            let parked: Vec<String> = env.st.lock().unwrap().pending.values().take(8).map(|p| format!("{}(c{} {:?})", p.kind.name(), p.ck, p.sid)).collect();
            out.inconclusive = Some(format!("real-scheduler world did not finish within {deadline:?}; parked: {parked:?}"));
            break;
        }
        tokio::time::sleep(Duration::from_millis(2)).await;
    }
    let mut st = env.st.lock().unwrap();
    out.cnt.merge(&st.cnt);
    out.cnt.inc("real.worlds");
    let ops_done: u64 = st.cnt.m.iter().filter(|(k, _)| k.starts_with("op.done.")).map(|(_, v)| *v).sum();
    out.nontrivial = ops_done > 0;
    out.fp = qv::util::hash64(plan.seed, &[b"real"]);
    out.viol = st.viol.drain(..).map(|msg| Violation { prop: "C18", msg: format!("[real scheduler] {msg}") }).collect();
    if !st.harness_err.is_empty() {
        out.inconclusive = Some(format!("harness: {}", st.harness_err.join(" | ")));
    }
    out.sample = Some(json!({"lane": "real-scheduler", "plan": plan.summary(), "operations_completed": ops_done, "wall_ms": t0.elapsed().as_millis() as u64}));
    out
}

/// Run a batch of worlds concurrently on one runtime, then check that every task terminates.
pub fn run_batch(rt: &tokio::runtime::Runtime, plans: Vec<Plan>, deadline: Duration) -> Vec<CaseOut> {
    rt.block_on(async move {
        let hs: Vec<_> = plans.into_iter().map(|p| tokio::spawn(one_world(p, deadline))).collect();
        let mut outs = vec![];
        let mut all_finished = true;
        for h in hs {
            match h.await {
                Ok(o) => {
                    all_finished &= o.inconclusive.is_none();
                    outs.push(o)
                }
                Err(e) => {
                    let mut o = CaseOut::default();
                    let msg = if e.is_panic() { format!("panic in a real-scheduler world: {e}") } else { format!("{e}") };
                    o.inconclusive = Some(msg);
                    all_finished = false;
                    outs.push(o);
                }
            }
        }
        // teardown: every handle is gone; endpoint and connection drivers must terminate
        if all_finished {
            let m = tokio::runtime::Handle::current().metrics();
            let t0 = Instant::now();
            loop {
                let alive = m.num_alive_tasks();
                if alive == 0 {
                    if let Some(o) = outs.first_mut() {
                        o.cnt.inc("real.teardown_all_tasks_terminated");
                    }
                    break;
                }
                if t0.elapsed() > Duration::from_secs(30) {
                    if let Some(o) = outs.first_mut() {
                        o.viol.push(Violation { prop: "C18", msg: format!("[real scheduler] teardown: {alive} tokio tasks still alive 30 s after every handle of the batch was dropped") });
                    }
                    break;
                }
                tokio::time::sleep(Duration::from_millis(5)).await;
            }
        }
        outs
    })
}
