//! Seeded program plans: what each world looks like (network, transport limits, connections,
//! flows, how connections and endpoints are torn down). Low-level decisions (chunk sizes, which API
//! variant, where cancel points sit) are drawn at run time from per-flow PRNGs forked from the plan
//! seed, so the whole program is still a function of the seed.

use qv::{
    cfg::{CcKind, TcfgP},
    util::Rng,
};
use serde_json::{json, Value};

use crate::{
    exec::{Policy, POLICIES},
    net::NetCfg,
};

#[derive(Clone, Copy, Debug, PartialEq, Eq)]
pub enum IncomingMode {
    Accept,
    RetryThenAccept,
    Refuse,
    Ignore,
    DropIt,
}

#[derive(Clone, Debug, PartialEq, Eq)]
pub enum How {
    Close { code: u64, reason: Vec<u8> },
    /// drop every handle (Connection clones, streams, pending futures) instead of calling close
    DropAll,
    /// `Endpoint::close` on the closer's endpoint
    EndpointClose { code: u64, reason: Vec<u8> },
}

#[derive(Clone, Debug)]
pub struct EndPlan {
    pub closer: usize,
    pub how: How,
    /// close at this virtual time after establishment instead of after the completion barrier
    pub abrupt_after_ns: Option<u64>,
}

#[derive(Clone, Debug)]
pub struct FlowPlan {
    pub opener: usize,
    pub bi: bool,
    pub len: u64,
    pub back_len: u64,
}

#[derive(Clone, Debug)]
pub struct PairPlan {
    pub incoming: IncomingMode,
    /// drop the `Connecting` future after this many pending polls (connection attempt abandoned)
    pub connect_abandon: Option<u32>,
    pub flows: Vec<FlowPlan>,
    pub dgrams: [u32; 2],
    pub end: EndPlan,
    pub extra_watchers: bool,
}

impl PairPlan {
    pub fn establishes(&self) -> bool {
        matches!(self.incoming, IncomingMode::Accept | IncomingMode::RetryThenAccept) && self.connect_abandon.is_none()
    }
}

#[derive(Clone, Copy, Debug, PartialEq, Eq)]
pub enum EpEnd {
    WaitIdleThenDrop,
    DropNow,
    CloseThenWaitIdle,
}

#[derive(Clone, Debug)]
pub struct Plan {
    pub seed: u64,
    pub net: NetCfg,
    pub tc: [TcfgP; 2],
    pub policy: Policy,
    /// per client endpoint: pair indices run one after the other
    pub clients: Vec<Vec<usize>>,
    pub pairs: Vec<PairPlan>,
    pub server_end: EpEnd,
    pub client_end: Vec<EpEnd>,
    pub cancel_pct: u32,
    pub unsafe_cancel_pct: u32,
    /// special scripted scenario (directed histories)
    pub scripted: Option<&'static str>,
    /// upper bound on flow lengths (keeps flow-control round trips bounded)
    pub flow_cap: u64,
}

#[derive(Clone, Copy, Debug, PartialEq, Eq)]
pub enum Flavor {
    /// clean network, everything else random
    Clean,
    /// full fault model
    Faulty,
    /// teardown-focused: few flows, all close / drop variants
    Teardown,
    /// small windows / stream budgets so that writes and opens block
    Blocked,
    /// for the real-scheduler lane: no faults, wall-clock friendly sizes
    Real,
}

fn tcfg(r: &mut Rng, flavor: Flavor) -> TcfgP {
    let mut t = TcfgP::default();
    let tight = flavor == Flavor::Blocked || r.chance(35);
    t.max_bidi = if tight { *r.pick(&[1, 1, 2, 3]) } else { *r.pick(&[2, 4, 16, 100]) };
    t.max_uni = if tight { *r.pick(&[1, 1, 2, 3]) } else { *r.pick(&[2, 4, 16, 100]) };
    t.stream_rwnd = if tight { *r.pick(&[64, 200, 500, 1000, 4000]) } else { *r.pick(&[1000, 16384, 65536, 1_250_000]) };
    t.rwnd = if tight { *r.pick(&[64, 1200, 5000, 1 << 30]) } else { *r.pick(&[16384, 100_000, 1 << 30, (1 << 62) - 1]) };
    t.send_window = if tight { *r.pick(&[100, 1000, 5000]) } else { *r.pick(&[16384, 200_000, 10_000_000]) };
    t.send_fairness = r.bool();
    t.initial_rtt_ms = *r.pick(&[1, 10, 50, 100]);
    t.idle_ms = Some(*r.pick(&[20_000, 30_000, 60_000]));
    t.keep_alive_ms = if r.chance(25) { Some(*r.pick(&[1000, 5000])) } else { None };
    t.mtud = if r.chance(50) { Some((*r.pick(&[1452, 1500, 4000]), 600, 60, 20)) } else { None };
    t.gso = r.chance(70);
    t.ack_freq = None;
    t.max_bps = None;
    t.dgram_recv_buf = Some(1_250_000);
    t.dgram_send_buf = if tight { *r.pick(&[1300, 3000, 20_000]) } else { 1024 * 1024 };
    t.cc = match r.below(10) {
        0..=5 => CcKind::Cubic,
        6..=7 => CcKind::NewReno,
        _ => CcKind::Fixed(*r.pick(&[3000, 6000, 14720, 100_000])),
    };
    if flavor == Flavor::Real {
        t.initial_rtt_ms = 10;
        t.idle_ms = Some(20_000);
        t.keep_alive_ms = None;
    }
    t
}

fn netcfg(r: &mut Rng, flavor: Flavor) -> NetCfg {
    let faulty = flavor == Flavor::Faulty || (flavor == Flavor::Blocked && r.chance(30)) || (flavor == Flavor::Teardown && r.chance(30));
    NetCfg {
        loss_pct: if faulty { *r.pick(&[0, 2, 5, 10, 20]) } else { 0 },
        dup_pct: if faulty { *r.pick(&[0, 0, 5, 20]) } else { 0 },
        reorder_pct: if faulty { *r.pick(&[0, 5, 20, 40]) } else { 0 },
        delay_ns: *r.pick(&[0, 100_000, 1_000_000, 10_000_000, 40_000_000]),
        jitter_ns: *r.pick(&[0, 0, 50_000, 2_000_000]),
        send_block_pct: if flavor == Flavor::Real { 0 } else { *r.pick(&[0, 0, 5, 25]) },
        gro: *r.pick(&[1, 1, 4, 8]),
        gso: *r.pick(&[1, 4, 10]),
        max_consecutive_loss: 3,
    }
}

fn reason(r: &mut Rng) -> Vec<u8> {
    let n = *r.pick(&[0usize, 0, 3, 17]);
    (0..n).map(|i| b'a' + ((r.below(26) as u8 + i as u8) % 26)).collect()
}

fn flows(r: &mut Rng, flavor: Flavor, cap: u64) -> Vec<FlowPlan> {
    let n = match flavor {
        Flavor::Teardown => r.range(0, 3),
        Flavor::Blocked => r.range(2, 7),
        Flavor::Real => r.range(1, 6),
        _ => r.range(0, 6),
    };
    (0..n)
        .map(|_| {
            let big = r.chance(15);
            let len = if big { r.range(20_000, 120_000) } else { *r.pick(&[0, 1, 7, 100, 1200, 1201, 5000, 12_000]) };
            let back = if r.chance(20) { 0 } else { *r.pick(&[1, 50, 1300, 9000]) };
            FlowPlan { opener: r.usize(2), bi: r.chance(40), len: len.min(cap), back_len: back }
        })
        .collect()
}

impl Plan {
    pub fn random(seed: u64, flavor: Flavor) -> Plan {
        let mut r = Rng::new(seed ^ 0x504C_414E);
        let net = netcfg(&mut r, flavor);
        let tc = [tcfg(&mut r, flavor), tcfg(&mut r, flavor)];
        // keep the number of flow-control round trips per flow bounded
        let w = tc.iter().map(|t| t.stream_rwnd.min(t.send_window).min(t.rwnd)).min().unwrap();
        let cap = (w * 25).max(25);
        let n_clients = match flavor {
            Flavor::Real => 1 + r.usize(2),
            _ => *r.pick(&[1, 1, 1, 2, 3]),
        };
        let mut clients = vec![];
        let mut pairs = vec![];
        for _ in 0..n_clients {
            let seq = if r.chance(20) { 2 } else { 1 };
            let mut ks = vec![];
            for j in 0..seq {
                let k = pairs.len();
                ks.push(k);
                let incoming = match r.below(20) {
                    0 => IncomingMode::Refuse,
                    1 => IncomingMode::DropIt,
                    2 if flavor != Flavor::Real => IncomingMode::Ignore,
                    3..=5 => IncomingMode::RetryThenAccept,
                    _ => IncomingMode::Accept,
                };
                let connect_abandon = if j + 1 == seq && incoming == IncomingMode::Accept && r.chance(4) { Some(r.range(1, 3) as u32) } else { None };
                let last = j + 1 == seq;
                let closer = r.usize(2);
                let how = match r.below(10) {
                    0..=4 => How::Close { code: *r.pick(&[0, 1, 42, 0x3fff_ffff]), reason: reason(&mut r) },
                    5..=7 => How::DropAll,
                    _ if closer == 0 && last => How::EndpointClose { code: *r.pick(&[0, 7, 99]), reason: reason(&mut r) },
                    _ => How::Close { code: 5, reason: reason(&mut r) },
                };
                let abrupt = !matches!(how, How::DropAll) && r.chance(if flavor == Flavor::Teardown { 45 } else { 15 });
                let abrupt_after_ns = if abrupt { Some(*r.pick(&[0, 1_000, 500_000, 5_000_000, 60_000_000, 300_000_000])) } else { None };
                let dg = |r: &mut Rng| if r.chance(40) { r.range(1, 12) as u32 } else { 0 };
                pairs.push(PairPlan {
                    incoming,
                    connect_abandon,
                    flows: flows(&mut r, flavor, cap),
                    dgrams: [dg(&mut r), dg(&mut r)],
                    end: EndPlan { closer, how, abrupt_after_ns },
                    extra_watchers: r.chance(60),
                });
            }
            clients.push(ks);
        }
        // server-side Endpoint::close only makes sense with a single pair
        if pairs.len() == 1 && pairs[0].end.closer == 1 && r.chance(15) && !matches!(pairs[0].end.how, How::DropAll) {
            pairs[0].end.how = How::EndpointClose { code: 11, reason: reason(&mut r) };
        }
        let ep_end = |r: &mut Rng| match r.below(10) {
            0..=4 => EpEnd::WaitIdleThenDrop,
            5..=7 => EpEnd::DropNow,
            _ => EpEnd::CloseThenWaitIdle,
        };
        let client_end = (0..n_clients).map(|_| ep_end(&mut r)).collect();
        Plan {
            seed,
            net,
            tc,
            policy: POLICIES[r.usize(POLICIES.len())],
            clients,
            pairs,
            server_end: ep_end(&mut r),
            client_end,
            cancel_pct: *r.pick(&[0, 10, 30, 60]),
            unsafe_cancel_pct: *r.pick(&[0, 0, 5, 15]),
            scripted: None,
            flow_cap: cap,
        }
    }

    /// Directed single-connection histories (the two suspects of DESIGN section 3 and friends).
    pub fn scripted(seed: u64, which: &'static str) -> Plan {
        let mut r = Rng::new(seed ^ 0x5C21);
        let mut tc = TcfgP::default();
        tc.idle_ms = Some(30_000);
        tc.initial_rtt_ms = 10;
        tc.mtud = None;
        let net = NetCfg {
            loss_pct: 0,
            dup_pct: 0,
            reorder_pct: 0,
            delay_ns: *r.pick(&[0, 1_000_000]),
            jitter_ns: 0,
            send_block_pct: 0,
            gro: 1,
            gso: 1,
            max_consecutive_loss: 3,
        };
        Plan {
            seed,
            net,
            tc: [tc.clone(), tc],
            policy: POLICIES[r.usize(POLICIES.len())],
            clients: vec![vec![0]],
            pairs: vec![PairPlan {
                incoming: IncomingMode::Accept,
                connect_abandon: None,
                flows: vec![FlowPlan { opener: 0, bi: false, len: *r.pick(&[10, 1000, 5000]), back_len: 0 }],
                dgrams: [0, 0],
                end: EndPlan { closer: 0, how: How::Close { code: 1, reason: vec![] }, abrupt_after_ns: None },
                extra_watchers: false,
            }],
            server_end: EpEnd::WaitIdleThenDrop,
            client_end: vec![EpEnd::WaitIdleThenDrop],
            cancel_pct: 0,
            unsafe_cancel_pct: 0,
            scripted: Some(which),
            flow_cap: u64::MAX,
        }
    }

    pub fn n_flows(&self) -> usize {
        self.pairs.iter().map(|p| p.flows.len()).sum()
    }

    pub fn summary(&self) -> Value {
        json!({
            "seed": self.seed,
            "scripted": self.scripted,
            "net": self.net.describe(),
            "policy": format!("{:?}", self.policy),
            "cancel_pct": self.cancel_pct,
            "unsafe_cancel_pct": self.unsafe_cancel_pct,
            "client_endpoints": self.clients,
            "server_end": format!("{:?}", self.server_end),
            "client_end": self.client_end.iter().map(|e| format!("{e:?}")).collect::<Vec<_>>(),
            "transport": self.tc.iter().map(|t| format!("bidi={} uni={} srwnd={} rwnd={} swnd={} rtt={}ms idle={:?} ka={:?} cc={:?}", t.max_bidi, t.max_uni, t.stream_rwnd, t.rwnd, t.send_window, t.initial_rtt_ms, t.idle_ms, t.keep_alive_ms, t.cc)).collect::<Vec<_>>(),
            "pairs": self.pairs.iter().map(|p| json!({
                "incoming": format!("{:?}", p.incoming),
                "connect_abandon": p.connect_abandon,
                "flows": p.flows.iter().map(|f| format!("{}{} {}B{}", if f.opener == 0 { "C" } else { "S" }, if f.bi { "bi" } else { "uni" }, f.len, if f.bi { format!("/{}B", f.back_len) } else { String::new() })).collect::<Vec<_>>(),
                "dgrams": p.dgrams,
                "end": format!("{:?}", p.end),
            })).collect::<Vec<_>>(),
        })
    }
}
