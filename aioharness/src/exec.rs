//! Deterministic single-threaded executor with a seeded scheduler, virtual clock and virtual timers.
//!
//! Everything that can happen in a world is a *choice*: poll one ready task, deliver one in-flight
//! datagram that is due, fire one due timer, unblock one back-pressured sender. The scheduler picks
//! the next choice from a seeded PRNG (under one of several policies), so a run is a deterministic
//! function of (program, seed). When nothing is due the clock jumps to the next timer / delivery.

use std::{
    cell::Cell,
    future::Future,
    pin::Pin,
    sync::{
        atomic::{AtomicBool, AtomicU64, AtomicU8, AtomicUsize, Ordering},
        Arc, Mutex, OnceLock,
    },
    task::{Context, Poll, Wake, Waker},
    time::{Duration, Instant},
};

use qv::util::{hash64, Rng};

use crate::net::Net;

pub type BoxFut = Pin<Box<dyn Future<Output = ()> + Send>>;
pub type TraceSink = Arc<Mutex<Vec<String>>>;

#[repr(u8)]
#[derive(Clone, Copy, PartialEq, Eq, Debug, PartialOrd, Ord)]
pub enum Kind {
    EpDriver = 0,
    ConnDriver = 1,
    App = 2,
    Net = 3,
    Timer = 4,
    Unblock = 5,
    Probe = 6,
    Spawn = 7,
    Harness = 8,
}

impl Kind {
    fn from_u8(x: u8) -> Kind {
        match x {
            0 => Kind::EpDriver,
            1 => Kind::ConnDriver,
            2 => Kind::App,
            3 => Kind::Net,
            4 => Kind::Timer,
            5 => Kind::Unblock,
            6 => Kind::Probe,
            7 => Kind::Spawn,
            _ => Kind::Harness,
        }
    }
    pub fn short(self) -> &'static str {
        match self {
            Kind::EpDriver => "epdrv",
            Kind::ConnDriver => "conndrv",
            Kind::App => "app",
            Kind::Net => "net",
            Kind::Timer => "timer",
            Kind::Unblock => "unblock",
            Kind::Probe => "probe",
            Kind::Spawn => "spawn",
            Kind::Harness => "harness",
        }
    }
}

thread_local! {
    /// id of the executor task being polled on this thread (usize::MAX outside a task poll)
    pub static CURRENT_TASK: Cell<usize> = const { Cell::new(usize::MAX) };
    /// true while the executor performs a spurious probe poll
    pub static PROBING: Cell<bool> = const { Cell::new(false) };
}

pub fn base_instant() -> Instant {
    static BASE: OnceLock<Instant> = OnceLock::new();
    *BASE.get_or_init(Instant::now)
}

#[derive(Default)]
struct ReadyQ {
    q: Vec<usize>,
    queued: Vec<bool>,
    cause: Vec<u8>,
}

pub struct TimerSlot {
    pub deadline_ns: u64,
    pub waker: Option<Waker>,
    pub alive: bool,
}

/// State shared between the executor, the runtime objects handed to quinn and the virtual network.
pub struct Shared {
    ready: Mutex<ReadyQ>,
    cur_cause: AtomicU8,
    pub now_ns: AtomicU64,
    pub timers: Mutex<Vec<TimerSlot>>,
    spawned: Mutex<Vec<(Kind, String, BoxFut)>>,
    pub net: Mutex<Net>,
    pub wakes: AtomicU64,
    pub live_timers: AtomicUsize,
}

impl Shared {
    pub fn now(&self) -> Instant {
        base_instant() + Duration::from_nanos(self.now_ns.load(Ordering::Relaxed))
    }
    pub fn instant_to_ns(&self, i: Instant) -> u64 {
        i.saturating_duration_since(base_instant()).as_nanos() as u64
    }
    pub fn spawn(&self, kind: Kind, name: String, fut: BoxFut) {
        self.spawned.lock().unwrap().push((kind, name, fut));
    }
    fn set_cause(&self, k: Kind) {
        self.cur_cause.store(k as u8, Ordering::Relaxed);
    }
    pub fn new_timer(self: &Arc<Self>, deadline_ns: u64) -> VTimer {
        let mut t = self.timers.lock().unwrap();
        let slot = TimerSlot { deadline_ns, waker: None, alive: true };
        let idx = if let Some(i) = t.iter().position(|s| !s.alive) {
            t[i] = slot;
            i
        } else {
            t.push(slot);
            t.len() - 1
        };
        self.live_timers.fetch_add(1, Ordering::Relaxed);
        VTimer { sh: self.clone(), idx }
    }
}

struct TaskWaker {
    id: usize,
    sh: Arc<Shared>,
}

impl Wake for TaskWaker {
    fn wake(self: Arc<Self>) {
        self.wake_by_ref()
    }
    fn wake_by_ref(self: &Arc<Self>) {
        let mut r = self.sh.ready.lock().unwrap();
        self.sh.wakes.fetch_add(1, Ordering::Relaxed);
        if self.id < r.queued.len() && !r.queued[self.id] {
            r.queued[self.id] = true;
            r.cause[self.id] = self.sh.cur_cause.load(Ordering::Relaxed);
            r.q.push(self.id);
        }
    }
}

/// Virtual timer: expires when the virtual clock reaches the deadline.
pub struct VTimer {
    sh: Arc<Shared>,
    idx: usize,
}

impl std::fmt::Debug for VTimer {
    fn fmt(&self, f: &mut std::fmt::Formatter<'_>) -> std::fmt::Result {
        write!(f, "VTimer#{}", self.idx)
    }
}

impl VTimer {
    pub fn reset_ns(&self, deadline_ns: u64) {
        let mut t = self.sh.timers.lock().unwrap();
        t[self.idx].deadline_ns = deadline_ns;
    }
    pub fn poll_timer(&self, cx: &mut Context<'_>) -> Poll<()> {
        let now = self.sh.now_ns.load(Ordering::Relaxed);
        let mut t = self.sh.timers.lock().unwrap();
        let s = &mut t[self.idx];
        if now >= s.deadline_ns {
            s.waker = None;
            Poll::Ready(())
        } else {
            s.waker = Some(cx.waker().clone());
            Poll::Pending
        }
    }
}

impl Drop for VTimer {
    fn drop(&mut self) {
        let w = {
            let mut t = self.sh.timers.lock().unwrap();
            t[self.idx].alive = false;
            t[self.idx].waker.take()
        };
        self.sh.live_timers.fetch_sub(1, Ordering::Relaxed);
        drop(w);
    }
}

impl quinn::AsyncTimer for VTimer {
    fn reset(self: Pin<&mut Self>, i: Instant) {
        let ns = self.sh.instant_to_ns(i);
        self.reset_ns(ns);
    }
    fn poll(self: Pin<&mut Self>, cx: &mut Context<'_>) -> Poll<()> {
        self.poll_timer(cx)
    }
}

/// Future form of a virtual timer (used by application tasks for virtual sleeps).
pub struct VSleep(pub VTimer);
impl Future for VSleep {
    type Output = ();
    fn poll(self: Pin<&mut Self>, cx: &mut Context<'_>) -> Poll<()> {
        self.0.poll_timer(cx)
    }
}

/// The `quinn::Runtime` handed to one endpoint.
pub struct VRuntime {
    pub sh: Arc<Shared>,
    pub ep: usize,
    spawned: AtomicUsize,
}

impl std::fmt::Debug for VRuntime {
    fn fmt(&self, f: &mut std::fmt::Formatter<'_>) -> std::fmt::Result {
        write!(f, "VRuntime(ep{})", self.ep)
    }
}

impl VRuntime {
    pub fn new(sh: Arc<Shared>, ep: usize) -> Arc<Self> {
        Arc::new(Self { sh, ep, spawned: AtomicUsize::new(0) })
    }
}

impl quinn::Runtime for VRuntime {
    fn new_timer(&self, i: Instant) -> Pin<Box<dyn quinn::AsyncTimer>> {
        Box::pin(self.sh.new_timer(self.sh.instant_to_ns(i)))
    }
    fn spawn(&self, future: Pin<Box<dyn Future<Output = ()> + Send>>) {
        // quinn spawns exactly one endpoint driver (first) and then one driver per connection
        let n = self.spawned.fetch_add(1, Ordering::Relaxed);
        let (kind, name) = if n == 0 {
            (Kind::EpDriver, format!("ep{}.driver", self.ep))
        } else {
            (Kind::ConnDriver, format!("ep{}.conn{}.driver", self.ep, n))
        };
        self.sh.spawn(kind, name, future);
    }
    fn wrap_udp_socket(&self, _t: std::net::UdpSocket) -> std::io::Result<Box<dyn quinn::AsyncUdpSocket>> {
        Err(std::io::Error::other("virtual runtime has no real sockets"))
    }
    fn now(&self) -> Instant {
        self.sh.now()
    }
}

#[derive(Clone, Copy, Debug, PartialEq, Eq)]
pub enum Policy {
    Uniform,
    Fifo,
    Lifo,
    TasksFirst,
    NetFirst,
    AppFirst,
    DriverFirst,
}

pub const POLICIES: [Policy; 7] =
    [Policy::Uniform, Policy::Fifo, Policy::Lifo, Policy::TasksFirst, Policy::NetFirst, Policy::AppFirst, Policy::DriverFirst];

struct Task {
    kind: Kind,
    name: String,
    fut: Option<BoxFut>,
    waker: Waker,
    polls: u64,
}

#[derive(Debug, PartialEq, Eq, Clone, Copy)]
pub enum RunEnd {
    /// the predicate became true
    Done,
    /// nothing runnable, nothing in flight, no timer armed
    Stuck,
    StepCap,
    TimeCap,
    WallCap,
}

#[derive(Default, Clone, Debug)]
pub struct ExecStats {
    pub polls: u64,
    pub polls_by_kind: [u64; 3],
    pub deliveries: u64,
    pub timer_fires: u64,
    pub unblocks: u64,
    pub clock_jumps: u64,
    pub quiescent_points: u64,
    pub probe_polls: u64,
    pub tasks_spawned: u64,
    pub tasks_finished: u64,
}

pub struct Exec {
    pub sh: Arc<Shared>,
    tasks: Vec<Task>,
    pub rng: Rng,
    pub policy: Policy,
    pub fp: u64,
    pub stats: ExecStats,
    pub trace: Option<TraceSink>,
    pub steps: u64,
    wall_start: Instant,
    pub wall_cap: Duration,
    last_q_sig: (u64, u64),
    /// virtual CPU time charged per task poll (time passes while tasks run; also keeps timers that
    /// re-arm at `now` from spinning forever in virtual time)
    pub poll_cost_ns: u64,
    /// set by the quiescence hook when it could not finish (probe round cut short): run it again at
    /// the next quiescent point even if no external event happened in between
    pub rerun_hook: bool,
}

enum Choice {
    Task(usize),
    Deliver(usize),
    Timer(usize),
    Unblock(usize),
}

pub static STOP_ALL: AtomicBool = AtomicBool::new(false);

impl Exec {
    pub fn new(seed: u64, policy: Policy, net: Net) -> Self {
        let sh = Arc::new(Shared {
            ready: Mutex::new(ReadyQ::default()),
            cur_cause: AtomicU8::new(Kind::Harness as u8),
            now_ns: AtomicU64::new(0),
            timers: Mutex::new(Vec::new()),
            spawned: Mutex::new(Vec::new()),
            net: Mutex::new(net),
            wakes: AtomicU64::new(0),
            live_timers: AtomicUsize::new(0),
        });
        Self {
            sh,
            tasks: Vec::new(),
            rng: Rng::new(seed ^ 0x5EED_EC5C),
            policy,
            fp: 0xC18,
            stats: ExecStats::default(),
            trace: None,
            steps: 0,
            wall_start: Instant::now(),
            wall_cap: Duration::from_secs(30),
            last_q_sig: (u64::MAX, u64::MAX),
            poll_cost_ns: *Rng::new(seed ^ 0xC057).pick(&[50u64, 1_000, 20_000]),
            rerun_hook: false,
        }
    }

    pub fn now_ns(&self) -> u64 {
        self.sh.now_ns.load(Ordering::Relaxed)
    }

    pub fn live_tasks(&self) -> usize {
        self.tasks.iter().filter(|t| t.fut.is_some()).count() + self.sh.spawned.lock().unwrap().len()
    }

    pub fn live_task_names(&self) -> Vec<String> {
        self.tasks.iter().filter(|t| t.fut.is_some()).map(|t| t.name.clone()).collect()
    }

    pub fn live_by_kind(&self, k: Kind) -> usize {
        self.tasks.iter().filter(|t| t.fut.is_some() && t.kind == k).count()
    }

    fn tr(&mut self, f: impl FnOnce() -> String) {
        if let Some(t) = &self.trace {
            let mut t = t.lock().unwrap();
            if t.len() < 40_000 {
                let s = f();
                t.push(s);
            }
        }
    }

    pub fn note(&mut self, s: String) {
        if let Some(t) = &self.trace {
            t.lock().unwrap().push(s);
        }
    }

    fn drain_spawned(&mut self) {
        let new: Vec<_> = std::mem::take(&mut *self.sh.spawned.lock().unwrap());
        for (kind, name, fut) in new {
            let id = self.tasks.len();
            let waker = Waker::from(Arc::new(TaskWaker { id, sh: self.sh.clone() }));
            self.tasks.push(Task { kind, name, fut: Some(fut), waker, polls: 0 });
            let mut r = self.sh.ready.lock().unwrap();
            r.queued.push(true);
            r.cause.push(Kind::Spawn as u8);
            r.q.push(id);
            self.stats.tasks_spawned += 1;
        }
    }

    fn poll_task(&mut self, id: usize, cause: Kind, probe: bool) {
        let Some(mut fut) = self.tasks[id].fut.take() else { return };
        let kind = self.tasks[id].kind;
        self.sh.set_cause(kind);
        let waker = self.tasks[id].waker.clone();
        let mut cx = Context::from_waker(&waker);
        CURRENT_TASK.with(|c| c.set(id));
        PROBING.with(|p| p.set(probe));
        let r = fut.as_mut().poll(&mut cx);
        PROBING.with(|p| p.set(false));
        CURRENT_TASK.with(|c| c.set(usize::MAX));
        self.sh.set_cause(Kind::Harness);
        self.tasks[id].polls += 1;
        self.stats.polls += 1;
        if !probe {
            self.sh.now_ns.fetch_add(self.poll_cost_ns, Ordering::Relaxed);
        }
        if (kind as usize) < 3 {
            self.stats.polls_by_kind[kind as usize] += 1;
        }
        self.fp = hash64(self.fp, &[&[kind as u8, cause as u8]]);
        let done = r.is_ready();
        if done {
            drop(fut);
            self.stats.tasks_finished += 1;
        } else {
            self.tasks[id].fut = Some(fut);
        }
        if self.trace.is_some() {
            let line = format!(
                "t={:>12} poll  {:<30} cause={:<8}{}{}",
                self.sh.now_ns.load(Ordering::Relaxed),
                self.tasks[id].name,
                cause.short(),
                if probe { " PROBE" } else { "" },
                if done { " -> finished" } else { "" }
            );
            self.tr(|| line);
        }
    }

    /// Spuriously poll one task (always legal for a `Future`); used by the lost-wakeup oracle.
    pub fn probe_task(&mut self, id: usize) {
        if id < self.tasks.len() && self.tasks[id].fut.is_some() {
            self.stats.probe_polls += 1;
            self.poll_task(id, Kind::Probe, true);
        }
    }

    /// Has anything become runnable (a probe poll that cancelled or completed something may wake
    /// drivers or other tasks; the world is then no longer quiescent)?
    /// Number of external events so far (deliveries, timer firings, sender unblocks, clock jumps)
    pub fn external_events(&self) -> u64 {
        self.stats.deliveries + self.stats.timer_fires + self.stats.unblocks + self.stats.clock_jumps
    }

    pub fn has_ready(&self) -> bool {
        !self.sh.ready.lock().unwrap().q.is_empty() || !self.sh.spawned.lock().unwrap().is_empty()
    }

    pub fn task_name(&self, id: usize) -> String {
        self.tasks.get(id).map(|t| t.name.clone()).unwrap_or_default()
    }

    fn choices(&mut self) -> (Vec<Choice>, usize) {
        let now = self.now_ns();
        let mut v = vec![];
        {
            let r = self.sh.ready.lock().unwrap();
            for &id in &r.q {
                v.push(Choice::Task(id));
            }
        }
        let ntasks = v.len();
        {
            let n = self.sh.net.lock().unwrap();
            for (i, d) in n.inflight.iter().enumerate() {
                if d.deliver_at <= now {
                    v.push(Choice::Deliver(i));
                }
            }
            for i in 0..n.blocked.len() {
                v.push(Choice::Unblock(i));
            }
        }
        {
            let t = self.sh.timers.lock().unwrap();
            for (i, s) in t.iter().enumerate() {
                if s.alive && s.waker.is_some() && s.deadline_ns <= now {
                    v.push(Choice::Timer(i));
                }
            }
        }
        (v, ntasks)
    }

    fn pick(&mut self, ch: &[Choice], ntasks: usize) -> usize {
        let n = ch.len();
        if n == 1 {
            return 0;
        }
        // every policy degenerates to uniform with probability 1/8 so that no choice is starved
        if self.rng.below(8) == 0 {
            return self.rng.usize(n);
        }
        let kinds: Vec<Kind> = ch
            .iter()
            .map(|c| match c {
                Choice::Task(id) => self.tasks[*id].kind,
                Choice::Deliver(_) => Kind::Net,
                Choice::Timer(_) => Kind::Timer,
                Choice::Unblock(_) => Kind::Unblock,
            })
            .collect();
        let among = |rng: &mut Rng, pred: &dyn Fn(Kind) -> bool| -> usize {
            let idx: Vec<usize> = kinds.iter().enumerate().filter(|(_, k)| pred(**k)).map(|(i, _)| i).collect();
            if idx.is_empty() {
                rng.usize(n)
            } else {
                idx[rng.usize(idx.len())]
            }
        };
        match self.policy {
            Policy::Uniform => self.rng.usize(n),
            Policy::Fifo => 0,
            Policy::Lifo => {
                if ntasks > 0 {
                    ntasks - 1
                } else {
                    n - 1
                }
            }
            Policy::TasksFirst => among(&mut self.rng, &|k| (k as u8) < 3),
            Policy::NetFirst => among(&mut self.rng, &|k| (k as u8) >= 3),
            Policy::AppFirst => among(&mut self.rng, &|k| k == Kind::App),
            Policy::DriverFirst => among(&mut self.rng, &|k| matches!(k, Kind::EpDriver | Kind::ConnDriver)),
        }
    }

    /// Earliest future event time (in-flight delivery or armed timer).
    fn next_event_ns(&self) -> Option<u64> {
        let mut best: Option<u64> = None;
        {
            let n = self.sh.net.lock().unwrap();
            for d in &n.inflight {
                best = Some(best.map_or(d.deliver_at, |b| b.min(d.deliver_at)));
            }
        }
        {
            let t = self.sh.timers.lock().unwrap();
            for s in t.iter() {
                if s.alive && s.waker.is_some() {
                    best = Some(best.map_or(s.deadline_ns, |b| b.min(s.deadline_ns)));
                }
            }
        }
        best
    }

    pub fn armed_timers(&self) -> usize {
        self.sh.timers.lock().unwrap().iter().filter(|s| s.alive && s.waker.is_some()).count()
    }

    /// Run until `done()` holds, the world is stuck, or a cap is hit. `on_quiescent` is invoked at
    /// every quiescent point (no runnable task, no datagram in flight, no blocked sender).
    pub fn run(
        &mut self,
        max_steps: u64,
        max_ns: u64,
        done: &mut dyn FnMut(&mut Exec) -> bool,
        on_quiescent: &mut dyn FnMut(&mut Exec),
    ) -> RunEnd {
        loop {
            self.drain_spawned();
            if done(self) {
                return RunEnd::Done;
            }
            if self.steps >= max_steps {
                return RunEnd::StepCap;
            }
            if self.steps % 256 == 0 && (self.wall_start.elapsed() > self.wall_cap || STOP_ALL.load(Ordering::Relaxed)) {
                return RunEnd::WallCap;
            }
            if self.steps % 64 == 0 && self.sh.net.lock().unwrap().inflight.len() > 20_000 {
                // a packet storm (not this property's subject) would make the run quadratic
                return RunEnd::StepCap;
            }
            let (ch, ntasks) = self.choices();
            if ch.is_empty() {
                let inflight = self.sh.net.lock().unwrap().inflight.len();
                if inflight == 0 {
                    // Quiescent point. From a quiescent state only an external event (delivery,
                    // timer, sender unblock, clock jump) or the effects of our own probe polls can
                    // cause further activity, so the oracles run once per external event: running
                    // them again on probe-induced activity could livelock (a spurious poll may
                    // legitimately wake a driver that has nothing to do).
                    let sig = (self.stats.deliveries + self.stats.timer_fires + self.stats.unblocks + self.stats.clock_jumps, self.stats.tasks_spawned);
                    if sig != self.last_q_sig || self.rerun_hook {
                        self.rerun_hook = false;
                        self.last_q_sig = sig;
                        self.stats.quiescent_points += 1;
                        on_quiescent(self);
                        self.drain_spawned();
                        if self.has_ready() {
                            continue;
                        }
                        if done(self) {
                            return RunEnd::Done;
                        }
                    }
                }
                match self.next_event_ns() {
                    None => return RunEnd::Stuck,
                    Some(t) => {
                        if t > max_ns {
                            return RunEnd::TimeCap;
                        }
                        let now = self.now_ns();
                        if t > now {
                            self.sh.now_ns.store(t, Ordering::Relaxed);
                            self.stats.clock_jumps += 1;
                            self.tr(|| format!("t={t:>12} clock jump (+{} us)", (t - now) / 1000));
                        }
                        continue;
                    }
                }
            }
            self.steps += 1;
            let i = self.pick(&ch, ntasks);
            match ch[i] {
                Choice::Task(id) => {
                    let cause = {
                        let mut r = self.sh.ready.lock().unwrap();
                        if let Some(p) = r.q.iter().position(|x| *x == id) {
                            r.q.remove(p);
                        }
                        r.queued[id] = false;
                        Kind::from_u8(r.cause[id])
                    };
                    self.poll_task(id, cause, false);
                }
                Choice::Deliver(k) => {
                    self.sh.set_cause(Kind::Net);
                    let (w, desc) = self.sh.net.lock().unwrap().deliver(k);
                    self.stats.deliveries += 1;
                    let now = self.now_ns();
                    self.tr(|| format!("t={now:>12} net   deliver {desc}"));
                    if let Some(w) = w {
                        w.wake();
                    }
                    self.sh.set_cause(Kind::Harness);
                    self.fp = hash64(self.fp, &[&[Kind::Net as u8, 0xFF]]);
                }
                Choice::Timer(k) => {
                    self.sh.set_cause(Kind::Timer);
                    let w = self.sh.timers.lock().unwrap()[k].waker.take();
                    self.stats.timer_fires += 1;
                    let now = self.now_ns();
                    self.tr(|| format!("t={now:>12} timer fire #{k}"));
                    if let Some(w) = w {
                        w.wake();
                    }
                    self.sh.set_cause(Kind::Harness);
                    self.fp = hash64(self.fp, &[&[Kind::Timer as u8, 0xFF]]);
                }
                Choice::Unblock(k) => {
                    self.sh.set_cause(Kind::Unblock);
                    let w = self.sh.net.lock().unwrap().unblock(k);
                    self.stats.unblocks += 1;
                    if let Some(w) = w {
                        w.wake();
                    }
                    self.sh.set_cause(Kind::Harness);
                    self.fp = hash64(self.fp, &[&[Kind::Unblock as u8, 0xFF]]);
                }
            }
        }
    }

    /// Drop every remaining task (end of a case); returns how many were still alive.
    pub fn abandon(&mut self) -> usize {
        let mut n = 0;
        for t in &mut self.tasks {
            if t.fut.take().is_some() {
                n += 1;
            }
        }
        self.sh.spawned.lock().unwrap().clear();
        n
    }
}
