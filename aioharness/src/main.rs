//! qvaio: runtime monitor for property C18 (quinn's async API: no lost wakeups, cancellation
//! safety, clean teardown). See /verif/DESIGN.md section 4 "C18" and NOTES.md in this directory.
#![allow(dead_code)]

mod env;
mod exec;
mod flow;
mod net;
mod plan;
mod prog;
mod real;
mod sim;
mod zrtt;

use std::{
    collections::BTreeMap,
    process::Command,
    sync::Mutex,
    time::{Duration, Instant},
};

use qv::check::{self, finish, run_group, CaseOut, Ctx, Finish, Group, Report, Tier};
use serde_json::{json, Value};

use plan::{Flavor, Plan};

fn usage() -> ! {
    eprintln!("usage: qvaio check C18 [--tier quick|thorough] [--seed N] [--threads N] [--replay FILE]");
    eprintln!("       qvaio real --cases N --seed N [--batch N]      (real-scheduler lane worker; used under TSan/ASan)");
    eprintln!("       qvaio one <flavor|scripted:NAME> <case-seed>  (run one deterministic world with a trace)");
    std::process::exit(2)
}

thread_local! {
    /// set on case threads: where a panic is reported instead of unwinding
    static CASE_TX: std::cell::RefCell<Option<std::sync::mpsc::Sender<Result<CaseOut, (String, String)>>>> = const { std::cell::RefCell::new(None) };
}

/// A panic inside quinn while a lock is held poisons it, and the Drop impls that run during
/// unwinding would panic again and abort the whole process. Case threads therefore never unwind:
/// the hook reports the panic to the runner and parks the thread for good (its single-threaded
/// world is leaked, which is safe because nothing else references it).
fn install_hook() {
    std::panic::set_hook(Box::new(|info| {
        let loc = info.location().map(|l| format!("{}:{}", l.file(), l.line())).unwrap_or_default();
        let msg = if let Some(s) = info.payload().downcast_ref::<&str>() {
            s.to_string()
        } else if let Some(s) = info.payload().downcast_ref::<String>() {
            s.clone()
        } else {
            "<non-string panic>".to_string()
        };
        let tx = CASE_TX.with(|c| c.borrow_mut().take());
        match tx {
            Some(tx) => {
                let _ = tx.send(Err((loc, msg)));
                loop {
                    std::thread::park();
                }
            }
            None => eprintln!("panic outside a case thread at {loc}: {msg}"),
        }
    }));
}

fn isolated(trace: bool, f: impl FnOnce(sim::SimOpts) -> CaseOut + Send + 'static) -> CaseOut {
    let (tx, rx) = std::sync::mpsc::channel();
    let sink: exec::TraceSink = Default::default();
    let mut o = sim::SimOpts::default();
    o.trace = trace;
    o.sink = Some(sink.clone());
    let tx2 = tx.clone();
    let h = std::thread::Builder::new().stack_size(8 << 20).spawn(move || {
        CASE_TX.with(|c| *c.borrow_mut() = Some(tx2.clone()));
        let out = f(o);
        CASE_TX.with(|c| *c.borrow_mut() = None);
        let _ = tx2.send(Ok(out));
    });
    drop(tx);
    if let Err(e) = h {
        let mut out = CaseOut::default();
        out.inconclusive = Some(format!("cannot spawn case thread: {e}"));
        return out;
    }
    match rx.recv() {
        Ok(Ok(out)) => thin_known(out),
        Ok(Err((loc, msg))) => {
            let mut out = CaseOut::default();
            if check::panic_in_sut(&loc) {
                out.viol.push(qv::app::Violation { prop: "C18", msg: format!("panic in code under test at {loc}: {msg}") });
                out.cnt.inc("panic.in_code_under_test");
            } else {
                out.inconclusive = Some(format!("harness panic at {loc}: {msg}"));
                out.cnt.inc("panic.in_harness");
            }
            if trace {
                out.trace = Some(sink.lock().unwrap().clone());
            }
            out
        }
        Err(_) => {
            let mut out = CaseOut::default();
            out.inconclusive = Some("case thread vanished".into());
            out
        }
    }
}

/// The runner keeps at most 200 violations per run; occurrences of already-known findings (which
/// fire in several percent of all worlds) must not crowd out new ones. Only the first few hits of
/// each known signature are passed on (so that `finish` prints its KNOWN-FINDING line); the rest are
/// counted.
fn thin_known(mut out: CaseOut) -> CaseOut {
    use std::sync::{atomic::{AtomicU64, Ordering}, OnceLock};
    static KNOWN: OnceLock<Vec<(check::Known, AtomicU64)>> = OnceLock::new();
    let known = KNOWN.get_or_init(|| {
        let verif = std::env::var("QV_VERIF_DIR").unwrap_or_else(|_| "/verif".to_string());
        check::load_known(&format!("{verif}/known_findings.json")).into_iter().filter(|k| k.property == "C18").map(|k| (k, AtomicU64::new(0))).collect()
    });
    let mut keep = vec![];
    for v in out.viol.drain(..) {
        let sig = check::normalize(&v.msg);
        match known.iter().position(|(k, _)| v.prop == "C18" && sig.contains(&k.signature)) {
            Some(i) => {
                out.cnt.inc(qv::check::common::leak_prefixed("known_finding_hits.", &i.to_string()));
                if known[i].1.fetch_add(1, Ordering::Relaxed) < 3 {
                    keep.push(v);
                }
            }
            None => keep.push(v),
        }
    }
    out.viol = keep;
    out
}

fn det_case(flavor: Flavor, seed: u64, trace: bool) -> CaseOut {
    isolated(trace, move |o| sim::run_case(Plan::random(seed, flavor), &o))
}

fn scripted_case(which: &'static str, seed: u64, trace: bool) -> CaseOut {
    if which == "zero_rtt_open" {
        return isolated(trace, move |o| zrtt::run_zero_rtt(seed, &o));
    }
    if which == "zero_rtt_rejected" {
        return isolated(trace, move |o| zrtt::run_zero_rtt_rejected(seed, &o));
    }
    isolated(trace, move |o| sim::run_case(Plan::scripted(seed, which), &o))
}

/// Worker mode for the real-scheduler lane: prints one JSON summary line.
fn real_worker(cases: u64, seed: u64, batch: usize) -> i32 {
    let t = Instant::now();
    let mut cnt = qv::app::Counters::default();
    let mut viol: Vec<String> = vec![];
    let mut inconclusive = 0u64;
    let mut evals = 0u64;
    let mut nontrivial = 0u64;
    let mut samples = vec![];
    let mut i = 0;
    while i < cases {
        let n = (cases - i).min(batch as u64);
        let plans: Vec<Plan> = (i..i + n).map(|j| Plan::random(qv::util::hash64(seed, &[b"real", &j.to_le_bytes()]), Flavor::Real)).collect();
        let rt = real::runtime(4);
        let outs = real::run_batch(&rt, plans, Duration::from_secs(60));
        rt.shutdown_timeout(Duration::from_secs(2));
        for o in outs {
            evals += 1;
            cnt.merge(&o.cnt);
            if o.nontrivial {
                nontrivial += 1;
            }
            if let Some(r) = o.inconclusive {
                inconclusive += 1;
                eprintln!("real lane inconclusive world: {r}");
            }
            if !o.viol.is_empty() && std::env::var("QVAIO_DEBUG").is_ok() {
                eprintln!("WORLD with violations: {}\n  first: {}", o.sample.clone().unwrap_or_default(), o.viol[0].msg);
            }
            for v in o.viol {
                viol.push(v.msg);
            }
            if samples.len() < 2 {
                if let Some(s) = o.sample {
                    samples.push(s);
                }
            }
        }
        i += n;
    }
    let out = json!({"worlds": evals, "nontrivial": nontrivial, "inconclusive": inconclusive, "violations": viol, "counters": cnt.m, "samples": samples, "wall_s": t.elapsed().as_secs_f64()});
    println!("REAL-LANE-RESULT {out}");
    if viol.is_empty() {
        0
    } else {
        1
    }
}

/// Run a sanitizer build of this binary as a child process and fold its result into the report.
fn sanitizer_lane(name: &'static str, bin: &str, cases: u64, seed: u64, rep: &mut Report, log_dir: &str) {
    let t = Instant::now();
    let _ = std::fs::create_dir_all(log_dir);
    let log_prefix = format!("{log_dir}/{name}");
    for e in std::fs::read_dir(log_dir).into_iter().flatten().flatten() {
        if e.file_name().to_string_lossy().starts_with(name) {
            let _ = std::fs::remove_file(e.path());
        }
    }
    let mut cmd = Command::new(bin);
    cmd.args(["real", "--cases", &cases.to_string(), "--seed", &seed.to_string(), "--batch", "6"]);
    match name {
        "tsan" => {
            let supp = format!("{}/aioharness/tsan.supp", std::env::var("QV_VERIF_DIR").unwrap_or_else(|_| "/verif".to_string()));
            cmd.env("TSAN_OPTIONS", format!("halt_on_error=0:exitcode=66:log_path={log_prefix}:second_deadlock_stack=1:suppressions={supp}"));
        }
        _ => {
            cmd.env("ASAN_OPTIONS", format!("halt_on_error=1:detect_leaks=0:exitcode=67:log_path={log_prefix}"));
        }
    }
    let out = cmd.output();
    let mut lane = json!({"binary": bin, "worlds_requested": cases});
    match out {
        Err(e) => {
            rep.inconclusive.push(format!("{name} lane: cannot run {bin}: {e}"));
            rep.cnt.inc("sanitizer.lane_failed");
            lane["error"] = json!(e.to_string());
        }
        Ok(o) => {
            let code = o.status.code();
            let stdout = String::from_utf8_lossy(&o.stdout);
            let stderr = String::from_utf8_lossy(&o.stderr);
            // count sanitizer report blocks in the log files
            let mut reports = 0u64;
            let mut first = String::new();
            for e in std::fs::read_dir(log_dir).into_iter().flatten().flatten() {
                if e.file_name().to_string_lossy().starts_with(name) {
                    let s = std::fs::read_to_string(e.path()).unwrap_or_default();
                    for l in s.lines() {
                        if l.contains("WARNING: ThreadSanitizer") || l.contains("ERROR: AddressSanitizer") {
                            reports += 1;
                            if first.is_empty() {
                                first = format!("{l} (log {})", e.path().display());
                            }
                        }
                    }
                }
            }
            for l in stderr.lines() {
                if l.contains("WARNING: ThreadSanitizer") || l.contains("ERROR: AddressSanitizer") {
                    reports += 1;
                    if first.is_empty() {
                        first = l.to_string();
                    }
                }
            }
            lane["exit_code"] = json!(code);
            lane["sanitizer_reports"] = json!(reports);
            let res = stdout.lines().find_map(|l| l.strip_prefix("REAL-LANE-RESULT ")).and_then(|j| serde_json::from_str::<Value>(j).ok());
            match res {
                Some(v) => {
                    let worlds = v["worlds"].as_u64().unwrap_or(0);
                    let inc = v["inconclusive"].as_u64().unwrap_or(0);
                    lane["worlds"] = json!(worlds);
                    lane["inconclusive_worlds"] = json!(inc);
                    lane["operations"] = v["counters"].clone();
                    rep.cnt.add(if name == "tsan" { "sanitizer.tsan_worlds" } else { "sanitizer.asan_worlds" }, worlds - inc.min(worlds));
                    if let Some(a) = v["violations"].as_array() {
                        for m in a {
                            rep.violations.push((name.to_string(), 0, seed, qv::app::Violation { prop: "C18", msg: format!("[{name} build] {}", m.as_str().unwrap_or("")) }));
                        }
                    }
                }
                None => {
                    if reports == 0 {
                        rep.inconclusive.push(format!("{name} lane: worker produced no result (exit {code:?}); stderr tail: {}", stderr.lines().rev().take(3).collect::<Vec<_>>().join(" / ")));
                        rep.cnt.inc("sanitizer.lane_failed");
                    }
                }
            }
            if reports > 0 || code == Some(66) || code == Some(67) {
                rep.violations.push((
                    name.to_string(),
                    0,
                    seed,
                    qv::app::Violation { prop: "C18", msg: format!("{name}: {reports} sanitizer report(s) on the real-scheduler lane (exit {code:?}); first: {first}") },
                ));
            }
            rep.cnt.add(if name == "tsan" { "sanitizer.tsan_reports" } else { "sanitizer.asan_reports" }, reports);
        }
    }
    lane["wall_s"] = json!(t.elapsed().as_secs_f64());
    rep.extra.insert(format!("lane_{name}"), lane);
}

fn run_check(ctx: &Ctx) -> i32 {
    let t = Instant::now();
    let mut rep = Report::default();
    let q = ctx.tier == Tier::Quick;
    // directed histories first (the two suspects of DESIGN section 3): always exercised
    for (name, which) in [("scripted-received-reset-cancel", "rr_cancel"), ("scripted-stopped-cancel-reset", "stopped_cancel_reset"), ("scripted-plain", "plain"), ("scripted-zero-rtt-open", "zero_rtt_open"), ("scripted-zero-rtt-rejected", "zero_rtt_rejected")] {
        let g = Group { name, cases: ctx.tier.pick(30, 300), budget_s: 60.0, exhaustive: false };
        run_group(ctx, &mut rep, &g, |_, seed, trace| scripted_case(which, seed, trace));
    }
    let groups: [(&'static str, Flavor, u64, f64); 4] = [
        ("det-clean", Flavor::Clean, ctx.tier.pick(3000, 150_000), ctx.tier.pick(20.0, 330.0)),
        ("det-faulty", Flavor::Faulty, ctx.tier.pick(3000, 150_000), ctx.tier.pick(20.0, 330.0)),
        ("det-teardown", Flavor::Teardown, ctx.tier.pick(2000, 100_000), ctx.tier.pick(15.0, 220.0)),
        ("det-blocked", Flavor::Blocked, ctx.tier.pick(2000, 100_000), ctx.tier.pick(15.0, 250.0)),
    ];
    for (name, flavor, cases, budget) in groups {
        let g = Group { name, cases, budget_s: budget, exhaustive: false };
        run_group(ctx, &mut rep, &g, |_, seed, trace| det_case(flavor, seed, trace));
    }
    let det_fps = rep.fps.len();
    // real scheduler, plain build (integrity and teardown oracles only)
    if ctx.replay.is_none() {
        let worlds = ctx.tier.pick(24, 240);
        let res = Mutex::new(vec![]);
        let batches: Vec<u64> = (0..worlds / 6).collect();
        std::thread::scope(|s| {
            for chunk in batches.chunks(batches.len().div_ceil(4).max(1)) {
                let res = &res;
                s.spawn(move || {
                    for &b in chunk {
                        let plans: Vec<Plan> = (0..6).map(|j| Plan::random(qv::util::hash64(ctx.seed, &[b"realplain", &(b * 6 + j).to_le_bytes()]), Flavor::Real)).collect();
                        let rt = real::runtime(4);
                        let outs = real::run_batch(&rt, plans, Duration::from_secs(60));
                        rt.shutdown_timeout(Duration::from_secs(2));
                        res.lock().unwrap().extend(outs);
                    }
                });
            }
        });
        let mut worlds_ok = 0u64;
        for o in res.into_inner().unwrap() {
            rep.evaluations += 1;
            rep.cnt.merge(&o.cnt);
            if let Some(i) = o.inconclusive {
                rep.inconclusive.push(format!("real#: {i}"));
                rep.cnt.inc("inconclusive_cases");
            } else {
                worlds_ok += 1;
            }
            for v in o.viol {
                rep.violations.push(("real".into(), 0, ctx.seed, v));
            }
            if worlds_ok == 1 {
                if let Some(s) = o.sample {
                    rep.samples.push(s);
                }
            }
        }
        rep.extra.insert("lane_real_plain".into(), json!({"worlds": worlds_ok}));
        // sanitizer builds (set by run_c18)
        let verif = std::env::var("QV_VERIF_DIR").unwrap_or_else(|_| "/verif".to_string());
        let log_dir = format!("{verif}/evidence/replays/C18-sanitizer-logs");
        for (name, var) in [("tsan", "QVAIO_TSAN_BIN"), ("asan", "QVAIO_ASAN_BIN")] {
            match std::env::var(var) {
                Ok(bin) if !bin.is_empty() => sanitizer_lane(name, &bin, ctx.tier.pick(30, 1500), ctx.seed, &mut rep, &log_dir),
                _ => {
                    rep.extra.insert(format!("lane_{name}"), json!({"status": if q { "not part of the quick tier" } else { "not run: sanitizer binary not provided (run through /verif/run_c18)" }}));
                }
            }
        }
    }
    // per-kind tables for the evidence file
    let mut cancels: BTreeMap<String, u64> = BTreeMap::new();
    let mut done: BTreeMap<String, u64> = BTreeMap::new();
    for (k, v) in &rep.cnt.m {
        if let Some(x) = k.strip_prefix("cancel.") {
            cancels.insert(x.to_string(), *v);
        }
        if let Some(x) = k.strip_prefix("op.done.") {
            done.insert(x.to_string(), *v);
        }
    }
    rep.extra.insert("distinct_interleaving_fingerprints".into(), json!(det_fps));
    rep.extra.insert("operations_completed_by_kind".into(), json!(done));
    rep.extra.insert("cancellations_by_kind".into(), json!(cancels));
    rep.extra.insert(
        "oracle_activity".into(),
        json!({
            "census_connection_checks": rep.cnt.get("census.connections_checked"),
            "census_keys_checked": rep.cnt.get("census.keys_checked"),
            "spurious_poll_probes": rep.cnt.get("probe.spurious_polls"),
            "probe_still_pending": rep.cnt.get("probe.still_pending"),
            "quiescent_points": rep.cnt.get("exec.quiescent_points"),
            "teardowns_checked": rep.cnt.get("teardown.checked"),
            "peer_close_seen": rep.cnt.get("teardown.peer_close_seen"),
            "drop_seen_as_close0": rep.cnt.get("teardown.drop_seen_as_close0"),
            "drop_seen_as_finish": rep.cnt.get("teardown.drop_seen_as_finish"),
            "stop0_seen_by_writer": rep.cnt.get("teardown.stop0_seen_by_writer"),
            "integrity_bytes": rep.cnt.get("integrity.bytes"),
            "tsan_reports": rep.cnt.get("sanitizer.tsan_reports"),
            "asan_reports": rep.cnt.get("sanitizer.asan_reports"),
        }),
    );
    let mut required = vec![
        "census.connections_checked",
        "census.keys_checked",
        "probe.spurious_polls",
        "probe.still_pending",
        "teardown.checked",
        "teardown.peer_close_seen",
        "teardown.drop_seen_as_close0",
        "teardown.drop_seen_as_finish",
        "teardown.stop0_seen_by_writer",
        "teardown.wait_idle_resolved",
        "integrity.bytes",
        "integrity.eos",
        "cancel.read",
        "cancel.write",
        "cancel.accept_uni",
        "cancel.read_datagram",
        "cancel.received_reset",
        "cancel.stopped",
        "net.loss",
        "net.gro_batches",
        "real.worlds",
    ];
    if std::env::var("QVAIO_TSAN_BIN").map(|s| !s.is_empty()).unwrap_or(false) {
        required.push("sanitizer.tsan_worlds");
    }
    if std::env::var("QVAIO_ASAN_BIN").map(|s| !s.is_empty()).unwrap_or(false) {
        required.push("sanitizer.asan_worlds");
    }
    finish(
        ctx,
        &rep,
        Finish {
            level: "exploration",
            rule: "seeded worlds (1 server endpoint, 1-3 client endpoints, 1-2 sequential connections each; uni/bi flows with self-identifying payloads; datagrams; closed/accept/read_datagram watchers) executed on a deterministic single-threaded executor whose seeded scheduler picks among ready tasks (endpoint drivers, connection drivers, application tasks), due datagram deliveries, due virtual timers and back-pressured senders, over an in-memory network with loss/dup/reorder/GRO/GSO; every pending operation may carry a seeded cancel point (future dropped after j polls) and handles are dropped at seeded points; plus three directed histories and a real-scheduler lane (multi-thread tokio over loopback, optionally under TSan/ASan). A case is non-trivial if at least one tracked quinn operation completed; distinct = distinct interleaving fingerprint (hash of the (task kind, wake cause) sequence of the whole run, including network/timer events).".into(),
            assumptions: vec![
                "the null crypto session replaces TLS behind quinn's public crypto traits; quinn's async layer is unchanged".into(),
                "a registration is stale only if it outlives both its future and the handle (or protocol stream half) it belongs to; registrations that linger while the handle is alive are counted, not flagged".into(),
                "lost-wakeup probe is sound because a spurious poll is always legal for a Future and re-registers the task's own waker".into(),
                "hook H4 (quinn feature `verif`) only reads the waker maps".into(),
            ],
            min_evals: ctx.tier.pick(800, 30_000),
            min_nontrivial: ctx.tier.pick(500, 20_000),
            required: if ctx.replay.is_some() { vec![] } else { required },
            exhaustive: false,
        },
        t.elapsed().as_secs_f64(),
    )
}

fn main() {
    let args: Vec<String> = std::env::args().collect();
    if args.len() < 2 {
        usage();
    }
    install_hook();
    match args[1].as_str() {
        "real" => {
            let mut cases = 10;
            let mut seed = 1;
            let mut batch = 6;
            let mut i = 2;
            while i + 1 < args.len() {
                match args[i].as_str() {
                    "--cases" => cases = args[i + 1].parse().unwrap_or(10),
                    "--seed" => seed = args[i + 1].parse().unwrap_or(1),
                    "--batch" => batch = args[i + 1].parse().unwrap_or(6),
                    _ => usage(),
                }
                i += 2;
            }
            std::process::exit(real_worker(cases, seed, batch));
        }
        "one" => {
            if args.len() < 4 {
                usage();
            }
            let seed: u64 = args[3].parse().unwrap_or(1);
            if std::env::var("RUST_LOG").is_ok() {
                // quinn's own trace output, for diagnosing a replayed case
                let _ = tracing_subscriber::fmt().with_env_filter(tracing_subscriber::EnvFilter::from_default_env()).without_time().with_writer(std::io::stdout).try_init();
            }
            let out = match args[2].as_str() {
                "clean" => det_case(Flavor::Clean, seed, true),
                "faulty" => det_case(Flavor::Faulty, seed, true),
                "teardown" => det_case(Flavor::Teardown, seed, true),
                "blocked" => det_case(Flavor::Blocked, seed, true),
                s if s.starts_with("scripted:") => {
                    let which: &'static str = Box::leak(s["scripted:".len()..].to_string().into_boxed_str());
                    scripted_case(which, seed, true)
                }
                _ => usage(),
            };
            let quiet = std::env::var("QVAIO_QUIET").is_ok();
            if !quiet {
                for l in out.trace.iter().flatten() {
                    println!("TRACE {l}");
                }
            }
            println!("SAMPLE {}", out.sample.unwrap_or_default());
            println!("COUNTERS {}", serde_json::to_string(&out.cnt.m).unwrap());
            for v in &out.viol {
                println!("VIOLATION-DETAIL {}", v.msg);
            }
            if let Some(i) = out.inconclusive {
                println!("INCONCLUSIVE {i}");
            }
            std::process::exit(if out.viol.is_empty() { 0 } else { 1 });
        }
        "seed" => {
            // qvaio seed <group> <index> <run-seed>: the case seed used by `check`
            let ctx = Ctx { prop: "C18", tier: Tier::Quick, seed: args[4].parse().unwrap_or(1), threads: 1, replay: None, verbose: false };
            println!("{}", check::case_seed(&ctx, &args[2], args[3].parse().unwrap_or(0)));
            std::process::exit(0);
        }
        "check" => {}
        _ => usage(),
    }
    if args.len() < 3 || args[2] != "C18" {
        usage();
    }
    let mut tier = match std::env::var("VERIF_TIER").as_deref() {
        Ok("thorough") => Tier::Thorough,
        _ => Tier::Quick,
    };
    let mut seed: u64 = std::env::var("VERIF_SEED").ok().and_then(|s| s.parse().ok()).unwrap_or(1);
    let mut threads = std::thread::available_parallelism().map(|n| n.get()).unwrap_or(8);
    let mut replay = None;
    let mut i = 3;
    while i < args.len() {
        match args[i].as_str() {
            "--tier" => {
                i += 1;
                tier = if args.get(i).map(|s| s.as_str()) == Some("thorough") { Tier::Thorough } else { Tier::Quick };
            }
            "--seed" => {
                i += 1;
                seed = args.get(i).and_then(|s| s.parse().ok()).unwrap_or(1);
            }
            "--threads" => {
                i += 1;
                threads = args.get(i).and_then(|s| s.parse().ok()).unwrap_or(threads);
            }
            "--replay" => {
                i += 1;
                let s = std::fs::read_to_string(&args[i]).expect("read replay file");
                let v: Value = serde_json::from_str(&s).expect("parse replay file");
                replay = Some((v["group"].as_str().unwrap().to_string(), v["case_index"].as_u64().unwrap(), v["case_seed"].as_u64().unwrap()));
                if let Some(rs) = v["run_seed"].as_u64() {
                    seed = rs;
                }
                if v["tier"].as_str() == Some("thorough") {
                    tier = Tier::Thorough;
                }
            }
            _ => usage(),
        }
        i += 1;
    }
    let ctx = Ctx { prop: "C18", tier, seed, threads, replay, verbose: false };
    std::process::exit(run_check(&ctx));
}
