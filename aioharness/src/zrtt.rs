//! Directed 0-RTT history: a client resumes with a ticket that remembers a stream limit of zero,
//! issues open_bi()/open_uni() on the 0-RTT connection, and the server's handshake then raises the
//! limit. The pending open must complete once the handshake does.

use std::{
    net::SocketAddr,
    sync::{
        atomic::{AtomicUsize, Ordering},
        Arc,
    },
};

use qv::{
    app::Violation,
    cfg::CcShared,
    check::CaseOut,
    nullcrypto::{NullClientConfig, NullServerConfig, NullShared, NullTokenKey},
    util::{payload_check, payload_fill},
};
use serde_json::json;

use crate::{
    env::{ck, Env, Mode, OpKind, OpRes},
    exec::{Exec, Kind, RunEnd, VRuntime},
    net::{Net, VSocket},
    plan::Plan,
    sim::{endpoint_config, quiescent_oracles, SimOpts},
};

pub fn run_zero_rtt(seed: u64, opts: &SimOpts) -> CaseOut {
    run_zero_rtt_with(seed, opts, false)
}

/// Second directed history (`rejected`): the client writes on an early stream, the server rejects
/// early data, the client opens a fresh stream - which gets the early stream's id - and drops its
/// stale early handle in the middle of writing the fresh one. The fresh stream must be unaffected:
/// every write succeeds and the server reads exactly what was written to it.
pub fn run_zero_rtt_rejected(seed: u64, opts: &SimOpts) -> CaseOut {
    run_zero_rtt_with(seed, opts, true)
}

fn run_zero_rtt_with(seed: u64, opts: &SimOpts, rejected: bool) -> CaseOut {
    let plan = Arc::new(Plan::scripted(seed, "zero_rtt_open"));
    let net = Net::new(plan.net.clone(), seed);
    let mut ex = Exec::new(seed, plan.policy, net);
    ex.wall_cap = opts.wall_cap;
    let env = Env::new(Mode::Det(ex.sh.clone()), 2, opts.trace, opts.sink.clone());
    if opts.trace {
        ex.trace = Some(env.trace.clone());
    }
    let shared = NullShared::new(seed);
    let mk_server = |streams: u64| {
        let mut tc = plan.tc[1].clone();
        tc.max_bidi = streams;
        tc.max_uni = streams;
        let mut sc = quinn::ServerConfig::new(Arc::new(NullServerConfig { shared: shared.clone() }), Arc::new(NullTokenKey(seed ^ 0x70)));
        sc.transport_config(Arc::new(tc.build(CcShared::new())));
        sc
    };
    let sc_zero = mk_server(if rejected { 8 } else { 0 });
    let sc_open = Arc::new(mk_server(8));
    let mut cc = quinn::ClientConfig::new(Arc::new(NullClientConfig { shared: shared.clone() }));
    cc.transport_config(Arc::new(plan.tc[0].build(CcShared::new())));
    let server_addr: SocketAddr = "10.0.0.1:4433".parse().unwrap();
    let client_addr: SocketAddr = "10.0.1.1:5000".parse().unwrap();
    let sep = quinn::Endpoint::new_with_abstract_socket(endpoint_config(seed, 0), Some(sc_zero), VSocket::bind(&ex.sh, server_addr), VRuntime::new(ex.sh.clone(), 0)).expect("server endpoint");
    let cep = quinn::Endpoint::new_with_abstract_socket(endpoint_config(seed, 1), None, VSocket::bind(&ex.sh, client_addr), VRuntime::new(ex.sh.clone(), 1)).expect("client endpoint");
    let left = Arc::new(AtomicUsize::new(2));
    let key = qv::util::hash64(seed, &[b"0rtt-flow"]);
    let bi = seed % 2 == 0 && !rejected;

    // server
    {
        let (env, left) = (env.clone(), left.clone());
        ex.sh.spawn(
            Kind::App,
            "server.main".into(),
            Box::pin(async move {
                let OpRes::Done(Some(inc)) = env.op(OpKind::Accept, usize::MAX, None, None, sep.accept()).await else { return };
                let OpRes::Done(Ok(c1)) = env.op(OpKind::Connect, ck(0, 1), None, None, inc.accept().expect("accept 1")).await else {
                    env.violate("first handshake failed on the server".into());
                    return;
                };
                let _ = env.op(OpKind::Closed, ck(0, 1), None, None, c1.closed()).await;
                drop(c1);
                let OpRes::Done(Some(inc)) = env.op(OpKind::Accept, usize::MAX, None, None, sep.accept()).await else { return };
                let OpRes::Done(Ok(c2)) = env.op(OpKind::Connect, ck(1, 1), None, None, inc.accept_with(sc_open).expect("accept 2")).await else {
                    env.violate("second handshake failed on the server".into());
                    return;
                };
                env.inc("zrtt.server_established");
                let data = if bi {
                    match env.op(OpKind::AcceptBi, ck(1, 1), None, None, c2.accept_bi()).await {
                        OpRes::Done(Ok((_s, mut r))) => env.op(OpKind::ReadToEnd, ck(1, 1), None, None, r.read_to_end(1 << 20)).await,
                        _ => OpRes::Cancelled,
                    }
                } else {
                    match env.op(OpKind::AcceptUni, ck(1, 1), None, None, c2.accept_uni()).await {
                        OpRes::Done(Ok(mut r)) => env.op(OpKind::ReadToEnd, ck(1, 1), None, None, r.read_to_end(1 << 20)).await,
                        _ => OpRes::Cancelled,
                    }
                };
                if let OpRes::Done(Ok(v)) = data {
                    if v.len() != 3000 || payload_check(key, 0, &v).is_some() {
                        env.violate(format!("integrity: stream opened after 0-RTT{} delivered {} bytes that differ from the 3000 written", if rejected { " was rejected" } else { "" }, v.len()));
                    } else {
                        env.inc("zrtt.stream_delivered");
                    }
                }
                let _ = env.op(OpKind::Closed, ck(1, 1), None, None, c2.closed()).await;
                drop(c2);
                drop(sep);
                left.fetch_sub(1, Ordering::SeqCst);
            }),
        );
    }
    // client
    {
        let (env, left) = (env.clone(), left.clone());
        let shared_c = shared.clone();
        ex.sh.spawn(
            Kind::App,
            "client.main".into(),
            Box::pin(async move {
                let connecting = cep.connect_with(cc.clone(), server_addr, "srv").expect("connect 1");
                let OpRes::Done(Ok(c1)) = env.op(OpKind::Connect, ck(0, 0), None, None, connecting).await else {
                    env.violate("first handshake failed on the client".into());
                    return;
                };
                // wait for the session ticket, then close and let the connection drain
                env.sleep_ns(500_000_000).await;
                c1.close(0u32.into(), b"");
                drop(c1);
                env.sleep_ns(1_000_000_000).await;
                if rejected {
                    *shared_c.accept_early.lock().unwrap() = false;
                }
                let connecting = cep.connect_with(cc, server_addr, "srv").expect("connect 2");
                let c2 = match connecting.into_0rtt() {
                    Ok(c) => c,
                    Err(_) => {
                        env.harness_error("no 0-RTT ticket available for the second connection".into());
                        return;
                    }
                };
                env.inc("zrtt.into_0rtt_ok");
                if rejected {
                    // an early stream, written before the handshake completes
                    let mut early = match env.op(OpKind::OpenUni, ck(1, 0), None, None, c2.open_uni()).await {
                        OpRes::Done(Ok(s)) => s,
                        _ => {
                            env.harness_error("open_uni on the 0-RTT connection did not complete".into());
                            return;
                        }
                    };
                    let _ = env.op(OpKind::WriteAll, ck(1, 0), None, None, early.write_all(b"early data that the server will refuse")).await;
                    env.sleep_ns(800_000_000).await;
                    match early.write(b"x").await {
                        Err(quinn::WriteError::ZeroRttRejected) => env.inc("zrtt.rejection_seen"),
                        other => {
                            env.harness_error(format!("early data was not rejected: {other:?}"));
                            return;
                        }
                    }
                    let mut fresh = match env.op(OpKind::OpenUni, ck(1, 0), None, None, c2.open_uni()).await {
                        OpRes::Done(Ok(s)) => s,
                        _ => {
                            env.violate("open_uni after the 0-RTT rejection failed".into());
                            return;
                        }
                    };
                    if fresh.id() == early.id() {
                        env.inc("zrtt.fresh_stream_reuses_early_id");
                    }
                    let mut buf = vec![0u8; 3000];
                    payload_fill(key, 0, &mut buf);
                    if !matches!(env.op(OpKind::WriteAll, ck(1, 0), None, None, fresh.write_all(&buf[..1200])).await, OpRes::Done(Ok(()))) {
                        env.violate("first write on the stream opened after the 0-RTT rejection failed".into());
                    }
                    // the stale handle of the rejected stream goes away in the middle of the message
                    drop(early);
                    env.sleep_ns(50_000_000).await;
                    match env.op(OpKind::WriteAll, ck(1, 0), None, None, fresh.write_all(&buf[1200..])).await {
                        OpRes::Done(Ok(())) => {}
                        OpRes::Done(Err(e)) => env.violate(format!("write on the fresh stream failed with {e:?} after the stale handle of the rejected early stream (same id) was dropped")),
                        OpRes::Cancelled => {}
                    }
                    let _ = fresh.finish();
                    let _ = env.op(OpKind::Stopped, ck(1, 0), None, None, fresh.stopped()).await;
                    c2.close(1u32.into(), b"");
                    drop(fresh);
                    drop(c2);
                    let _ = env.op(OpKind::WaitIdle, usize::MAX, None, None, cep.wait_idle()).await;
                    drop(cep);
                    left.fetch_sub(1, Ordering::SeqCst);
                    return;
                }
                // remembered limit is zero: this open can only complete once the handshake raises it
                let mut send = if bi {
                    let mut op = env.op(OpKind::OpenBi, ck(1, 0), None, None, c2.open_bi());
                    op.ctx = " issued on a 0-RTT connection with an exhausted remembered stream limit";
                    match op.await {
                        OpRes::Done(Ok((s, _r))) => s,
                        OpRes::Done(Err(e)) => {
                            env.violate(format!("open_bi on the resumed connection failed: {e}"));
                            return;
                        }
                        OpRes::Cancelled => return,
                    }
                } else {
                    let mut op = env.op(OpKind::OpenUni, ck(1, 0), None, None, c2.open_uni());
                    op.ctx = " issued on a 0-RTT connection with an exhausted remembered stream limit";
                    match op.await {
                        OpRes::Done(Ok(s)) => s,
                        OpRes::Done(Err(e)) => {
                            env.violate(format!("open_uni on the resumed connection failed: {e}"));
                            return;
                        }
                        OpRes::Cancelled => return,
                    }
                };
                env.inc("zrtt.open_completed");
                let mut buf = vec![0u8; 3000];
                payload_fill(key, 0, &mut buf);
                match env.op(OpKind::WriteAll, ck(1, 0), None, None, send.write_all(&buf)).await {
                    OpRes::Done(Ok(())) => {}
                    other => env.violate(format!("write on the stream opened after 0-RTT failed: {:?}", matches!(other, OpRes::Cancelled))),
                }
                let _ = send.finish();
                let _ = env.op(OpKind::Stopped, ck(1, 0), None, None, send.stopped()).await;
                c2.close(1u32.into(), b"");
                drop(send);
                drop(c2);
                let _ = env.op(OpKind::WaitIdle, usize::MAX, None, None, cep.wait_idle()).await;
                drop(cep);
                left.fetch_sub(1, Ordering::SeqCst);
            }),
        );
    }
    let env_q = env.clone();
    let mut on_q = move |ex: &mut Exec| quiescent_oracles(&env_q, ex);
    let l2 = left.clone();
    let mut done = move |_: &mut Exec| l2.load(Ordering::SeqCst) == 0;
    let end = ex.run(opts.max_steps, 300_000_000_000, &mut done, &mut on_q);
    let mut out = CaseOut::default();
    match end {
        RunEnd::Done => {}
        RunEnd::Stuck => env.violate("stuck: no runnable task, no timer armed, no datagram in flight, 0-RTT workload incomplete".into()),
        other => out.inconclusive = Some(format!("0-RTT world ended with {other:?}")),
    }
    drop(on_q);
    drop(done);
    ex.abandon();
    let mut st = env.st.lock().unwrap();
    out.fp = ex.fp;
    out.cnt.merge(&st.cnt);
    out.cnt.add("exec.polls", ex.stats.polls);
    out.cnt.add("exec.quiescent_points", ex.stats.quiescent_points);
    out.cnt.inc("zrtt.worlds");
    out.nontrivial = st.cnt.get("zrtt.into_0rtt_ok") > 0;
    out.viol = st.viol.drain(..).map(|msg| Violation { prop: "C18", msg }).collect();
    if !st.harness_err.is_empty() {
        out.inconclusive = Some(format!("harness error: {}", st.harness_err.join(" | ")));
    }
    out.sample = Some(json!({"scripted": if rejected { "zero_rtt_rejected" } else { "zero_rtt_open" }, "seed": seed, "dir": if bi { "bi" } else { "uni" }, "end": format!("{end:?}"), "task_polls": ex.stats.polls}));
    if opts.trace {
        out.trace = Some(env.trace.lock().unwrap().clone());
    }
    out
}
