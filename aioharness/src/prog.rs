//! Connection- and endpoint-level application tasks: connect / accept, stream opening and accepting
//! loops, long-lived watchers (closed, read_datagram, parked accepts), the completion barrier, the
//! close / drop variants and endpoint teardown. Runtime-agnostic: the same code runs on the
//! deterministic executor and on multi-thread tokio.

use std::{
    future::Future,
    net::SocketAddr,
    sync::{
        atomic::{AtomicBool, AtomicUsize, Ordering},
        Arc,
    },
    task::Poll,
};

use qv::util::{hash64, Rng};
use quinn::{ConnectionError, VarInt};

use crate::{
    env::{ck, select2, CloseExpect, Either, Env, Flag, Group, OpKind, OpRes, TConn, TRecv, TSend},
    flow::{cancel, dgram_receiver, dgram_sender, reader, writer, Ctx},
    plan::{EpEnd, How, IncomingMode, Plan},
};

pub struct World {
    pub env: Arc<Env>,
    pub plan: Arc<Plan>,
    pub server_addr: SocketAddr,
    pub client_addrs: Vec<SocketAddr>,
    pub ccfg: quinn::ClientConfig,
    pub pair_done: Vec<[Arc<Flag>; 2]>,
    pub cur_pair: Vec<AtomicUsize>,
    pub server_started: Vec<AtomicBool>,
    pub clients_left: AtomicUsize,
    pub all_clients_done: Arc<Flag>,
    pub mains_left: AtomicUsize,
}

fn rng_for(seed: u64, what: &[u8], a: u64, b: u64, c: u64) -> Rng {
    Rng::new(hash64(seed, &[what, &a.to_le_bytes(), &b.to_le_bytes(), &c.to_le_bytes()]))
}

async fn join2(a: impl Future<Output = ()>, b: impl Future<Output = ()>) {
    let mut a = std::pin::pin!(a);
    let mut b = std::pin::pin!(b);
    let (mut da, mut db) = (false, false);
    std::future::poll_fn(move |cx| {
        if !da && a.as_mut().poll(cx).is_ready() {
            da = true;
        }
        if !db && b.as_mut().poll(cx).is_ready() {
            db = true;
        }
        if da && db {
            Poll::Ready(())
        } else {
            Poll::Pending
        }
    })
    .await
}

async fn flow_opener(cx: Arc<Ctx>, conn: TConn, fi: usize, g: Arc<Group>) {
    let env = cx.env.clone();
    let f = cx.plan.pairs[cx.k].flows[fi].clone();
    let mut rng = rng_for(cx.plan.seed, b"opener", cx.k as u64, fi as u64, cx.side as u64);
    let cpct = cx.plan.cancel_pct;
    let (ts, tr) = loop {
        let c = cancel(&mut rng, cpct);
        if f.bi {
            match env.op(OpKind::OpenBi, cx.me, None, c, conn.get().open_bi()).await {
                OpRes::Done(Ok((s, r))) => break (TSend::new(&env, cx.me, s), Some(TRecv::new(&env, cx.me, r))),
                OpRes::Done(Err(e)) => {
                    cx.conn_err(&e, "open_bi");
                    return;
                }
                OpRes::Cancelled => {}
            }
        } else {
            match env.op(OpKind::OpenUni, cx.me, None, c, conn.get().open_uni()).await {
                OpRes::Done(Ok(s)) => break (TSend::new(&env, cx.me, s), None),
                OpRes::Done(Err(e)) => {
                    cx.conn_err(&e, "open_uni");
                    return;
                }
                OpRes::Cancelled => {}
            }
        }
    };
    env.inc("streams.opened");
    drop(conn);
    let wr = rng.fork(1);
    let rr = rng.fork(2);
    match tr {
        None => writer(cx, ts, wr, f.len).await,
        Some(tr) => {
            if rng.bool() {
                g.spawn(&env, format!("c{}{}.bi-reader", cx.k, cx.side), reader(cx.clone(), tr, rr));
                writer(cx, ts, wr, f.len).await
            } else {
                join2(writer(cx.clone(), ts, wr, f.len), reader(cx, tr, rr)).await
            }
        }
    }
}

async fn accept_loop(cx: Arc<Ctx>, conn: TConn, bi: bool, count: usize, g: Arc<Group>, long: Arc<Group>, extra: bool) {
    let env = cx.env.clone();
    let mut rng = rng_for(cx.plan.seed, b"accept", cx.k as u64, bi as u64, cx.side as u64);
    let cpct = cx.plan.cancel_pct;
    let mut next_index = 0u64;
    let mut check_id = |id: quinn::StreamId, cx: &Ctx| {
        let want_init = if cx.side == 0 { quinn::Side::Server } else { quinn::Side::Client };
        if id.initiator() != want_init || (id.dir() == quinn::Dir::Bi) != bi || id.index() != next_index {
            cx.env.violate(format!("accept on conn {} yielded stream {id} but the next {} stream of the peer has index {next_index}", cx.k, if bi { "bi" } else { "uni" }));
        }
        next_index = id.index() + 1;
    };
    let mut i = 0;
    let sibling_mode = !bi && count >= 2 && rng.below(2) == 0;
    let mut sib = None;
    while i < count {
        let c = cancel(&mut rng, cpct);
        if bi {
            match env.op(OpKind::AcceptBi, cx.me, None, c, conn.get().accept_bi()).await {
                OpRes::Done(Ok((s, r))) => {
                    check_id(r.id(), &cx);
                    let ts = TSend::new(&env, cx.me, s);
                    let tr = TRecv::new(&env, cx.me, r);
                    let mut r2 = rng_for(cx.plan.seed, b"acceptor", cx.k as u64, tr.sid, cx.side as u64);
                    let back = (*r2.pick(&[0u64, 1, 50, 1300, 9000])).min(cx.plan.flow_cap);
                    env.inc("streams.accepted");
                    g.spawn(&env, format!("c{}{}.s{}.reader", cx.k, cx.side, tr.sid), reader(cx.clone(), tr, r2.fork(1)));
                    g.spawn(&env, format!("c{}{}.s{}.backwriter", cx.k, cx.side, ts.sid), writer(cx.clone(), ts, r2.fork(2), back));
                    i += 1;
                }
                OpRes::Done(Err(e)) => {
                    cx.conn_err(&e, "accept_bi");
                    return;
                }
                OpRes::Cancelled => {}
            }
        } else {
            // several tasks may wait in accept_uni() at once. In sibling mode a second accept future
            // stays pending next to the loop's own: both are woken by every opened stream, one of
            // them gets it, and the last stream is left to the sibling alone.
            let res = if sibling_mode {
                if sib.is_none() {
                    sib = Some(Box::pin(env.op(OpKind::AcceptUni, cx.me, None, None, conn.get().accept_uni())));
                    env.inc("accept.sibling_futures");
                }
                if i + 1 == count {
                    sib.take().unwrap().await
                } else {
                    let mut main = Box::pin(env.op(OpKind::AcceptUni, cx.me, None, c, conn.get().accept_uni()));
                    let (r, from_sib) = std::future::poll_fn(|pcx| {
                        if let std::task::Poll::Ready(r) = main.as_mut().poll(pcx) {
                            return std::task::Poll::Ready((r, false));
                        }
                        if let std::task::Poll::Ready(r) = sib.as_mut().unwrap().as_mut().poll(pcx) {
                            return std::task::Poll::Ready((r, true));
                        }
                        std::task::Poll::Pending
                    })
                    .await;
                    if from_sib {
                        sib = None;
                    }
                    r
                }
            } else {
                env.op(OpKind::AcceptUni, cx.me, None, c, conn.get().accept_uni()).await
            };
            match res {
                OpRes::Done(Ok(r)) => {
                    check_id(r.id(), &cx);
                    let tr = TRecv::new(&env, cx.me, r);
                    let r2 = rng_for(cx.plan.seed, b"acceptor", cx.k as u64, tr.sid, cx.side as u64);
                    env.inc("streams.accepted");
                    g.spawn(&env, format!("c{}{}.s{}.reader", cx.k, cx.side, tr.sid), reader(cx.clone(), tr, r2));
                    i += 1;
                }
                OpRes::Done(Err(e)) => {
                    cx.conn_err(&e, "accept_uni");
                    return;
                }
                OpRes::Cancelled => {}
            }
        }
    }
    drop(sib);
    if extra {
        // a future parked until the connection goes away: must be woken by close
        let cx2 = cx.clone();
        long.spawn(&env, format!("c{}{}.parked-accept-{}", cx.k, cx.side, if bi { "bi" } else { "uni" }), async move {
            let env = cx2.env.clone();
            let r = if bi {
                match select2(env.op(OpKind::AcceptBi, cx2.me, None, None, conn.get().accept_bi()), cx2.local_shutdown.wait()).await {
                    Either::A(OpRes::Done(r)) => Some(r.map(|_| ())),
                    _ => None,
                }
            } else {
                match select2(env.op(OpKind::AcceptUni, cx2.me, None, None, conn.get().accept_uni()), cx2.local_shutdown.wait()).await {
                    Either::A(OpRes::Done(r)) => Some(r.map(|_| ())),
                    _ => None,
                }
            };
            match r {
                Some(Ok(())) => env.violate(format!("accept on conn {} yielded a stream beyond the {count} streams the peer opened", cx2.k)),
                Some(Err(e)) => {
                    env.inc("teardown.parked_accept_woken");
                    cx2.conn_err(&e, "parked accept")
                }
                None => {}
            }
            drop(conn);
        });
    }
}

async fn closed_watcher(cx: Arc<Ctx>, conn: TConn) {
    let env = cx.env.clone();
    let mut rng = rng_for(cx.plan.seed, b"closedw", cx.k as u64, 0, cx.side as u64);
    loop {
        let c = cancel(&mut rng, cx.plan.cancel_pct / 2);
        match select2(env.op(OpKind::Closed, cx.me, None, c, conn.get().closed()), cx.local_shutdown.wait()).await {
            Either::A(OpRes::Done(e)) => {
                env.inc("teardown.closed_resolved");
                let peer_closed = env.closing(cx.k).map(|ce| ce.by != cx.side).unwrap_or(false);
                if peer_closed {
                    if let ConnectionError::ApplicationClosed(ac) = &e {
                        env.inc("teardown.peer_close_seen");
                        if env.closing(cx.k).map(|ce| ce.how == "drop of the last handle").unwrap_or(false) && ac.error_code.into_inner() == 0 && ac.reason.is_empty() {
                            env.inc("teardown.drop_seen_as_close0");
                        }
                    }
                }
                cx.conn_err(&e, "closed");
                if conn.get().close_reason().is_none() {
                    env.violate(format!("closed() resolved on conn {} but close_reason() is None", cx.k));
                }
                break;
            }
            Either::A(OpRes::Cancelled) => {}
            Either::B(()) => break,
        }
    }
    drop(conn);
}

async fn do_close(cx: &Arc<Ctx>, conn: &mut Option<TConn>, ep: &Option<quinn::Endpoint>, long: &Arc<Group>) {
    let env = &cx.env;
    let end = &cx.plan.pairs[cx.k].end;
    match &end.how {
        How::Close { code, reason } => {
            env.set_closing(cx.k, CloseExpect { by: cx.side, code: *code, reason: reason.clone(), how: "Connection::close" });
            env.tr(|| format!("conn {} side {} close({code})", cx.k, cx.side));
            conn.as_ref().unwrap().get().close(VarInt::from_u64(*code).unwrap(), reason);
            env.inc("teardown.close_called");
        }
        How::EndpointClose { code, reason } => {
            env.set_closing(cx.k, CloseExpect { by: cx.side, code: *code, reason: reason.clone(), how: "Endpoint::close" });
            env.tr(|| format!("conn {} side {} Endpoint::close({code})", cx.k, cx.side));
            ep.as_ref().expect("endpoint handle for Endpoint::close").close(VarInt::from_u64(*code).unwrap(), reason);
            env.inc("teardown.endpoint_close_called");
        }
        How::DropAll => {
            env.set_closing(cx.k, CloseExpect { by: cx.side, code: 0, reason: vec![], how: "drop of the last handle" });
            env.tr(|| format!("conn {} side {} drops every handle", cx.k, cx.side));
            cx.local_shutdown.set();
            long.wait().await;
            let weak = env.st.lock().unwrap().weak.get(&cx.me).cloned();
            let c = conn.take();
            drop(c);
            // dropping the last handle must close the connection right away (code 0, empty reason)
            if let Some(r) = weak.and_then(|w| w.registrations()) {
                env.inc("teardown.implicit_close_checked");
                if !r.closed {
                    env.violate(format!("teardown: the last Connection handle of conn {} {} was dropped but the connection is not closed", cx.k, if cx.side == 0 { "client" } else { "server" }));
                }
            }
            let left = env.st.lock().unwrap().live_conn.get(&cx.me).copied().unwrap_or(0);
            if left != 0 {
                env.harness_error(format!("DropAll on conn {} side {} left {left} Connection handles alive", cx.k, cx.side));
            }
            env.inc("teardown.last_handle_dropped");
        }
    }
}

pub async fn conn_body(w: Arc<World>, k: usize, side: usize, conn: quinn::Connection, ep: Option<quinn::Endpoint>) {
    let env = w.env.clone();
    let plan = w.plan.clone();
    let pair = plan.pairs[k].clone();
    let me = ck(k, side);
    let cx = Arc::new(Ctx { env: env.clone(), plan: plan.clone(), k, side, me, local_shutdown: Flag::new() });
    let mut rng = rng_for(plan.seed, b"conn", k as u64, 0, side as u64);
    let mut conn = Some(TConn::new(&env, me, conn));
    env.st.lock().unwrap().pairs[k].established[side] = true;
    env.inc("conn.established");
    let tc = || conn.as_ref().unwrap().clone();
    let flows_g = Group::new();
    let long_g = Group::new();
    let tagn = format!("c{k}{side}");

    long_g.spawn(&env, format!("{tagn}.closed-watcher"), closed_watcher(cx.clone(), tc()));
    if pair.extra_watchers && rng.bool() {
        // handshake_confirmed completes at once or after HANDSHAKE_DONE
        let (cx2, c2) = (cx.clone(), tc());
        flows_g.spawn(&env, format!("{tagn}.handshake-confirmed"), async move {
            match cx2.env.op(OpKind::HandshakeConfirmed, cx2.me, None, None, c2.get().handshake_confirmed()).await {
                OpRes::Done(Ok(())) => {}
                OpRes::Done(Err(e)) => cx2.conn_err(&e, "handshake_confirmed"),
                OpRes::Cancelled => {}
            }
        });
    }
    let abrupt = pair.end.abrupt_after_ns;
    // the closing side of an abrupt close: a timer task that closes in the middle of the workload
    let closed_early = Flag::new();
    if let (Some(ns), true) = (abrupt, pair.end.closer == side) {
        let (cx2, ep2, long2, ce) = (cx.clone(), ep.clone(), long_g.clone(), closed_early.clone());
        let mut c2 = Some(tc());
        flows_g.spawn(&env, format!("{tagn}.abrupt-closer"), async move {
            cx2.env.sleep_ns(ns).await;
            do_close(&cx2, &mut c2, &ep2, &long2).await;
            cx2.env.inc("teardown.abrupt_close");
            ce.set();
        });
    }
    for (fi, f) in pair.flows.iter().enumerate() {
        if f.opener == side {
            flows_g.spawn(&env, format!("{tagn}.flow{fi}.opener"), flow_opener(cx.clone(), tc(), fi, flows_g.clone()));
        }
    }
    let n_uni = pair.flows.iter().filter(|f| f.opener != side && !f.bi).count();
    let n_bi = pair.flows.iter().filter(|f| f.opener != side && f.bi).count();
    let extra = pair.extra_watchers;
    flows_g.spawn(&env, format!("{tagn}.accept-uni"), accept_loop(cx.clone(), tc(), false, n_uni, flows_g.clone(), long_g.clone(), extra));
    flows_g.spawn(&env, format!("{tagn}.accept-bi"), accept_loop(cx.clone(), tc(), true, n_bi, flows_g.clone(), long_g.clone(), extra && rng.bool()));
    // every datagram the protocol core accepts must reach the application (checked by the receiver
    // against the connection's own frame statistics); datagrams may legitimately vanish on the way
    // even on a lossless network (e.g. 1-RTT packets overtaking the handshake), so completion never
    // waits for them
    let reliable = false;
    if pair.dgrams[side] > 0 {
        flows_g.spawn(&env, format!("{tagn}.dgram-sender"), dgram_sender(cx.clone(), tc(), pair.dgrams[side], rng.fork(3), reliable));
    }
    let got_all = Flag::new();
    if pair.dgrams[1 - side] > 0 || pair.extra_watchers {
        let expect = if reliable { pair.dgrams[1 - side] } else { 0 };
        long_g.spawn(&env, format!("{tagn}.dgram-receiver"), dgram_receiver(cx.clone(), tc(), expect, got_all.clone(), rng.fork(4)));
    } else {
        got_all.set();
    }

    // completion barrier
    flows_g.wait().await;
    if abrupt.is_none() {
        got_all.wait().await;
        if rng.chance(40) || plan.scripted.is_some() {
            env.sleep_ns(*rng.pick(&[1_000_000u64, 60_000_000, 400_000_000])).await;
        }
    }
    w.pair_done[k][side].set();
    env.tr(|| format!("conn {k} side {side}: local workload complete"));
    if abrupt.is_none() {
        w.pair_done[k][1 - side].wait().await;
        if pair.end.closer == side {
            do_close(&cx, &mut conn, &ep, &long_g).await;
        }
    }
    // every long-lived future must now be completed by the close
    long_g.wait().await;
    if let Some(c) = conn.take() {
        drop(c);
    }
    let _ = closed_early;
    env.inc("conn.finished");
}

fn expect_connect_failure(env: &Arc<Env>, plan: &Plan, k: usize, e: &ConnectionError) {
    let mode = plan.pairs[k].incoming;
    let ok = match (mode, e) {
        (IncomingMode::Refuse | IncomingMode::DropIt, ConnectionError::ConnectionClosed(cc)) => cc.error_code == quinn::TransportErrorCode::CONNECTION_REFUSED,
        (IncomingMode::Refuse | IncomingMode::DropIt, ConnectionError::TimedOut) => !plan.net.lossless(),
        (IncomingMode::Ignore, ConnectionError::TimedOut) => true,
        _ => false,
    };
    if ok {
        env.inc("connect.failed_as_expected");
    } else {
        env.violate(format!("connect of conn {k} failed with '{e}' (server handles the Incoming with {mode:?})"));
    }
}

pub async fn client_main(w: Arc<World>, ci: usize, ep: quinn::Endpoint) {
    let env = w.env.clone();
    let plan = w.plan.clone();
    let mut rng = rng_for(plan.seed, b"client", ci as u64, 0, 0);
    for (n, &k) in plan.clients[ci].iter().enumerate() {
        if n > 0 {
            // let stale Initial retransmissions of the previous attempt drain from the network, so
            // that the server attributes every Incoming from this address to the right plan entry
            env.sleep_ns(if env.is_det() { 1_000_000_000 } else { 30_000_000 }).await;
        }
        w.cur_pair[ci].store(k, Ordering::SeqCst);
        let pair = &plan.pairs[k];
        if pair.connect_abandon.is_some() {
            env.set_closing(k, CloseExpect { by: 0, code: 0, reason: vec![], how: "drop of Connecting" });
        }
        match ep.connect_with(w.ccfg.clone(), w.server_addr, "srv") {
            Err(e) => env.violate(format!("connect_with for conn {k} failed immediately: {e}")),
            Ok(connecting) => match env.op(OpKind::Connect, ck(k, 0), None, pair.connect_abandon, connecting).await {
                OpRes::Cancelled => env.inc("connect.abandoned"),
                OpRes::Done(Ok(conn)) if pair.connect_abandon.is_some() => {
                    // completed before the planned cancel point: abandon the connection right away
                    env.inc("connect.completed_before_cancel");
                    drop(conn);
                }
                OpRes::Done(Ok(conn)) => {
                    if !pair.establishes() {
                        env.violate(format!("connect of conn {k} succeeded although the server handles the Incoming with {:?}", pair.incoming));
                    }
                    let epc = if matches!(pair.end.how, How::EndpointClose { .. }) && pair.end.closer == 0 { Some(ep.clone()) } else { None };
                    conn_body(w.clone(), k, 0, conn, epc).await;
                }
                OpRes::Done(Err(e)) => {
                    if pair.establishes() {
                        if env.closing(k).is_some() {
                            env.inc("connect.failed_after_close");
                        } else {
                            let tag = if env.is_det() && matches!(e, ConnectionError::TimedOut) { "[C02] " } else { "" };
                            env.violate(format!("{tag}connect of conn {k} failed with '{e}' although the server accepts it"));
                        }
                    } else {
                        expect_connect_failure(&env, &plan, k, &e);
                    }
                }
            },
        }
        w.pair_done[k][0].set();
        if !plan.pairs[k].establishes() {
            w.pair_done[k][1].set();
        }
    }
    endpoint_end(&env, ep, plan.client_end[ci], &mut rng, format!("client endpoint {ci}")).await;
    if w.clients_left.fetch_sub(1, Ordering::SeqCst) == 1 {
        w.all_clients_done.set();
    }
    w.mains_left.fetch_sub(1, Ordering::SeqCst);
}

async fn endpoint_end(env: &Arc<Env>, ep: quinn::Endpoint, end: EpEnd, rng: &mut Rng, what: String) {
    match end {
        EpEnd::DropNow => {
            env.inc("teardown.endpoint_dropped_busy");
        }
        EpEnd::WaitIdleThenDrop | EpEnd::CloseThenWaitIdle => {
            if end == EpEnd::CloseThenWaitIdle {
                ep.close(VarInt::from_u32(0), b"");
            }
            loop {
                let c = cancel(rng, 20);
                match env.op(OpKind::WaitIdle, usize::MAX, None, c, ep.wait_idle()).await {
                    OpRes::Done(()) => break,
                    OpRes::Cancelled => {}
                }
            }
            env.inc("teardown.wait_idle_resolved");
            let n = ep.open_connections();
            if n != 0 {
                env.violate(format!("teardown: wait_idle resolved on {what} but open_connections() is {n}"));
            } else {
                env.inc("teardown.open_connections_zero");
            }
        }
    }
    env.tr(|| format!("{what}: dropping Endpoint"));
    drop(ep);
}

async fn server_conn(w: Arc<World>, k: usize, connecting: quinn::Connecting, ep: Option<quinn::Endpoint>) {
    let env = w.env.clone();
    let abandon = w.plan.pairs[k].connect_abandon.is_some();
    match env.op(OpKind::Connect, ck(k, 1), None, None, connecting).await {
        OpRes::Done(Ok(conn)) => {
            if abandon {
                let e = conn.closed().await;
                env.tr(|| format!("abandoned conn {k}: server sees {e}"));
            } else {
                conn_body(w.clone(), k, 1, conn, ep).await;
            }
        }
        OpRes::Done(Err(e)) => {
            if !abandon && env.closing(k).is_none() {
                let tag = if env.is_det() && matches!(e, ConnectionError::TimedOut) { "[C02] " } else { "" };
                env.violate(format!("{tag}server-side handshake of conn {k} failed with '{e}'"));
            }
        }
        OpRes::Cancelled => {}
    }
    w.pair_done[k][1].set();
}

pub async fn server_main(w: Arc<World>, ep: quinn::Endpoint) {
    let env = w.env.clone();
    let plan = w.plan.clone();
    let mut rng = rng_for(plan.seed, b"server", 0, 0, 0);
    let conns = Group::new();
    loop {
        let c = cancel(&mut rng, plan.cancel_pct);
        let r = select2(env.op(OpKind::Accept, usize::MAX, None, c, ep.accept()), w.all_clients_done.wait()).await;
        let inc = match r {
            Either::B(()) => break,
            Either::A(OpRes::Cancelled) => continue,
            Either::A(OpRes::Done(None)) => {
                env.inc("teardown.accept_none_after_endpoint_close");
                break;
            }
            Either::A(OpRes::Done(Some(inc))) => inc,
        };
        let Some(ci) = w.client_addrs.iter().position(|a| *a == inc.remote_address()) else {
            inc.ignore();
            continue;
        };
        let k = w.cur_pair[ci].load(Ordering::SeqCst);
        if k == usize::MAX || w.server_started[k].load(Ordering::SeqCst) {
            env.inc("incoming.duplicate_refused");
            inc.refuse();
            continue;
        }
        match plan.pairs[k].incoming {
            IncomingMode::Refuse => {
                env.inc("incoming.refused");
                inc.refuse()
            }
            IncomingMode::Ignore => {
                env.inc("incoming.ignored");
                inc.ignore()
            }
            IncomingMode::DropIt => {
                env.inc("incoming.dropped");
                drop(inc)
            }
            IncomingMode::RetryThenAccept if !inc.remote_address_validated() && inc.may_retry() => {
                env.inc("incoming.retried");
                let _ = inc.retry();
            }
            _ => {
                w.server_started[k].store(true, Ordering::SeqCst);
                match inc.accept() {
                    Ok(connecting) => {
                        let epc = if matches!(plan.pairs[k].end.how, How::EndpointClose { .. }) && plan.pairs[k].end.closer == 1 { Some(ep.clone()) } else { None };
                        conns.spawn(&env, format!("server.conn{k}"), server_conn(w.clone(), k, connecting, epc));
                    }
                    Err(e) => {
                        if env.closing(k).is_none() {
                            env.violate(format!("Incoming::accept for conn {k} failed with '{e}'"));
                        }
                        w.pair_done[k][1].set();
                    }
                }
            }
        }
    }
    conns.wait().await;
    endpoint_end(&env, ep, plan.server_end, &mut rng, "server endpoint".into()).await;
    w.mains_left.fetch_sub(1, Ordering::SeqCst);
}
