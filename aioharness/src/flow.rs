//! Per-stream and per-datagram application tasks with the integrity oracle (C01-style, at the
//! async API): received stream content must equal the concatenation of COMPLETED writes, in
//! order, exactly once, also when cancel-safe operations are cancelled at arbitrary points.

use std::{future::Future, sync::Arc};

use bytes::Bytes;
use qv::util::{hash64, payload_check, payload_fill, Rng};
use quinn::{ConnectionError, ReadError, ReadExactError, ReadToEndError, SendDatagramError, StoppedError, VarInt, WriteError};

use crate::{
    env::{select2, Either, Env, Flag, FlowLedger, OpKind, OpRes, TConn, TRecv, TSend},
    plan::Plan,
};

pub struct Ctx {
    pub env: Arc<Env>,
    pub plan: Arc<Plan>,
    pub k: usize,
    pub side: usize,
    pub me: usize,
    /// set when the local side wants its long-lived watcher tasks to let go of their handles
    pub local_shutdown: Arc<Flag>,
}

pub static REAL_MODE: std::sync::atomic::AtomicBool = std::sync::atomic::AtomicBool::new(false);

pub fn flow_key(seed: u64, k: usize, sid: u64, writer: usize) -> u64 {
    hash64(seed, &[b"flow", &(k as u64).to_le_bytes(), &sid.to_le_bytes(), &[writer as u8]])
}

pub fn cancel(r: &mut Rng, pct: u32) -> Option<u32> {
    if r.chance(pct) {
        // on the real scheduler nothing re-polls a parked task spuriously, so a cancel point that
        // needs a second poll could park the task for good: cancel at the first Pending there
        Some(match if REAL_MODE.load(std::sync::atomic::Ordering::Relaxed) { 7 } else { r.below(8) } {
            0 => 3,
            1 | 2 => 2,
            _ => 1,
        })
    } else {
        None
    }
}

fn side_name(s: usize) -> &'static str {
    if s == 0 {
        "client"
    } else {
        "server"
    }
}

impl Ctx {
    pub fn flow<R>(&self, sid: u64, writer: usize, f: impl FnOnce(&mut FlowLedger) -> R) -> R {
        let mut st = self.env.st.lock().unwrap();
        let seed = self.plan.seed;
        let k = self.k;
        let e = st.flows.entry((k, sid, writer as u8)).or_insert_with(|| FlowLedger { key: flow_key(seed, k, sid, writer), ..Default::default() });
        f(e)
    }

    pub fn tag(&self, sid: u64) -> String {
        format!("conn {} {} stream {}", self.k, side_name(self.side), sid)
    }

    /// Judge a connection-level error observed by an application operation.
    pub fn conn_err(&self, e: &ConnectionError, what: &str) {
        let lost_early = self.env.st.lock().unwrap().pairs[self.k].lost_early;
        let Some(ce) = self.env.closing(self.k).filter(|_| !lost_early) else {
            self.env.st.lock().unwrap().pairs[self.k].lost_early = true;
            if lost_early && self.env.closing(self.k).is_some() {
                // follow-on of a connection that had already been lost before the planned close: the
                // loss itself was reported (as a note for the owning property); nothing more to judge
                self.env.inc("close.after_early_loss");
                return;
            }
            let parked: Vec<String> = self.env.st.lock().unwrap().pending.values().filter(|p| p.ck / 2 == self.k).take(10).map(|p| format!("{}({}{})", p.kind.name(), if p.ck % 2 == 0 { "C" } else { "S" }, p.sid.map(|s| format!(" s{s}")).unwrap_or_default())).collect();
            // On the deterministic lanes a lost wakeup is caught directly by the probe, so a connection
            // that dies here is a protocol-level liveness matter (C02/C08), reported as a note; on the
            // real scheduler a hang that ends in a timeout is the only visible symptom of a lost wakeup.
            // (likewise a transport-level error raised by the protocol core, e.g. a flow-control
            // accounting error under duplication/reordering, belongs to C05/C06)
            let mut tag = match e {
                ConnectionError::TimedOut | ConnectionError::Reset if self.env.is_det() => "[C02] ",
                ConnectionError::TransportError(_) | ConnectionError::ConnectionClosed(_) if self.env.is_det() => "[C05] ",
                _ => "",
            };
            {
                // a stream that was finished (explicitly or by dropping its last handle) whose reader
                // got every byte but never the end of stream is a teardown failure, not a protocol wedge
                let st = self.env.st.lock().unwrap();
                let unfinished: Vec<u64> = st
                    .flows
                    .iter()
                    .filter(|((k, _, _), f)| *k == self.k && f.fin.map(|n| f.delivered.is_exactly(0, n)).unwrap_or(false) && f.r_started && !f.eos && f.r_stop.is_none() && f.reset.is_none() && f.r_reset_seen.is_none())
                    .map(|((_, sid, _), _)| *sid)
                    .collect();
                drop(st);
                // (only on a lossless network: under loss the FIN may simply sit in a lost packet of a
                // connection that is wedged for protocol-level reasons)
                if !unfinished.is_empty() && self.plan.net.lossless() && matches!(e, ConnectionError::TimedOut) {
                    tag = "";
                    self.env.violate(format!(
                        "teardown: streams {unfinished:?} of conn {} were finished or dropped by their writer and completely delivered, yet their readers never saw the end of stream before the connection idled out",
                        self.k
                    ));
                }
            }
            if !self.env.is_det() && matches!(e, ConnectionError::TimedOut) {
                // classify the hang: a writer that never learnt that its peer stopped the stream
                let st = self.env.st.lock().unwrap();
                let stuck_writer = st.flows.iter().any(|((k, _, _), f)| *k == self.k && f.r_stop.is_some() && f.w_stopped_seen.is_none() && f.fin.is_none() && f.reset.is_none() && f.committed < f.attempted);
                drop(st);
                if stuck_writer {
                    self.env.violate(format!(
                        "hang: a write-type operation parked on a stream the peer had stopped never completed and conn {} idled out ({what} on the {} reports '{e}')",
                        self.k,
                        side_name(self.side)
                    ));
                    return;
                }
            }
            self.env.violate(format!(
                "{tag}{what} on conn {} {} failed with connection error '{e}' although neither side had initiated a close; still pending on this connection: {parked:?}",
                self.k,
                side_name(self.side)
            ));
            return;
        };
        if ce.by == self.side {
            match e {
                ConnectionError::LocallyClosed => self.env.inc("close.seen_locally_closed"),
                ConnectionError::TransportError(_) | ConnectionError::ConnectionClosed(_) if self.env.is_det() => {
                    self.env.violate(format!("[C05] {what} on conn {} {}: connection lost with '{e}' before the local close via {}", self.k, side_name(self.side), ce.how))
                }
                _ => self.env.violate(format!("{what} on the closing side of conn {} reports '{e}' instead of LocallyClosed (close via {})", self.k, ce.how)),
            }
        } else {
            match e {
                ConnectionError::ApplicationClosed(ac) => {
                    if ac.error_code.into_inner() != ce.code || ac.reason[..] != ce.reason[..] {
                        self.env.violate(format!(
                            "{what} on conn {} {}: peer closed via {} with code {} reason {:?} but the application sees code {} reason {:?}",
                            self.k,
                            side_name(self.side),
                            ce.how,
                            ce.code,
                            ce.reason,
                            ac.error_code,
                            &ac.reason[..]
                        ));
                    } else {
                        self.env.inc("close.seen_application_closed");
                    }
                }
                // the close never reached this side (lost, or never sent: that is C08's subject); the
                // operation did complete, which is all C18 asks for
                ConnectionError::TimedOut | ConnectionError::Reset => self.env.inc(if self.plan.net.lossless() { "close.not_delivered_on_lossless_network" } else { "close.seen_timeout_or_reset_under_loss" }),
                // a transport-level error raised by the protocol core races with the close: C05/C06's subject
                ConnectionError::TransportError(_) | ConnectionError::ConnectionClosed(_) if self.env.is_det() => {
                    self.env.violate(format!("[C05] {what} on conn {} {}: connection lost with '{e}' while the peer was closing via {}", self.k, side_name(self.side), ce.how))
                }
                _ => self.env.violate(format!(
                    "{what} on conn {} {}: peer closed via {} (code {}) on a lossless network but the application sees '{e}'",
                    self.k,
                    side_name(self.side),
                    ce.how,
                    ce.code
                )),
            }
        }
    }

    fn on_write_err(&self, sid: u64, e: WriteError, what: &str) {
        match e {
            WriteError::Stopped(code) => self.saw_stopped(sid, code.into_inner(), what),
            WriteError::ConnectionLost(ce) => self.conn_err(&ce, what),
            other => self.env.violate(format!("{what} on {} failed with {other:?} (stream was neither finished nor reset by the application)", self.tag(sid))),
        }
    }

    fn saw_stopped(&self, sid: u64, code: u64, what: &str) {
        let r_stop = self.flow(sid, self.side, |f| {
            f.w_stopped_seen = Some(code);
            f.r_stop
        });
        self.env.inc("teardown.stop_seen_by_writer");
        match r_stop {
            Some(c) if c == code => {
                if code == 0 {
                    self.env.inc("teardown.stop0_seen_by_writer");
                }
            }
            other => self.env.violate(format!("{what} on {}: writer sees Stopped({code}) but the peer's reader stopped with {other:?}", self.tag(sid))),
        }
    }

    /// A reader obtained `data` at `off`.
    fn delivered(&self, sid: u64, writer: usize, off: u64, data: &[u8], what: &str) {
        if data.is_empty() {
            return;
        }
        let (key, overlap, attempted) = self.flow(sid, writer, |f| {
            let ov = f.delivered.insert(off, off + data.len() as u64);
            (f.key, ov, f.attempted)
        });
        self.env.add("integrity.bytes", data.len() as u64);
        self.env.inc("integrity.chunks");
        if let Some(i) = payload_check(key, off, data) {
            self.env.violate(format!(
                "integrity: {what} on {} delivered a byte at offset {} that is not the byte written there (data lost, duplicated or reordered at the async API)",
                self.tag(sid),
                off + i as u64
            ));
        }
        if overlap > 0 {
            self.env.violate(format!("integrity: {what} on {} delivered {overlap} bytes twice (offset {off})", self.tag(sid)));
        }
        if off + data.len() as u64 > attempted {
            self.env.violate(format!("integrity: {what} on {} delivered bytes up to {} but only {attempted} were ever passed to a write", self.tag(sid), off + data.len() as u64));
        }
    }

    fn eos(&self, sid: u64, writer: usize, what: &str) {
        let (fin, uncertain, committed, exact) = self.flow(sid, writer, |f| {
            f.eos = true;
            (f.fin, f.uncertain, f.committed, f.fin.map(|n| f.delivered.is_exactly(0, n)))
        });
        self.env.inc("integrity.eos");
        self.env.hist(self.me, sid, || format!("{what} -> end of stream"), |h| h.read_to_eos = true);
        match (fin, exact) {
            (Some(_), Some(true)) => {
                let dropped_fin = self.env.st.lock().unwrap().hist.get(&(crate::env::ck(self.k, writer), sid)).map(|h| h.send_dropped && !h.finished).unwrap_or(false);
                if dropped_fin {
                    self.env.inc("teardown.drop_seen_as_finish");
                }
            }
            (Some(n), _) => {
                let got = self.flow(sid, writer, |f| format!("{:?}", f.delivered.as_slice()));
                self.env.violate(format!("integrity: {what} on {} reports end of stream but delivered ranges {got} differ from the {n} bytes of completed writes (committed {committed})", self.tag(sid)));
            }
            (None, _) => self.env.violate(format!(
                "integrity: {what} on {} reports end of stream but the writer never finished or dropped the stream (committed {committed}, uncertain {uncertain})",
                self.tag(sid)
            )),
        }
    }

    fn saw_reset(&self, sid: u64, writer: usize, code: u64, what: &str) {
        let (reset, r_stop) = self.flow(sid, writer, |f| {
            f.r_reset_seen = Some(code);
            (f.reset, f.r_stop)
        });
        self.env.inc("integrity.reset_seen_by_reader");
        // a stopped writer that is dropped resets with the stop code (documented in SendStream::drop)
        if reset != Some(code) && r_stop != Some(code) {
            self.env.violate(format!("{what} on {}: reader sees Reset({code}) but the writer reset with {reset:?}", self.tag(sid)));
        }
    }

    fn on_read_err(&self, sid: u64, writer: usize, e: ReadError, what: &str) {
        match e {
            ReadError::Reset(code) => self.saw_reset(sid, writer, code.into_inner(), what),
            ReadError::ConnectionLost(ce) => self.conn_err(&ce, what),
            other => self.env.violate(format!("{what} on {} failed with {other:?}", self.tag(sid))),
        }
    }
}

// ---------------------------------------------------------------------------------------------
// writer
// ---------------------------------------------------------------------------------------------

fn payload(key: u64, off: u64, n: usize) -> Vec<u8> {
    let mut v = vec![0u8; n];
    payload_fill(key, off, &mut v);
    v
}

pub async fn writer(cx: Arc<Ctx>, mut ts: TSend, mut rng: Rng, total: u64) {
    let env = cx.env.clone();
    let sid = ts.sid;
    let me = cx.me;
    let w = cx.side;
    let key = cx.flow(sid, w, |f| f.key);
    let scripted = cx.plan.scripted;
    let cpct = cx.plan.cancel_pct;
    let upct = cx.plan.unsafe_cancel_pct;
    let reset_at = if scripted.is_none() && rng.chance(10) && total > 0 { Some(rng.below(total)) } else { None };
    let mut committed = 0u64;
    let mut alive = true;
    while alive && committed < total {
        if let Some(at) = reset_at {
            if committed >= at {
                break;
            }
        }
        let rem = (total - committed) as usize;
        let n = match rng.below(6) {
            0 => 1,
            1 => rng.range(1, 100) as usize,
            2 | 3 => rng.range(1, 2000) as usize,
            4 => rng.range(1, 20_000) as usize,
            _ => rem,
        }
        .min(rem);
        let buf = payload(key, committed, n);
        cx.flow(sid, w, |f| f.attempted = f.attempted.max(committed + n as u64));
        let api = if scripted.is_some() { 1 } else { rng.below(10) };
        match api {
            0..=3 => {
                let c = cancel(&mut rng, cpct);
                match env.op(OpKind::Write, me, Some(sid), c, ts.get().write(&buf)).await {
                    OpRes::Done(Ok(m)) => {
                        if m == 0 || m > n {
                            env.violate(format!("write on {} returned {m} for a buffer of {n}", cx.tag(sid)));
                        }
                        committed += m as u64;
                    }
                    OpRes::Done(Err(e)) => {
                        cx.on_write_err(sid, e, "write");
                        alive = false;
                    }
                    OpRes::Cancelled => env.hist(me, sid, || "write future dropped while pending".into(), |_| {}),
                }
            }
            4 | 5 => {
                let c = cancel(&mut rng, upct);
                match env.op(OpKind::WriteAll, me, Some(sid), c, ts.get().write_all(&buf)).await {
                    OpRes::Done(Ok(())) => committed += n as u64,
                    OpRes::Done(Err(e)) => {
                        cx.on_write_err(sid, e, "write_all");
                        alive = false;
                    }
                    OpRes::Cancelled => {
                        // not cancel-safe: an unknown prefix was written; the stream is abandoned
                        cx.flow(sid, w, |f| {
                            f.uncertain = true;
                            f.reset = Some(77);
                        });
                        env.hist(me, sid, || "write_all future dropped while pending, reset(77)".into(), |h| h.reset_called = true);
                        let _ = ts.get().reset(VarInt::from_u32(77));
                        return;
                    }
                }
            }
            6 | 7 => {
                // write_chunks: cancel-safe, mutates bufs
                let parts = 1 + rng.usize(3.min(n));
                let mut bufs: Vec<Bytes> = vec![];
                let mut o = 0;
                for p in 0..parts {
                    let l = if p + 1 == parts { n - o } else { rng.range(0, (n - o) as u64) as usize };
                    bufs.push(Bytes::copy_from_slice(&buf[o..o + l]));
                    o += l;
                }
                let c = cancel(&mut rng, cpct);
                let res = env.op(OpKind::WriteChunks, me, Some(sid), c, ts.get().write_chunks(&mut bufs)).await;
                let rest: Vec<u8> = bufs.iter().flat_map(|b| b.iter().copied()).collect();
                match res {
                    OpRes::Done(Ok(wr)) => {
                        if wr.bytes == 0 || wr.bytes > n || rest[..] != buf[wr.bytes..] || bufs[..wr.chunks].iter().any(|b| !b.is_empty()) {
                            env.violate(format!("write_chunks on {} returned {wr:?} but left {} of {n} bytes in bufs", cx.tag(sid), rest.len()));
                        }
                        committed += wr.bytes as u64;
                    }
                    OpRes::Done(Err(e)) => {
                        cx.on_write_err(sid, e, "write_chunks");
                        alive = false;
                    }
                    OpRes::Cancelled => {
                        if rest[..] != buf[..] {
                            env.violate(format!("cancel safety: write_chunks future on {} dropped while pending had consumed {} bytes of its buffers", cx.tag(sid), n - rest.len()));
                        }
                        env.hist(me, sid, || "write_chunks future dropped while pending".into(), |_| {});
                    }
                }
            }
            8 => {
                let c = cancel(&mut rng, upct);
                match env.op(OpKind::WriteChunk, me, Some(sid), c, ts.get().write_chunk(Bytes::copy_from_slice(&buf))).await {
                    OpRes::Done(Ok(())) => committed += n as u64,
                    OpRes::Done(Err(e)) => {
                        cx.on_write_err(sid, e, "write_chunk");
                        alive = false;
                    }
                    OpRes::Cancelled => {
                        cx.flow(sid, w, |f| {
                            f.uncertain = true;
                            f.reset = Some(78);
                        });
                        env.hist(me, sid, || "write_chunk future dropped while pending, reset(78)".into(), |h| h.reset_called = true);
                        let _ = ts.get().reset(VarInt::from_u32(78));
                        return;
                    }
                }
            }
            _ => {
                let half = n / 2;
                let mut bufs = [Bytes::copy_from_slice(&buf[..half]), Bytes::copy_from_slice(&buf[half..])];
                match env.op(OpKind::WriteAllChunks, me, Some(sid), None, ts.get().write_all_chunks(&mut bufs)).await {
                    OpRes::Done(Ok(())) => committed += n as u64,
                    OpRes::Done(Err(e)) => {
                        cx.on_write_err(sid, e, "write_all_chunks");
                        alive = false;
                    }
                    OpRes::Cancelled => unreachable!(),
                }
            }
        }
        cx.flow(sid, w, |f| f.committed = committed);
    }
    cx.flow(sid, w, |f| f.committed = committed);
    if !alive {
        // stopped by the peer or connection lost: dropping the handle resets / is a no-op
        return;
    }
    if reset_at.is_some() && committed < total {
        let code = rng.range(1, 1000);
        cx.flow(sid, w, |f| f.reset = Some(code));
        env.hist(me, sid, || format!("reset({code}) after {committed} bytes"), |h| h.reset_called = true);
        if ts.get().reset(VarInt::from_u64(code).unwrap()).is_err() {
            env.violate(format!("reset on {} failed with ClosedStream although the stream was open", cx.tag(sid)));
        }
        env.inc("writer.reset_midway");
        return;
    }
    let endmode = match scripted {
        Some("stopped_cancel_reset") => 17,
        Some(_) => 0,
        None => rng.below(20),
    };
    match endmode {
        0..=7 => {
            cx.flow(sid, w, |f| f.fin = Some(committed));
            env.hist(me, sid, || "finish()".into(), |h| h.finished = true);
            if ts.get().finish().is_err() {
                env.violate(format!("finish on {} failed with ClosedStream although the stream was open", cx.tag(sid)));
            }
            env.inc("writer.finish");
        }
        8..=11 => {
            cx.flow(sid, w, |f| f.fin = Some(committed));
            env.hist(me, sid, || "finish()".into(), |h| h.finished = true);
            let _ = ts.get().finish();
            let mut tries = 0;
            // stopped(&self) hands out any number of futures for one stream: sometimes a sibling is
            // created next to the tracked one, polled, and dropped while the tracked one is parked
            let sibling = rng.below(2) == 0;
            loop {
                tries += 1;
                let c = if tries <= 2 { cancel(&mut rng, cpct) } else { None };
                let mut main = Box::pin(env.op(OpKind::Stopped, me, Some(sid), c, ts.get().stopped()));
                if sibling && tries == 1 {
                    let mut sib = Box::pin(ts.get().stopped());
                    let early = std::future::poll_fn(|cx| {
                        let m = main.as_mut().poll(cx);
                        let _ = sib.as_mut().poll(cx);
                        std::task::Poll::Ready(m)
                    })
                    .await;
                    drop(sib);
                    env.inc("writer.stopped_sibling_dropped");
                    if let std::task::Poll::Ready(r) = early {
                        match r {
                            OpRes::Done(Ok(Some(code))) => cx.saw_stopped(sid, code.into_inner(), "stopped"),
                            OpRes::Done(Err(StoppedError::ConnectionLost(ce))) => cx.conn_err(&ce, "stopped"),
                            OpRes::Done(Err(e)) => env.violate(format!("stopped on {} failed with {e:?}", cx.tag(sid))),
                            OpRes::Done(Ok(None)) => env.inc("writer.stopped_none"),
                            OpRes::Cancelled => {
                                env.hist(me, sid, || "stopped() future dropped while pending".into(), |h| h.stopped_cancelled = true);
                                continue;
                            }
                        }
                        break;
                    }
                }
                match main.await {
                    OpRes::Done(Ok(None)) => {
                        env.inc("writer.stopped_none");
                        break;
                    }
                    OpRes::Done(Ok(Some(code))) => {
                        cx.saw_stopped(sid, code.into_inner(), "stopped");
                        break;
                    }
                    OpRes::Done(Err(StoppedError::ConnectionLost(ce))) => {
                        cx.conn_err(&ce, "stopped");
                        break;
                    }
                    OpRes::Done(Err(e)) => {
                        env.violate(format!("stopped on {} failed with {e:?}", cx.tag(sid)));
                        break;
                    }
                    OpRes::Cancelled => env.hist(me, sid, || "stopped() future dropped while pending".into(), |h| h.stopped_cancelled = true),
                }
            }
        }
        12..=14 => {
            // implicit finish by dropping the last handle
            cx.flow(sid, w, |f| f.fin = Some(committed));
            env.inc("writer.drop_unfinished");
        }
        15 | 16 => {
            let code = rng.range(0, 1000);
            cx.flow(sid, w, |f| f.reset = Some(code));
            env.hist(me, sid, || format!("reset({code})"), |h| h.reset_called = true);
            let _ = ts.get().reset(VarInt::from_u64(code).unwrap());
            env.inc("writer.reset_at_end");
        }
        _ => {
            // suspect history: stopped() dropped while pending, then the stream is reset (17,18) or finished (19)
            let c = Some(if scripted.is_some() || !env.is_det() { 1 } else { 1 + rng.below(2) as u32 });
            match env.op(OpKind::Stopped, me, Some(sid), c, ts.get().stopped()).await {
                OpRes::Cancelled => env.hist(me, sid, || "stopped() future dropped while pending".into(), |h| h.stopped_cancelled = true),
                OpRes::Done(Ok(Some(code))) => cx.saw_stopped(sid, code.into_inner(), "stopped"),
                OpRes::Done(Ok(None)) => {}
                OpRes::Done(Err(StoppedError::ConnectionLost(ce))) => cx.conn_err(&ce, "stopped"),
                OpRes::Done(Err(e)) => env.violate(format!("stopped on {} failed with {e:?}", cx.tag(sid))),
            }
            if endmode == 19 {
                cx.flow(sid, w, |f| f.fin = Some(committed));
                env.hist(me, sid, || "finish()".into(), |h| h.finished = true);
                let _ = ts.get().finish();
            } else {
                let code = 600 + rng.below(10);
                cx.flow(sid, w, |f| f.reset = Some(code));
                env.hist(me, sid, || format!("reset({code})"), |h| h.reset_called = true);
                let _ = ts.get().reset(VarInt::from_u64(code).unwrap());
                env.inc("writer.stopped_cancel_then_reset");
            }
        }
    }
    drop(ts);
}

// ---------------------------------------------------------------------------------------------
// reader
// ---------------------------------------------------------------------------------------------

pub async fn reader(cx: Arc<Ctx>, mut tr: TRecv, mut rng: Rng) {
    let env = cx.env.clone();
    let sid = tr.sid;
    let me = cx.me;
    let w = 1 - cx.side; // the peer writes
    let scripted = cx.plan.scripted;
    let cpct = cx.plan.cancel_pct;
    let upct = cx.plan.unsafe_cancel_pct;
    cx.flow(sid, w, |f| f.r_started = true);
    if scripted == Some("rr_cancel") {
        // let all data and the FIN arrive first
        env.sleep_ns(200_000_000).await;
        match env.op(OpKind::ReceivedReset, me, Some(sid), Some(1), tr.get().received_reset()).await {
            OpRes::Cancelled => env.hist(me, sid, || "received_reset() future dropped while pending".into(), |h| h.rr_cancelled = true),
            OpRes::Done(r) => env.hist(me, sid, || format!("received_reset() -> {r:?}"), |_| {}),
        }
        match env.op(OpKind::ReadToEnd, me, Some(sid), None, tr.get().read_to_end(1 << 20)).await {
            OpRes::Done(Ok(v)) => {
                cx.delivered(sid, w, 0, &v, "read_to_end");
                cx.eos(sid, w, "read_to_end");
            }
            OpRes::Done(Err(e)) => env.violate(format!("scripted read_to_end failed: {e:?}")),
            OpRes::Cancelled => unreachable!(),
        }
        drop(tr);
        return;
    }
    let unordered = scripted.is_none() && rng.chance(20);
    // where the reader gives up: None = read to the end
    let stop_at: Option<(u64, Option<u64>)> = if scripted.is_some() {
        None
    } else {
        match rng.below(10) {
            0 => Some((rng.below(3000), Some(rng.range(0, 500)))), // stop(code)
            1 => Some((rng.below(3000), None)),                    // drop the handle
            _ => None,
        }
    };
    let rr_pct = if cpct > 0 { 12 } else { 4 };
    let mut rr_probes = 0;
    let mut next = 0u64; // ordered position
    let mut got = 0u64;
    let mut buf = vec![0u8; 20_000];
    loop {
        if let Some((at, code)) = stop_at {
            if got >= at {
                match code {
                    Some(c) => {
                        cx.flow(sid, w, |f| f.r_stop = Some(c));
                        env.hist(me, sid, || format!("stop({c})"), |_| {});
                        let r = tr.get().stop(VarInt::from_u64(c).unwrap());
                        env.tr(|| format!("stop({c}) on c{} s{sid} -> {r:?}", cx.me));
                        env.inc("reader.stop");
                    }
                    None => {
                        cx.flow(sid, w, |f| f.r_stop = Some(0));
                        env.inc("reader.drop_unread");
                    }
                }
                drop(tr);
                return;
            }
        }
        if scripted.is_none() && rr_probes < 2 && rng.chance(rr_pct) {
            rr_probes += 1;
            // (always at the first Pending: a received_reset() parked on a completely received stream is
            // never woken again, see NOTES.md)
            let j = 1;
            match env.op(OpKind::ReceivedReset, me, Some(sid), Some(j), tr.get().received_reset()).await {
                OpRes::Cancelled => env.hist(me, sid, || "received_reset() future dropped while pending".into(), |h| h.rr_cancelled = true),
                OpRes::Done(Ok(Some(code))) => {
                    cx.saw_reset(sid, w, code.into_inner(), "received_reset");
                    drop(tr);
                    return;
                }
                OpRes::Done(Ok(None)) => env.hist(me, sid, || "received_reset() -> None".into(), |_| {}),
                OpRes::Done(Err(quinn::ResetError::ConnectionLost(ce))) => {
                    cx.conn_err(&ce, "received_reset");
                    return;
                }
                OpRes::Done(Err(e)) => env.violate(format!("received_reset on {} failed with {e:?}", cx.tag(sid))),
            }
        }
        let api = if unordered { 10 } else { rng.below(10) };
        match api {
            0..=2 => {
                let n = *rng.pick(&[1usize, 7, 333, 1200, 20_000]);
                let c = cancel(&mut rng, cpct);
                match env.op(OpKind::Read, me, Some(sid), c, tr.get().read(&mut buf[..n])).await {
                    OpRes::Done(Ok(Some(m))) => {
                        if m == 0 || m > n {
                            env.violate(format!("read on {} returned Some({m}) for a buffer of {n}", cx.tag(sid)));
                        }
                        cx.delivered(sid, w, next, &buf[..m], "read");
                        next += m as u64;
                        got += m as u64;
                    }
                    OpRes::Done(Ok(None)) => {
                        cx.eos(sid, w, "read");
                        break;
                    }
                    OpRes::Done(Err(e)) => {
                        cx.on_read_err(sid, w, e, "read");
                        break;
                    }
                    OpRes::Cancelled => env.hist(me, sid, || "read future dropped while pending".into(), |h| h.read_cancelled = true),
                }
            }
            3 | 4 | 10 => {
                let max = *rng.pick(&[1usize, 50, 1200, usize::MAX]);
                let c = cancel(&mut rng, cpct);
                match env.op(OpKind::ReadChunk, me, Some(sid), c, tr.get().read_chunk(max, !unordered)).await {
                    OpRes::Done(Ok(Some(ch))) => {
                        if ch.bytes.is_empty() || ch.bytes.len() > max || (!unordered && ch.offset != next) {
                            env.violate(format!("read_chunk on {} returned {} bytes at offset {} (max {max}, expected offset {next})", cx.tag(sid), ch.bytes.len(), ch.offset));
                        }
                        cx.delivered(sid, w, ch.offset, &ch.bytes, "read_chunk");
                        next = ch.offset + ch.bytes.len() as u64;
                        got += ch.bytes.len() as u64;
                    }
                    OpRes::Done(Ok(None)) => {
                        cx.eos(sid, w, "read_chunk");
                        break;
                    }
                    OpRes::Done(Err(e)) => {
                        cx.on_read_err(sid, w, e, "read_chunk");
                        break;
                    }
                    OpRes::Cancelled => env.hist(me, sid, || "read_chunk future dropped while pending".into(), |h| h.read_cancelled = true),
                }
            }
            5 | 6 => {
                let nb = 1 + rng.usize(4);
                let mut bufs: Vec<Bytes> = vec![Bytes::new(); nb];
                let c = cancel(&mut rng, cpct);
                match env.op(OpKind::ReadChunks, me, Some(sid), c, tr.get().read_chunks(&mut bufs)).await {
                    OpRes::Done(Ok(Some(m))) => {
                        if m == 0 || m > nb {
                            env.violate(format!("read_chunks on {} returned Some({m}) for {nb} buffers", cx.tag(sid)));
                        }
                        for b in &bufs[..m.min(nb)] {
                            cx.delivered(sid, w, next, b, "read_chunks");
                            next += b.len() as u64;
                            got += b.len() as u64;
                        }
                    }
                    OpRes::Done(Ok(None)) => {
                        cx.eos(sid, w, "read_chunks");
                        break;
                    }
                    OpRes::Done(Err(e)) => {
                        cx.on_read_err(sid, w, e, "read_chunks");
                        break;
                    }
                    OpRes::Cancelled => {
                        if bufs.iter().any(|b| !b.is_empty()) {
                            env.violate(format!("cancel safety: read_chunks future on {} dropped while pending had already taken data", cx.tag(sid)));
                        }
                        env.hist(me, sid, || "read_chunks future dropped while pending".into(), |h| h.read_cancelled = true)
                    }
                }
            }
            7 => {
                let n = *rng.pick(&[1usize, 10, 500, 3000]);
                let c = cancel(&mut rng, upct);
                match env.op(OpKind::ReadExact, me, Some(sid), c, tr.get().read_exact(&mut buf[..n])).await {
                    OpRes::Done(Ok(())) => {
                        cx.delivered(sid, w, next, &buf[..n], "read_exact");
                        next += n as u64;
                        got += n as u64;
                    }
                    OpRes::Done(Err(ReadExactError::FinishedEarly(m))) => {
                        cx.delivered(sid, w, next, &buf[..m.min(n)], "read_exact");
                        cx.eos(sid, w, "read_exact");
                        break;
                    }
                    OpRes::Done(Err(ReadExactError::ReadError(e))) => {
                        cx.on_read_err(sid, w, e, "read_exact");
                        break;
                    }
                    OpRes::Cancelled => {
                        // not cancel-safe: data may be gone; abandon the stream
                        cx.flow(sid, w, |f| f.r_stop = Some(0));
                        env.hist(me, sid, || "read_exact future dropped while pending; stream abandoned".into(), |_| {});
                        drop(tr);
                        return;
                    }
                }
            }
            _ => {
                // read_to_end from the current position (after ordered reads only: the start offset is then
                // known; it switches the stream to unordered reads)
                let c = cancel(&mut rng, upct);
                match env.op(OpKind::ReadToEnd, me, Some(sid), c, tr.get().read_to_end(1 << 22)).await {
                    OpRes::Done(Ok(v)) => {
                        cx.delivered(sid, w, next, &v, "read_to_end");
                        cx.eos(sid, w, "read_to_end");
                        break;
                    }
                    OpRes::Done(Err(ReadToEndError::Read(e))) => {
                        cx.on_read_err(sid, w, e, "read_to_end");
                        break;
                    }
                    OpRes::Done(Err(ReadToEndError::TooLong)) => {
                        env.violate(format!("read_to_end on {} reports TooLong below the limit", cx.tag(sid)));
                        break;
                    }
                    OpRes::Cancelled => {
                        cx.flow(sid, w, |f| f.r_stop = Some(0));
                        env.hist(me, sid, || "read_to_end future dropped while pending; stream abandoned".into(), |_| {});
                        drop(tr);
                        return;
                    }
                }
            }
        }
    }
    drop(tr);
}

// ---------------------------------------------------------------------------------------------
// datagrams
// ---------------------------------------------------------------------------------------------

fn dgram_key(seed: u64, k: usize, sender: usize, seq: u32) -> u64 {
    hash64(seed, &[b"dgram", &(k as u64).to_le_bytes(), &[sender as u8], &seq.to_le_bytes()])
}

pub async fn dgram_sender(cx: Arc<Ctx>, conn: TConn, n: u32, mut rng: Rng, reliable: bool) {
    let env = cx.env.clone();
    if reliable {
        // 1-RTT packets that reach the peer before it has completed the handshake are dropped
        // (legitimately: datagrams are unreliable), so the exactly-once-and-complete variant of the
        // datagram oracle only starts once the handshake is confirmed
        match env.op(OpKind::HandshakeConfirmed, cx.me, None, None, conn.get().handshake_confirmed()).await {
            OpRes::Done(Ok(())) => {}
            OpRes::Done(Err(e)) => {
                cx.conn_err(&e, "handshake_confirmed");
                return;
            }
            OpRes::Cancelled => {}
        }
    }
    for seq in 0..n {
        let Some(max) = conn.get().max_datagram_size() else {
            if cx.env.closing(cx.k).is_none() {
                env.violate(format!("max_datagram_size on conn {} is None although both sides enable datagrams", cx.k));
            }
            return;
        };
        let len = (*rng.pick(&[6usize, 20, 300, 1100, 5000])).min(max).min(cx.plan.tc[cx.side].dgram_send_buf).max(6);
        let mut d = vec![0u8; len];
        d[..4].copy_from_slice(&seq.to_le_bytes());
        d[4..6].copy_from_slice(&(len as u16).to_le_bytes());
        payload_fill(dgram_key(cx.plan.seed, cx.k, cx.side, seq), 0, &mut d[6..]);
        env.st.lock().unwrap().dgrams.entry((cx.k, cx.side as u8)).or_default().sent.insert(seq, len);
        let wait = reliable || rng.chance(60);
        if wait {
            let c = if reliable { None } else { cancel(&mut rng, cx.plan.unsafe_cancel_pct) };
            match env.op(OpKind::SendDatagramWait, cx.me, None, c, conn.get().send_datagram_wait(Bytes::from(d))).await {
                OpRes::Done(Ok(())) => env.inc("dgram.sent"),
                OpRes::Done(Err(SendDatagramError::ConnectionLost(ce))) => {
                    cx.conn_err(&ce, "send_datagram_wait");
                    return;
                }
                OpRes::Done(Err(e)) => {
                    env.violate(format!("send_datagram_wait on conn {} failed with {e:?} for {len} bytes (max {max})", cx.k));
                    return;
                }
                OpRes::Cancelled => {
                    env.st.lock().unwrap().dgrams.entry((cx.k, cx.side as u8)).or_default().maybe_sent.insert(seq);
                }
            }
        } else {
            match conn.get().send_datagram(Bytes::from(d)) {
                Ok(()) => env.inc("dgram.sent"),
                Err(SendDatagramError::ConnectionLost(ce)) => {
                    cx.conn_err(&ce, "send_datagram");
                    return;
                }
                Err(e) => {
                    env.violate(format!("send_datagram on conn {} failed with {e:?} for {len} bytes (max {max})", cx.k));
                    return;
                }
            }
        }
    }
}

/// Receives until the connection is closed (or local shutdown); sets `got_all` once `expect`
/// distinct datagrams have arrived.
pub async fn dgram_receiver(cx: Arc<Ctx>, conn: TConn, expect: u32, got_all: Arc<Flag>, mut rng: Rng) {
    let env = cx.env.clone();
    let sender = 1 - cx.side;
    let mut n = 0u32;
    let mut total = 0u64;
    if expect == 0 {
        got_all.set();
    }
    loop {
        let c = cancel(&mut rng, cx.plan.cancel_pct);
        let r = select2(env.op(OpKind::ReadDatagram, cx.me, None, c, conn.get().read_datagram()), cx.local_shutdown.wait()).await;
        match r {
            Either::B(()) => break,
            Either::A(OpRes::Cancelled) => {}
            Either::A(OpRes::Done(Err(ce))) => {
                cx.conn_err(&ce, "read_datagram");
                // read_datagram drains buffered datagrams before it reports the close, so by now the
                // application must have obtained every DATAGRAM frame the protocol core accepted
                // (only meaningful when the peer closed: a locally closed connection still counts
                // the frames of late packets in its statistics while discarding them)
                let peer_closed = matches!(ce, ConnectionError::ApplicationClosed(_)) && env.closing(cx.k).map(|c| c.by != cx.side).unwrap_or(false);
                let rx = conn.get().stats().frame_rx.datagram;
                if peer_closed {
                    env.inc("dgram.drain_checks");
                }
                if peer_closed && rx != total {
                    env.violate(format!(
                        "cancel safety: datagram receive lost data on conn {} {}: the connection accepted {rx} DATAGRAM frames but read_datagram yielded {total} before reporting the close",
                        cx.k,
                        side_name(cx.side)
                    ));
                }
                break;
            }
            Either::A(OpRes::Done(Ok(d))) => {
                total += 1;
                env.inc("dgram.received");
                if d.len() < 6 {
                    env.violate(format!("integrity: datagram of {} bytes received on conn {} (never sent)", d.len(), cx.k));
                    continue;
                }
                let seq = u32::from_le_bytes(d[..4].try_into().unwrap());
                let len = u16::from_le_bytes(d[4..6].try_into().unwrap()) as usize;
                let mut st = env.st.lock().unwrap();
                let led = st.dgrams.entry((cx.k, sender as u8)).or_default();
                let sent = led.sent.get(&seq).copied();
                let dup = !led.received.insert(seq);
                drop(st);
                if sent != Some(d.len()) || len != d.len() || payload_check(dgram_key(cx.plan.seed, cx.k, sender, seq), 0, &d[6..]).is_some() {
                    env.violate(format!("integrity: datagram seq {seq} received on conn {} is not intact (len {} header {len} sent {sent:?})", cx.k, d.len()));
                }
                if dup {
                    env.violate(format!("integrity: datagram seq {seq} delivered twice on conn {}", cx.k));
                } else {
                    n += 1;
                    if n >= expect {
                        got_all.set();
                    }
                }
            }
        }
    }
    got_all.set();
    drop(conn);
}
