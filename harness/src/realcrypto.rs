//! rustls + ring configurations for the real-crypto lane.
use std::sync::{Arc, OnceLock};

use proto::{
    crypto::rustls::{QuicClientConfig, QuicServerConfig},
    ClientConfig, ServerConfig,
};
use rustls::pki_types::{CertificateDer, PrivateKeyDer, PrivatePkcs8KeyDer};

struct Identity {
    cert: CertificateDer<'static>,
    key: Vec<u8>,
}

fn identity() -> &'static Identity {
    static ID: OnceLock<Identity> = OnceLock::new();
    ID.get_or_init(|| {
        // Ed25519 => fixed-size signatures => handshake sizes identical from run to run
        let kp = rcgen::KeyPair::generate_for(&rcgen::PKCS_ED25519).unwrap();
        let params = rcgen::CertificateParams::new(vec!["localhost".to_string()]).unwrap();
        let cert = params.self_signed(&kp).unwrap();
        Identity { cert: cert.der().clone(), key: kp.serialize_der() }
    })
}

pub fn rustls_server() -> rustls::ServerConfig {
    let id = identity();
    let provider = Arc::new(rustls::crypto::ring::default_provider());
    let mut cfg = rustls::ServerConfig::builder_with_provider(provider)
        .with_protocol_versions(&[&rustls::version::TLS13])
        .unwrap()
        .with_no_client_auth()
        .with_single_cert(vec![id.cert.clone()], PrivateKeyDer::Pkcs8(PrivatePkcs8KeyDer::from(id.key.clone())))
        .unwrap();
    cfg.max_early_data_size = u32::MAX;
    cfg
}

pub fn rustls_client() -> rustls::ClientConfig {
    let id = identity();
    let provider = Arc::new(rustls::crypto::ring::default_provider());
    let mut roots = rustls::RootCertStore::empty();
    roots.add(id.cert.clone()).unwrap();
    let mut cfg = rustls::ClientConfig::builder_with_provider(provider)
        .with_protocol_versions(&[&rustls::version::TLS13])
        .unwrap()
        .with_root_certificates(roots)
        .with_no_client_auth();
    cfg.enable_early_data = true;
    cfg
}

pub fn server_config(_seed: u64) -> ServerConfig {
    let q: QuicServerConfig = rustls_server().try_into().unwrap();
    ServerConfig::with_crypto(Arc::new(q))
}

/// One rustls client config per (process, endpoint index) so that session tickets persist
/// across connections of the same simulated client endpoint.
pub fn client_config(_seed: u64, _ep: usize) -> ClientConfig {
    let q: QuicClientConfig = rustls_client().try_into().unwrap();
    ClientConfig::new(Arc::new(q))
}

/// The crypto half of a client configuration. Kept per simulated client endpoint, so that the
/// session tickets rustls stores in it are offered by that endpoint's later connections.
pub fn client_crypto() -> Arc<QuicClientConfig> {
    let q: QuicClientConfig = rustls_client().try_into().unwrap();
    Arc::new(q)
}

/// A ring HKDF key for address-validation tokens (quinn's real token protection), derived from
/// a seed so that runs are reproducible.
pub fn ring_token_key(seed: u64) -> Arc<dyn proto::crypto::HandshakeTokenKey> {
    let mut master = [0u8; 64];
    for (i, c) in master.chunks_mut(8).enumerate() {
        c.copy_from_slice(&crate::util::hash64(seed, &[b"ringtok", &[i as u8]]).to_le_bytes());
    }
    Arc::new(ring::hkdf::Salt::new(ring::hkdf::HKDF_SHA256, &[]).extract(&master))
}
