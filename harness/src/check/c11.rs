//! C11 — stream operations follow the QUIC stream state machine.
//!
//! History + executable model: every sequence of stream operations (both applications, one
//! client-initiated stream, uni or bidi) and "let the network carry everything" moves is run on
//! a fresh connected pair and, in lock step, on a small reference model. Return-value classes,
//! Finished / Stopped events and the concurrency accounting must agree.

use std::time::Instant;

use proto::{Dir, Event, FinishError, ReadError, ReadableError, Side, StreamEvent, StreamId, VarInt, WriteError};
use serde_json::json;

use super::{finish, fingerprint, run_group, CaseOut, Ctx, Finish, Group, Report};
use crate::{
    app::{AppCfg, Violation},
    cfg::TcfgP,
    util::Rng,
    world::{DriverCfg, EpSpec, Lane, NetCfg, ServerSpec, World},
};

#[derive(Debug, Clone, Copy, PartialEq, Eq, Hash, PartialOrd, Ord)]
pub enum Op {
    // client application, sending half of the stream
    CWrite,
    CFinish,
    CReset,
    CStoppedQ,
    CPrio,
    // server application, receiving half
    SAccept,
    SRead,
    SReadU,
    SStop,
    SResetQ,
    // bidirectional only: server sending half / client receiving half
    SWrite,
    SFinish,
    SReset,
    SStoppedQ,
    CRead,
    CReadU,
    CStop,
    CResetQ,
    /// carry every datagram in both directions until nothing is left to do
    Net,
}

const UNI_OPS: [Op; 11] = [Op::CWrite, Op::CFinish, Op::CReset, Op::CStoppedQ, Op::CPrio, Op::SAccept, Op::SRead, Op::SReadU, Op::SStop, Op::SResetQ, Op::Net];
const BI_OPS: [Op; 19] = [
    Op::CWrite,
    Op::CFinish,
    Op::CReset,
    Op::CStoppedQ,
    Op::CPrio,
    Op::SAccept,
    Op::SRead,
    Op::SReadU,
    Op::SStop,
    Op::SResetQ,
    Op::SWrite,
    Op::SFinish,
    Op::SReset,
    Op::SStoppedQ,
    Op::CRead,
    Op::CReadU,
    Op::CStop,
    Op::CResetQ,
    Op::Net,
];

const W: u64 = 10; // bytes per write
const C_RESET: u64 = 7;
const S_RESET: u64 = 5;
const S_STOP: u64 = 9;
const C_STOP: u64 = 3;

// ---------------------------------------------------------------------------------------------
// Reference model
// ---------------------------------------------------------------------------------------------

#[derive(Debug, Clone, Copy, PartialEq, Eq)]
enum SSt {
    Ready,
    DataSent,
    ResetSent,
}

/// One direction of the stream: a sending half at one peer, a receiving half at the other.
#[derive(Debug, Clone, PartialEq, Eq)]
struct Flow {
    // sending half
    s_exists: bool,
    s_st: SSt,
    s_written: u64,
    s_stop: Option<u64>,
    s_reset: Option<u64>,
    /// has put anything for this stream on the wire (peer will learn the stream exists)
    s_wire: bool,
    // receiving half
    r_entry: bool,
    r_stopped: bool,
    r_arrived: u64,
    r_fin: bool,
    r_reset: Option<u64>,
    r_read: u64,
    r_unordered: bool,
    /// the receive state has been instantiated (by a local operation or by arriving frames)
    r_inst: bool,
    /// STOP_SENDING on its way to the sender
    stop_in_flight: Option<u64>,
    // events owed at the sender
    ev_finished: u32,
    ev_stopped: Vec<u64>,
}

impl Flow {
    fn new(s_exists: bool, r_entry: bool) -> Self {
        Self {
            s_exists,
            s_st: SSt::Ready,
            s_written: 0,
            s_stop: None,
            s_reset: None,
            s_wire: false,
            r_entry,
            r_stopped: false,
            r_arrived: 0,
            r_fin: false,
            r_reset: None,
            r_read: 0,
            r_unordered: false,
            r_inst: false,
            stop_in_flight: None,
            ev_finished: 0,
            ev_stopped: vec![],
        }
    }
    fn write(&mut self) -> String {
        if !self.s_exists {
            return "ClosedStream".into();
        }
        if self.s_st != SSt::Ready {
            return "ClosedStream".into();
        }
        if let Some(c) = self.s_stop {
            return format!("Stopped({c})");
        }
        self.s_written += W;
        self.s_wire = true;
        format!("Ok({W})")
    }
    fn finish(&mut self) -> String {
        if !self.s_exists {
            return "ClosedStream".into();
        }
        if let Some(c) = self.s_stop {
            return format!("Stopped({c})");
        }
        if self.s_st != SSt::Ready {
            return "ClosedStream".into();
        }
        self.s_st = SSt::DataSent;
        self.s_wire = true;
        "Ok".into()
    }
    fn reset(&mut self, code: u64) -> String {
        if !self.s_exists || self.s_st == SSt::ResetSent {
            return "ClosedStream".into();
        }
        self.s_st = SSt::ResetSent;
        self.s_reset = Some(code);
        self.s_wire = true;
        "Ok".into()
    }
    fn stopped_q(&self) -> String {
        if !self.s_exists {
            "ClosedStream".into()
        } else {
            format!("Ok({:?})", self.s_stop)
        }
    }
    fn prio(&self) -> String {
        if !self.s_exists {
            "ClosedStream".into()
        } else {
            "Ok".into()
        }
    }
    fn read(&mut self, ordered: bool) -> String {
        if !self.r_entry || self.r_stopped {
            return "ClosedStream".into();
        }
        self.r_inst = true;
        if ordered && self.r_unordered {
            return "IllegalOrderedRead".into();
        }
        if !ordered {
            self.r_unordered = true;
        }
        let mut out = String::new();
        if self.r_reset.is_none() && self.r_arrived > self.r_read {
            out.push_str(&format!("Data({}) ", self.r_arrived - self.r_read));
            self.r_read = self.r_arrived;
        }
        if let Some(c) = self.r_reset {
            self.r_entry = false;
            out.push_str(&format!("Reset({c})"));
        } else if self.r_fin && self.r_read == self.r_arrived {
            self.r_entry = false;
            out.push_str("End");
        } else {
            out.push_str("Blocked");
        }
        out
    }
    fn stop(&mut self, code: u64) -> String {
        if !self.r_entry || self.r_stopped {
            return "ClosedStream".into();
        }
        self.r_stopped = true;
        self.r_inst = true;
        if self.r_reset.is_none() {
            // still "receiving": STOP_SENDING goes out
            self.stop_in_flight = Some(code);
        }
        if self.r_fin || self.r_reset.is_some() {
            self.r_entry = false;
        }
        "Ok".into()
    }
    fn reset_q(&mut self, _used: bool) -> String {
        if !self.r_entry {
            return "ClosedStream".into();
        }
        if !self.r_inst {
            return "Ok(None)".into();
        }
        if self.r_stopped {
            return "ClosedStream".into();
        }
        match self.r_reset {
            None => "Ok(None)".into(),
            Some(c) => {
                self.r_entry = false;
                format!("Ok(Some({c}))")
            }
        }
    }
    /// Everything in flight is delivered and acknowledged. Operations take no virtual time, so
    /// whatever was queued by earlier operations (data, RESET_STREAM, STOP_SENDING) crosses the
    /// network before the acknowledgements those packets trigger.
    fn net(&mut self) -> bool {
        let mut peer_learns = false;
        // sender -> receiver
        if self.s_wire {
            peer_learns = true;
            if self.r_entry {
                self.r_inst = true;
            }
            if let Some(c) = self.s_reset {
                if self.r_entry && self.r_reset.is_none() && !(self.r_fin && false) {
                    self.r_reset = Some(c);
                    if self.r_stopped {
                        self.r_entry = false;
                    }
                }
            } else {
                if self.r_entry && self.r_reset.is_none() {
                    self.r_arrived = self.s_written;
                    if self.s_st == SSt::DataSent {
                        self.r_fin = true;
                        if self.r_stopped {
                            self.r_entry = false;
                        }
                    }
                }
            }
        }
        // STOP_SENDING reaches the sender before the acknowledgements do
        if let Some(c) = self.stop_in_flight.take() {
            if self.s_exists && self.s_stop.is_none() {
                self.s_stop = Some(c);
                self.ev_stopped.push(c);
            }
        }
        // acknowledgements
        if self.s_exists && self.s_wire {
            match self.s_st {
                SSt::DataSent => {
                    self.s_exists = false;
                    self.ev_finished += 1;
                }
                SSt::ResetSent => {
                    self.s_exists = false;
                }
                SSt::Ready => {}
            }
        }
        peer_learns
    }
    fn send_terminal(&self) -> bool {
        !self.s_exists
    }
    fn recv_terminal(&self) -> bool {
        !self.r_entry
    }
}

#[derive(Debug, Clone)]
struct Model {
    bidi: bool,
    /// client -> server
    up: Flow,
    /// server -> client (bidi only)
    down: Flow,
    server_knows: bool,
    accepted: bool,
}

impl Model {
    fn new(bidi: bool) -> Self {
        Self {
            bidi,
            up: Flow::new(true, true),
            // the server's sending half of a client-initiated bidi stream exists from the start;
            // the client's receiving half is created by open()
            down: Flow::new(bidi, bidi),
            server_knows: false,
            accepted: false,
        }
    }
    /// Is this operation meaningful in the current state (used to prune enumeration)?
    fn enabled(&self, op: Op) -> bool {
        match op {
            // the server only touches its sending half once it has accepted the stream
            Op::SWrite | Op::SFinish | Op::SReset | Op::SStoppedQ => self.accepted,
            _ => true,
        }
    }
    fn apply(&mut self, op: Op) -> String {
        match op {
            Op::CWrite => self.up.write(),
            Op::CFinish => self.up.finish(),
            Op::CReset => self.up.reset(C_RESET),
            Op::CStoppedQ => self.up.stopped_q(),
            Op::CPrio => self.up.prio(),
            Op::SAccept => {
                if self.server_knows && !self.accepted {
                    self.accepted = true;
                    "Some".into()
                } else {
                    "None".into()
                }
            }
            Op::SRead => self.up.read(true),
            Op::SReadU => self.up.read(false),
            Op::SStop => self.up.stop(S_STOP),
            Op::SResetQ => {
                let used = self.server_knows;
                self.up.reset_q(used)
            }
            Op::SWrite => self.down.write(),
            Op::SFinish => self.down.finish(),
            Op::SReset => self.down.reset(S_RESET),
            Op::SStoppedQ => self.down.stopped_q(),
            Op::CRead => self.down.read(true),
            Op::CReadU => self.down.read(false),
            Op::CStop => self.down.stop(C_STOP),
            Op::CResetQ => self.down.reset_q(true),
            Op::Net => {
                // a STOP_SENDING from the client for the downward flow also tells the server that
                // the stream exists
                let client_stop = self.down.stop_in_flight.is_some();
                let a = self.up.net();
                if self.bidi {
                    self.down.net();
                }
                if a || client_stop {
                    self.server_knows = true;
                }
                "-".into()
            }
        }
    }
    /// remote_open_streams(dir) as the server should report it
    fn server_open_count(&self) -> u64 {
        if !self.server_knows {
            return 0;
        }
        let closed = self.up.recv_terminal() && (!self.bidi || self.down.send_terminal());
        if closed {
            0
        } else {
            1
        }
    }
}

// ---------------------------------------------------------------------------------------------
// Real system
// ---------------------------------------------------------------------------------------------

struct Sys {
    w: World,
    id: StreamId,
    c_finished: u32,
    c_stopped: Vec<u64>,
    s_finished: u32,
    s_stopped: Vec<u64>,
    other_stream_events: Vec<String>,
}

fn quiet_tcfg() -> TcfgP {
    let mut t = TcfgP::default();
    t.idle_ms = None;
    t.mtud = None;
    t.max_bidi = 4;
    t.max_uni = 4;
    t.initial_rtt_ms = 10;
    t
}

impl Sys {
    fn new(bidi: bool) -> Option<Self> {
        let mut srv = ServerSpec::default();
        srv.tcfg = quiet_tcfg();
        srv.app = AppCfg { inert: true, ..AppCfg::default() };
        srv.tokens_sent = 0;
        let specs = vec![EpSpec::new(0, Some(srv)), EpSpec::new(1, None)];
        let mut net = NetCfg::default();
        net.latency_ns = 1_000_000;
        let mut w = World::new(11, Lane::Null, specs, net, DriverCfg::default());
        w.mon.honest = true;
        w.connect(1, 0, quiet_tcfg(), AppCfg { inert: true, ..AppCfg::default() }).ok()?;
        let mut sys = Self { w, id: StreamId::new(Side::Client, Dir::Bi, 0), c_finished: 0, c_stopped: vec![], s_finished: 0, s_stopped: vec![], other_stream_events: vec![] };
        sys.settle();
        if !sys.w.all_connected() {
            return None;
        }
        let dir = if bidi { Dir::Bi } else { Dir::Uni };
        let id = sys.w.eps[1].conns.get_mut(&0)?.c.streams().open(dir)?;
        sys.id = id;
        Some(sys)
    }
    fn settle(&mut self) {
        // run until no datagram is in flight and no timer is due within the next second
        for _ in 0..400 {
            self.w.flush_now();
            let horizon = self.w.now + 1_000_000_000;
            let busy = !self.w.net.q.is_empty()
                || self.w.eps.iter().any(|e| e.conns.values().any(|c| c.c.poll_timeout().map_or(false, |t| self.w.rel(t) <= horizon)));
            if !busy {
                break;
            }
            if !self.w.step() {
                break;
            }
        }
        self.collect_events();
    }
    fn flush(&mut self) {
        // let both sides emit what the last API call queued, without delivering anything
        self.w.flush_now();
        self.collect_events();
    }
    fn collect_events(&mut self) {
        for (ei, e) in self.w.eps.iter_mut().enumerate() {
            for c in e.conns.values_mut() {
                for ev in c.app.raw_events.drain(..) {
                    if let Event::Stream(se) = ev {
                        match se {
                            StreamEvent::Finished { id } if id == self.id => {
                                if ei == 1 {
                                    self.c_finished += 1
                                } else {
                                    self.s_finished += 1
                                }
                            }
                            StreamEvent::Stopped { id, error_code } if id == self.id => {
                                if ei == 1 {
                                    self.c_stopped.push(error_code.into_inner())
                                } else {
                                    self.s_stopped.push(error_code.into_inner())
                                }
                            }
                            StreamEvent::Readable { id } | StreamEvent::Writable { id } if id != self.id => self.other_stream_events.push(format!("{ei}: {se:?}")),
                            StreamEvent::Finished { id } | StreamEvent::Stopped { id, .. } if id != self.id => self.other_stream_events.push(format!("{ei}: {se:?}")),
                            _ => {}
                        }
                    }
                }
            }
        }
    }
    fn conn(&mut self, server: bool) -> &mut proto::Connection {
        let ei = if server { 0 } else { 1 };
        let ch = *self.w.eps[ei].conns.keys().next().unwrap();
        &mut self.w.eps[ei].conns.get_mut(&ch).unwrap().c
    }
    fn write(&mut self, server: bool) -> String {
        let id = self.id;
        let data = [0x5au8; W as usize];
        match self.conn(server).send_stream(id).write(&data) {
            Ok(n) => format!("Ok({n})"),
            Err(WriteError::Blocked) => "Blocked".into(),
            Err(WriteError::Stopped(c)) => format!("Stopped({c})"),
            Err(WriteError::ClosedStream) => "ClosedStream".into(),
        }
    }
    fn finish(&mut self, server: bool) -> String {
        let id = self.id;
        match self.conn(server).send_stream(id).finish() {
            Ok(()) => "Ok".into(),
            Err(FinishError::Stopped(c)) => format!("Stopped({c})"),
            Err(FinishError::ClosedStream) => "ClosedStream".into(),
        }
    }
    fn reset(&mut self, server: bool, code: u64) -> String {
        let id = self.id;
        match self.conn(server).send_stream(id).reset(VarInt::from_u64(code).unwrap()) {
            Ok(()) => "Ok".into(),
            Err(_) => "ClosedStream".into(),
        }
    }
    fn stopped_q(&mut self, server: bool) -> String {
        let id = self.id;
        match self.conn(server).send_stream(id).stopped() {
            Ok(x) => format!("Ok({:?})", x.map(|v| v.into_inner())),
            Err(_) => "ClosedStream".into(),
        }
    }
    fn prio(&mut self, server: bool) -> String {
        let id = self.id;
        match self.conn(server).send_stream(id).set_priority(3) {
            Ok(()) => "Ok".into(),
            Err(_) => "ClosedStream".into(),
        }
    }
    fn read(&mut self, server: bool, ordered: bool) -> String {
        let id = self.id;
        let mut rs = self.conn(server).recv_stream(id);
        let mut chunks = match rs.read(ordered) {
            Ok(c) => c,
            Err(ReadableError::ClosedStream) => return "ClosedStream".into(),
            Err(ReadableError::IllegalOrderedRead) => return "IllegalOrderedRead".into(),
        };
        let mut n = 0;
        let end;
        loop {
            match chunks.next(usize::MAX) {
                Ok(Some(c)) => n += c.bytes.len(),
                Ok(None) => {
                    end = "End".to_string();
                    break;
                }
                Err(ReadError::Blocked) => {
                    end = "Blocked".to_string();
                    break;
                }
                Err(ReadError::Reset(c)) => {
                    end = format!("Reset({c})");
                    break;
                }
            }
        }
        let _ = chunks.finalize();
        if n > 0 {
            format!("Data({n}) {end}")
        } else {
            end
        }
    }
    fn stop(&mut self, server: bool, code: u64) -> String {
        let id = self.id;
        match self.conn(server).recv_stream(id).stop(VarInt::from_u64(code).unwrap()) {
            Ok(()) => "Ok".into(),
            Err(_) => "ClosedStream".into(),
        }
    }
    fn reset_q(&mut self, server: bool) -> String {
        let id = self.id;
        match self.conn(server).recv_stream(id).received_reset() {
            Ok(x) => format!("Ok({})", x.map_or("None".to_string(), |v| format!("Some({v})"))),
            Err(_) => "ClosedStream".into(),
        }
    }
    fn apply(&mut self, op: Op) -> String {
        let r = match op {
            Op::CWrite => self.write(false),
            Op::CFinish => self.finish(false),
            Op::CReset => self.reset(false, C_RESET),
            Op::CStoppedQ => self.stopped_q(false),
            Op::CPrio => self.prio(false),
            Op::SAccept => {
                let dir = self.id.dir();
                match self.conn(true).streams().accept(dir) {
                    Some(_) => "Some".into(),
                    None => "None".into(),
                }
            }
            Op::SRead => self.read(true, true),
            Op::SReadU => self.read(true, false),
            Op::SStop => self.stop(true, S_STOP),
            Op::SResetQ => self.reset_q(true),
            Op::SWrite => self.write(true),
            Op::SFinish => self.finish(true),
            Op::SReset => self.reset(true, S_RESET),
            Op::SStoppedQ => self.stopped_q(true),
            Op::CRead => self.read(false, true),
            Op::CReadU => self.read(false, false),
            Op::CStop => self.stop(false, C_STOP),
            Op::CResetQ => self.reset_q(false),
            Op::Net => {
                self.settle();
                return "-".into();
            }
        };
        self.flush();
        r
    }
}

fn run_seq(bidi: bool, seq: &[Op]) -> (Vec<String>, Vec<Op>, u64) {
    let mut viol = vec![];
    let mut executed = vec![];
    let Some(mut sys) = Sys::new(bidi) else {
        return (vec!["HARNESS: could not set up a connected pair".into()], executed, 0);
    };
    let mut m = Model::new(bidi);
    let mut pairs = 0u64;
    let dir = if bidi { Dir::Bi } else { Dir::Uni };
    for &op in seq {
        if !m.enabled(op) {
            continue;
        }
        executed.push(op);
        let want = m.apply(op);
        let got = sys.apply(op);
        pairs += 1;
        if want != got {
            viol.push(format!("{} stream, after {:?}: {:?} returned {got}, the stream state machine says {want}", if bidi { "bidi" } else { "uni" }, &executed[..executed.len() - 1], op));
            break;
        }
        // events and accounting
        if sys.c_finished != m.up.ev_finished || sys.c_stopped != m.up.ev_stopped {
            viol.push(format!(
                "after {executed:?}: client saw Finished x{} Stopped {:?}, model expects Finished x{} Stopped {:?}",
                sys.c_finished, sys.c_stopped, m.up.ev_finished, m.up.ev_stopped
            ));
            break;
        }
        if bidi && (sys.s_finished != m.down.ev_finished || sys.s_stopped != m.down.ev_stopped) {
            viol.push(format!(
                "after {executed:?}: server saw Finished x{} Stopped {:?}, model expects Finished x{} Stopped {:?}",
                sys.s_finished, sys.s_stopped, m.down.ev_finished, m.down.ev_stopped
            ));
            break;
        }
        let open = sys.conn(true).streams().remote_open_streams(dir);
        if open != m.server_open_count() {
            viol.push(format!("after {executed:?}: server remote_open_streams({dir:?}) = {open}, model says {}", m.server_open_count()));
            break;
        }
        if !sys.other_stream_events.is_empty() {
            viol.push(format!("after {executed:?}: events for streams nobody used: {:?}", sys.other_stream_events));
            break;
        }
    }
    for v in sys.w.all_violations() {
        viol.push(format!("after {executed:?}: [{}] {}", v.prop, v.msg));
    }
    if crate::check::common::any_lost(&sys.w) {
        let reasons: Vec<String> = sys.w.eps.iter().flat_map(|e| e.conns.values().flat_map(|c| c.app.lost.clone())).collect();
        viol.push(format!("after {executed:?}: connection lost {reasons:?}"));
    }
    (viol, executed, pairs)
}

// ---------------------------------------------------------------------------------------------
// lossy schedules: invariants every application may rely on whatever the network does
// ---------------------------------------------------------------------------------------------

#[derive(Clone, Copy, Debug, PartialEq, Eq)]
enum LOp {
    Write,
    Finish,
    Reset,
    StoppedQ,
    SRead,
    SReadU,
    SStop,
    /// both sides emit what they have queued (nothing is delivered)
    Flush,
    /// one world event: the next delivery or the next timer
    Step,
    /// the next queued datagram is lost
    Drop,
    /// everything is carried until the world is quiet
    Net,
}

const LOSSY_OPS: [LOp; 11] = [LOp::Write, LOp::Finish, LOp::Reset, LOp::StoppedQ, LOp::SRead, LOp::SReadU, LOp::SStop, LOp::Flush, LOp::Step, LOp::Drop, LOp::Net];

/// What the sending application knows about its stream from return values and events alone.
#[derive(Default)]
struct Known {
    written: u64,
    finish_ok: bool,
    reset_ok: bool,
    finished_evt: u32,
    stop_code: Option<u64>,
    read: u64,
    read_end: bool,
    read_reset: bool,
    recv_stop_called: bool,
}

fn lossy_case(seed: u64, trace: bool) -> CaseOut {
    let mut r = Rng::new(seed ^ 0xC11);
    let mut out = CaseOut::default();
    let bidi = r.chance(40);
    let Some(mut sys) = Sys::new(bidi) else {
        out.viol.push(Violation { prop: "HARNESS", msg: "could not set up a connected pair".into() });
        return out;
    };
    let mut k = Known::default();
    let mut hist: Vec<String> = vec![];
    let mut viol: Vec<String> = vec![];
    let len = 8 + r.usize(30);
    let sync = |sys: &mut Sys, k: &mut Known, viol: &mut Vec<String>, hist: &Vec<String>| {
        sys.collect_events();
        if sys.c_finished > k.finished_evt {
            if !k.finish_ok {
                viol.push(format!("after {hist:?}: Finished event without a successful finish()"));
            }
            if k.reset_ok {
                viol.push(format!("after {hist:?}: Finished event after a successful reset()"));
            }
            if sys.c_finished > 1 {
                viol.push(format!("after {hist:?}: Finished event x{}", sys.c_finished));
            }
            k.finished_evt = sys.c_finished;
        }
        if let Some(&c) = sys.c_stopped.first() {
            k.stop_code.get_or_insert(c);
        }
    };
    // a third of the schedules start by separating the data from the FIN and losing one of the two
    // datagrams, then mostly single events and resets
    let focused = r.chance(33);
    let mut prefix = vec![];
    if focused {
        prefix.extend([LOp::Write, LOp::Flush]);
        if r.chance(30) {
            prefix.extend([LOp::Write, LOp::Flush]);
        }
        prefix.extend([LOp::Finish, LOp::Flush]);
        if r.chance(70) {
            prefix.push(LOp::Drop);
        } else {
            prefix.extend([LOp::Step, LOp::Drop]);
        }
    }
    const TAIL_OPS: [LOp; 9] = [LOp::Step, LOp::Step, LOp::Step, LOp::Step, LOp::Reset, LOp::StoppedQ, LOp::SRead, LOp::Flush, LOp::Write];
    for step in 0..len {
        let op = if step == len - 1 {
            LOp::Net
        } else if step < prefix.len() {
            prefix[step]
        } else if focused {
            *r.pick(&TAIL_OPS)
        } else {
            *r.pick(&LOSSY_OPS)
        };
        let res: String = match op {
            LOp::Write => {
                let g = sys.write(false);
                // (events queued before this call are part of what the application may know)
                sync(&mut sys, &mut k, &mut viol, &hist);
                match g.as_str() {
                    "ClosedStream" => {
                        if !(k.finish_ok || k.reset_ok) {
                            viol.push(format!("after {hist:?}: write() -> ClosedStream although the stream was neither finished nor reset by this application"));
                        }
                    }
                    "Blocked" => {}
                    s if s.starts_with("Stopped(") => {
                        out.cnt.inc("c11.lossy.stopped_seen");
                    }
                    s if s.starts_with("Ok(") => {
                        if k.finish_ok || k.reset_ok {
                            viol.push(format!("after {hist:?}: write() accepted data after finish()/reset()"));
                        }
                        k.written += s[3..s.len() - 1].parse::<u64>().unwrap_or(0);
                    }
                    _ => {}
                }
                g
            }
            LOp::Finish => {
                let g = sys.finish(false);
                sync(&mut sys, &mut k, &mut viol, &hist);
                match g.as_str() {
                    "Ok" => {
                        if k.finish_ok || k.reset_ok {
                            viol.push(format!("after {hist:?}: finish() succeeded after finish()/reset()"));
                        }
                        k.finish_ok = true;
                    }
                    "ClosedStream" => {
                        if !(k.finish_ok || k.reset_ok) {
                            viol.push(format!("after {hist:?}: finish() -> ClosedStream although the stream was neither finished nor reset by this application"));
                        }
                    }
                    _ => {}
                }
                g
            }
            LOp::Reset => {
                let g = sys.reset(false, C_RESET);
                sync(&mut sys, &mut k, &mut viol, &hist);
                out.cnt.inc("c11.lossy.resets");
                match g.as_str() {
                    "Ok" => {
                        if k.reset_ok {
                            viol.push(format!("after {hist:?}: a second reset() succeeded"));
                        }
                        if k.finished_evt > 0 {
                            viol.push(format!("after {hist:?}: reset() succeeded after the Finished event"));
                        }
                        if k.finish_ok {
                            out.cnt.inc("c11.lossy.reset_after_finish_ok");
                        }
                        k.reset_ok = true;
                    }
                    _ => {
                        // the sending half is gone only once it was reset, or once everything
                        // including the FIN was acknowledged - which the Finished event reports
                        if !(k.reset_ok || k.finished_evt > 0) {
                            viol.push(format!("after {hist:?}: reset() -> ClosedStream although the stream was not reset before and no Finished event was reported (finish() called: {})", k.finish_ok));
                        }
                        if k.finish_ok {
                            out.cnt.inc("c11.lossy.reset_after_finish_closed");
                        }
                    }
                }
                g
            }
            LOp::StoppedQ => {
                let g = sys.stopped_q(false);
                sync(&mut sys, &mut k, &mut viol, &hist);
                if g == "ClosedStream" && !(k.reset_ok || k.finished_evt > 0) {
                    viol.push(format!("after {hist:?}: stopped() -> ClosedStream on a stream that is neither reset nor finished-and-acknowledged"));
                }
                g
            }
            LOp::SRead | LOp::SReadU => {
                let g = sys.read(true, op == LOp::SRead);
                if let Some(n) = g.strip_prefix("Data(").and_then(|x| x.split(')').next()).and_then(|x| x.parse::<u64>().ok()) {
                    k.read += n;
                }
                if k.read > k.written {
                    viol.push(format!("after {hist:?}: receiver read {} bytes, {} were written", k.read, k.written));
                }
                if g.ends_with("End") {
                    if !k.finish_ok {
                        viol.push(format!("after {hist:?}: receiver reached the end of a stream that was never finished"));
                    } else if k.read != k.written && !k.read_end {
                        viol.push(format!("after {hist:?}: receiver reached the end after {} of {} bytes", k.read, k.written));
                    }
                    k.read_end = true;
                }
                if g.contains("Reset(") {
                    if !k.reset_ok {
                        viol.push(format!("after {hist:?}: receiver saw {g} but the sender's reset() never succeeded"));
                    } else if !g.contains(&format!("Reset({C_RESET})")) {
                        viol.push(format!("after {hist:?}: receiver saw {g}, the sender reset with {C_RESET}"));
                    }
                    k.read_reset = true;
                }
                g
            }
            LOp::SStop => {
                let g = sys.stop(true, S_STOP);
                if g == "Ok" {
                    k.recv_stop_called = true;
                }
                g
            }
            LOp::Flush => {
                sys.flush();
                "-".into()
            }
            LOp::Step => {
                sys.w.step();
                "-".into()
            }
            LOp::Drop => {
                if sys.w.net.q.pop().is_some() {
                    out.cnt.inc("c11.lossy.dropped");
                }
                "-".into()
            }
            LOp::Net => {
                sys.settle();
                "-".into()
            }
        };
        sync(&mut sys, &mut k, &mut viol, &hist);
        if let (Some(c), Some(&seen)) = (k.stop_code, sys.c_stopped.first()) {
            if c != seen || (k.recv_stop_called && seen != S_STOP) {
                viol.push(format!("after {hist:?}: Stopped code {seen}, the receiver stopped with {S_STOP}"));
            }
            if !k.recv_stop_called {
                viol.push(format!("after {hist:?}: Stopped({seen}) reported but the receiver never stopped the stream"));
            }
        }
        hist.push(format!("{op:?}->{res}"));
        out.cnt.inc("c11.lossy.ops");
        if !viol.is_empty() {
            break;
        }
    }
    // the sequence ends with a quiet world: a finished stream that was not reset is acknowledged
    if viol.is_empty() {
        sys.settle();
        sys.settle();
        sync(&mut sys, &mut k, &mut viol, &hist);
        if k.finish_ok && !k.reset_ok && k.stop_code.is_none() && !k.recv_stop_called && k.finished_evt != 1 {
            viol.push(format!("after {hist:?} and a quiet network: finish() succeeded, nobody reset or stopped the stream, Finished events: {}", k.finished_evt));
        }
    }
    for v in sys.w.all_violations() {
        viol.push(format!("after {hist:?}: [{}] {}", v.prop, v.msg));
    }
    if crate::check::common::any_lost(&sys.w) {
        let reasons: Vec<String> = sys.w.eps.iter().flat_map(|e| e.conns.values().flat_map(|c| c.app.lost.clone())).collect();
        viol.push(format!("after {hist:?}: connection lost {reasons:?}"));
    }
    out.cnt.inc("c11.lossy.sequences");
    out.nontrivial = true;
    out.fp = fingerprint(&[&hist.join(",")], &[bidi as u64]);
    for m in viol {
        out.viol.push(Violation { prop: "C11", msg: format!("[lossy] {m}") });
    }
    out.sample = Some(json!({"bidi": bidi, "history": hist}));
    if trace {
        out.trace = Some(vec![format!("history {hist:?}")]);
    }
    out
}

fn decode_seq(mut idx: u64, alphabet: &[Op], depth: usize) -> Vec<Op> {
    let n = alphabet.len() as u64;
    let mut v = Vec::with_capacity(depth);
    for _ in 0..depth {
        v.push(alphabet[(idx % n) as usize]);
        idx /= n;
    }
    v
}

fn case_out(bidi: bool, seq: Vec<Op>, trace: bool) -> CaseOut {
    let (viol, executed, pairs) = run_seq(bidi, &seq);
    let mut out = CaseOut::default();
    out.cnt.add("c11.ops_compared", pairs);
    out.cnt.inc("c11.sequences");
    for o in &executed {
        out.cnt.inc(crate::check::common::leak_prefixed("c11.op.", &format!("{o:?}")));
    }
    out.nontrivial = pairs > 0;
    let names: Vec<String> = executed.iter().map(|o| format!("{o:?}")).collect();
    out.fp = fingerprint(&[&names.join(","), if bidi { "bi" } else { "uni" }], &[]);
    for m in viol {
        let prop = if m.starts_with("HARNESS") { "HARNESS" } else { "C11" };
        out.viol.push(Violation { prop, msg: m });
    }
    out.sample = Some(json!({"bidi": bidi, "ops": names}));
    if trace {
        out.trace = Some(vec![format!("sequence {names:?} bidi={bidi}")]);
    }
    out
}

pub fn run(ctx: &Ctx) -> i32 {
    let t = Instant::now();
    let mut rep = Report::default();
    // exhaustive part: all sequences over the alphabet up to the depth
    let d_uni = ctx.tier.pick(5usize, 6usize);
    let d_bi = ctx.tier.pick(4usize, 5usize);
    let n_uni = (UNI_OPS.len() as u64).pow(d_uni as u32);
    let g = Group { name: "exhaustive-uni", cases: n_uni, budget_s: 1e9, exhaustive: true };
    run_group(ctx, &mut rep, &g, |idx, _, trace| case_out(false, decode_seq(idx, &UNI_OPS, d_uni), trace));
    let n_bi = (BI_OPS.len() as u64).pow(d_bi as u32);
    let g = Group { name: "exhaustive-bi", cases: n_bi, budget_s: 1e9, exhaustive: true };
    run_group(ctx, &mut rep, &g, |idx, _, trace| case_out(true, decode_seq(idx, &BI_OPS, d_bi), trace));
    // random deep part
    let g = Group { name: "random-deep", cases: ctx.tier.pick(60_000, 3_000_000), budget_s: ctx.tier.pick(25.0, 900.0), exhaustive: false };
    run_group(ctx, &mut rep, &g, |_, seed, trace| {
        let mut r = Rng::new(seed);
        let bidi = r.chance(60);
        let alphabet: &[Op] = if bidi { &BI_OPS } else { &UNI_OPS };
        let len = 6 + r.usize(34);
        let mut seq = Vec::with_capacity(len);
        for _ in 0..len {
            // more network moves than a uniform draw would give
            seq.push(if r.chance(20) { Op::Net } else { *r.pick(alphabet) });
        }
        case_out(bidi, seq, trace)
    });
    // lossy schedules
    let g = Group { name: "lossy", cases: ctx.tier.pick(40_000, 2_000_000), budget_s: ctx.tier.pick(15.0, 300.0), exhaustive: false };
    run_group(ctx, &mut rep, &g, |_, seed, trace| lossy_case(seed, trace));
    // recycled stream state: the C01 `recycle` worlds (stream-count limits of 1..3, dozens of short
    // streams one after the other, a third to two thirds of them stopped, a quarter reset) under the
    // application-boundary stream monitor, so that every stream inherits the freed state of an
    // earlier one; only the C11 rules are judged here
    let g = Group { name: "recycle", cases: ctx.tier.pick(800, 40_000), budget_s: ctx.tier.pick(15.0, 150.0), exhaustive: false };
    run_group(ctx, &mut rep, &g, |_, seed, trace| super::c01::recycle_case(seed, trace, false));
    rep.extra.insert("exhaustive_depth".into(), json!({"uni": d_uni, "bidi": d_bi, "uni_sequences": n_uni, "bidi_sequences": n_bi}));
    finish(
        ctx,
        &rep,
        Finish {
            level: "exploration",
            rule: format!("every sequence of length {d_uni} over an 11-operation alphabet on a client-initiated unidirectional stream ({n_uni} sequences) and of length {d_bi} over a 19-operation alphabet on a bidirectional one ({n_bi}), plus random sequences of length 6..40: client write/finish/reset/stopped()/set_priority, server accept/read(ordered)/read(unordered)/stop/received_reset, (bidi) the mirrored operations in the other direction, and a move that carries all datagrams until the world is quiet. Each is run on a fresh connected plaintext-lane pair and on the reference model in lock step; compared after every operation: the return value class (Ok(n), Blocked, Stopped(c), ClosedStream, Data(n)+End/Blocked/Reset(c), IllegalOrderedRead), Finished/Stopped event multisets on both sides, events for unused streams, and the server's remote_open_streams. Distinct = distinct executed operation sequences. (lossy) random sequences of 8..38 moves on one stream where the network moves are: both sides emit, one world event (a delivery or a timer), the next queued datagram is lost, carry everything. No model of the wire state is possible there, so the oracle is what the two applications can know from return values and events alone: write/finish/reset/stopped() report ClosedStream only after this application finished or reset the stream (reset and stopped(): only after a reset or the Finished event - data outstanding behind an acknowledged FIN keeps the half open), Finished at most once, only after finish() and never after a successful reset(), the receiver never reads more than was written, reaches the end only of a finished stream after all bytes, sees a reset only if reset() succeeded and with its code, Stopped only with the receiver's code; after a final quiet network a finished, untouched stream has reported Finished. (recycle) honest worlds with stream-count limits of 1..3 and 8..32 short streams per connection, 30-60% stopped by the reader and 25% reset by the writer, under loss up to 5%: the application-boundary stream monitor (read/stop report ClosedStream only after this application stopped the stream or saw its terminal outcome; terminal outcomes at most once and consistent with what the peer did) is applied to streams that reuse the freed state of earlier ones."),
            assumptions: vec![
                "operations take no virtual time; a network move delivers what was queued by earlier operations before the acknowledgements it triggers, which makes STOP_SENDING-vs-ACK races deterministic".into(),
                "windows are large enough that writes never block".into(),
            ],
            min_evals: ctx.tier.pick(50_000, 1_000_000),
            min_nontrivial: ctx.tier.pick(30_000, 500_000),
            required: vec!["c11.lossy.dropped", "c11.lossy.reset_after_finish_ok", "c11.ops_compared", "c11.op.Net", "c11.op.SReadU", "c11.op.CReset", "c11.op.SStop", "c11.op.SFinish", "c11.op.CResetQ", "app.stop"],
            exhaustive: false,
        },
        t.elapsed().as_secs_f64(),
    )
}
