//! Check runner: executes seeded cases on all cores, collects violations, coverage and evidence.

use std::{
    collections::{BTreeMap, BTreeSet},
    panic::{catch_unwind, AssertUnwindSafe},
    sync::{
        atomic::{AtomicBool, AtomicU64, Ordering},
        Mutex,
    },
    time::Instant,
};

use serde_json::{json, Value};

use crate::{
    app::{Counters, Violation},
    util::{hash64, splitmix},
};

pub mod c01;
pub mod c02;
pub mod c04;
pub mod c08;
pub mod c09;
pub mod c03;
pub mod c06;
pub mod c11;
#[cfg(feature = "real")]
pub mod c14;
pub mod c15;
pub mod c17;
pub mod c20;
pub mod common;
pub mod hon;

#[derive(Debug, Clone, Copy, PartialEq, Eq)]
pub enum Tier {
    Quick,
    Thorough,
}

impl Tier {
    pub fn name(self) -> &'static str {
        match self {
            Tier::Quick => "quick",
            Tier::Thorough => "thorough",
        }
    }
    pub fn pick<T>(self, q: T, t: T) -> T {
        match self {
            Tier::Quick => q,
            Tier::Thorough => t,
        }
    }
}

#[derive(Debug, Clone)]
pub struct Ctx {
    pub prop: &'static str,
    pub tier: Tier,
    pub seed: u64,
    pub threads: usize,
    pub replay: Option<(String, u64, u64)>,
    pub verbose: bool,
}

#[derive(Default)]
pub struct CaseOut {
    pub fp: u64,
    pub nontrivial: bool,
    pub viol: Vec<Violation>,
    pub cnt: Counters,
    pub sample: Option<Value>,
    pub inconclusive: Option<String>,
    pub trace: Option<Vec<String>>,
}

pub struct Group {
    pub name: &'static str,
    pub cases: u64,
    /// wall-clock budget in seconds for this group (soft: no new case is started after it)
    pub budget_s: f64,
    pub exhaustive: bool,
}

#[derive(Default)]
pub struct Report {
    pub evaluations: u64,
    pub fps: BTreeSet<u64>,
    pub nontrivial: u64,
    pub violations: Vec<(String, u64, u64, Violation)>,
    pub cnt: Counters,
    pub samples: Vec<Value>,
    pub inconclusive: Vec<String>,
    pub harness_errors: Vec<String>,
    pub groups: BTreeMap<String, (u64, u64, bool)>,
    pub extra: BTreeMap<String, Value>,
    pub other_props: BTreeMap<String, u64>,
}

thread_local! {
    static LAST_PANIC: std::cell::RefCell<Option<(String, String)>> = const { std::cell::RefCell::new(None) };
}

pub fn install_panic_hook() {
    std::panic::set_hook(Box::new(|info| {
        let loc = info.location().map(|l| format!("{}:{}", l.file(), l.line())).unwrap_or_default();
        let msg = if let Some(s) = info.payload().downcast_ref::<&str>() {
            s.to_string()
        } else if let Some(s) = info.payload().downcast_ref::<String>() {
            s.clone()
        } else {
            "<non-string panic>".to_string()
        };
        // A panic raised inside std on behalf of its caller (clamp, slice indexing helpers,
        // unwrap of a std type ...) reports a location in the standard library: attribute it to
        // the innermost frame that is neither std nor the panic machinery.
        let mut loc = loc;
        if loc.contains("/rustc/") || loc.contains("/library/") {
            let bt = std::backtrace::Backtrace::force_capture().to_string();
            for line in bt.lines() {
                let l = line.trim();
                let Some((_, name)) = l.split_once(": ") else { continue };
                if name.starts_with("std::") || name.starts_with("core::") || name.starts_with("alloc::") || name.starts_with('<') && (name.contains(" as core::") || name.contains(" as std::") || name.contains(" as alloc::")) || name.contains("rust_begin_unwind") || name.contains("__rust") || name.contains("qv::check::install_panic_hook") {
                    continue;
                }
                loc = format!("{loc} (in {name})");
                break;
            }
        }
        LAST_PANIC.with(|p| *p.borrow_mut() = Some((loc, msg)));
    }));
}

pub fn take_panic() -> Option<(String, String)> {
    LAST_PANIC.with(|p| p.borrow_mut().take())
}

/// Is this panic location inside the code under test (as opposed to the harness)?
pub fn panic_in_sut(loc: &str) -> bool {
    loc.contains("/repo/") || loc.contains("quinn")
}

pub fn case_seed(ctx: &Ctx, group: &str, idx: u64) -> u64 {
    let mut x = hash64(ctx.seed, &[group.as_bytes(), &idx.to_le_bytes()]);
    splitmix(&mut x)
}

/// Run the cases of one group across all threads.
pub fn run_group<F>(ctx: &Ctx, rep: &mut Report, g: &Group, f: F)
where
    F: Fn(u64, u64, bool) -> CaseOut + Sync,
{
    // debugging aid: restrict a run to some groups
    if let Ok(only) = std::env::var("QV_ONLY_GROUP") {
        if !only.split(',').any(|x| x == g.name) {
            return;
        }
    }
    // replay mode: run exactly one case, with tracing
    if let Some((gname, idx, seed)) = &ctx.replay {
        if gname != g.name {
            return;
        }
        let out = f(*idx, *seed, true);
        if let Some(tr) = &out.trace {
            for l in tr {
                println!("TRACE {l}");
            }
        }
        rep.evaluations += 1;
        for v in out.viol {
            rep.violations.push((g.name.to_string(), *idx, *seed, v));
        }
        return;
    }
    let start = Instant::now();
    let next = AtomicU64::new(0);
    let stop = AtomicBool::new(false);
    let shared = Mutex::new(std::mem::take(rep));
    let done_cases = AtomicU64::new(0);
    // cases in progress: slot -> (index, seed, started)
    let running: Mutex<BTreeMap<u64, (u64, u64, Instant)>> = Mutex::new(BTreeMap::new());
    let workers_left = AtomicU64::new(ctx.threads as u64);
    let limit_s: f64 = std::env::var("QV_CASE_WATCHDOG_S").ok().and_then(|v| v.parse().ok()).unwrap_or(300.0);
    std::thread::scope(|s| {
        // watchdog: a case normally takes milliseconds to a few seconds. One that has not returned
        // after `limit_s` of wall time is not going to: the process cannot be saved (a thread
        // cannot be killed), so report and exit.
        s.spawn(|| {
            while workers_left.load(Ordering::Relaxed) > 0 {
                std::thread::sleep(std::time::Duration::from_millis(250));
                let stuck = running.lock().unwrap().values().find(|(_, _, t)| t.elapsed().as_secs_f64() > limit_s).copied();
                if let Some((idx, seed, t)) = stuck {
                    hang_exit(ctx, g, idx, seed, t.elapsed().as_secs_f64(), &shared);
                }
            }
        });
        for slot in 0..ctx.threads as u64 {
            let running = &running;
            let workers_left = &workers_left;
            let next = &next;
            let stop = &stop;
            let shared = &shared;
            let done_cases = &done_cases;
            let f = &f;
            s.spawn(move || {
                struct Left<'a>(&'a AtomicU64);
                impl Drop for Left<'_> {
                    fn drop(&mut self) {
                        self.0.fetch_sub(1, Ordering::Relaxed);
                    }
                }
                let _left = Left(workers_left);
                loop {
                if stop.load(Ordering::Relaxed) {
                    break;
                }
                let idx = next.fetch_add(1, Ordering::Relaxed);
                if idx >= g.cases {
                    break;
                }
                if !g.exhaustive && start.elapsed().as_secs_f64() > g.budget_s {
                    stop.store(true, Ordering::Relaxed);
                    break;
                }
                let seed = if g.exhaustive { idx } else { case_seed(ctx, g.name, idx) };
                running.lock().unwrap().insert(slot, (idx, seed, Instant::now()));
                let r = catch_unwind(AssertUnwindSafe(|| f(idx, seed, false)));
                running.lock().unwrap().remove(&slot);
                let mut rep = shared.lock().unwrap();
                rep.evaluations += 1;
                done_cases.fetch_add(1, Ordering::Relaxed);
                match r {
                    Ok(out) => {
                        if out.nontrivial {
                            rep.nontrivial += 1;
                            rep.fps.insert(out.fp);
                        }
                        rep.cnt.merge(&out.cnt);
                        if let Some(s) = out.sample {
                            if rep.samples.len() < 6 {
                                rep.samples.push(s);
                            }
                        }
                        if let Some(i) = out.inconclusive {
                            if rep.inconclusive.len() < 50 {
                                rep.inconclusive.push(format!("{}#{idx}: {i}", g.name));
                            }
                            rep.cnt.inc("inconclusive_cases");
                        }
                        for v in out.viol {
                            if v.prop == ctx.prop || ctx.prop == "ANY" {
                                if rep.violations.len() < 200 {
                                    rep.violations.push((g.name.to_string(), idx, seed, v));
                                }
                            } else {
                                *rep.other_props.entry(format!("{}: {}", v.prop, normalize(&v.msg))).or_insert(0) += 1;
                            }
                        }
                    }
                    Err(_) => {
                        let (loc, msg) = take_panic().unwrap_or_default();
                        if panic_in_sut(&loc) {
                            rep.violations.push((
                                g.name.to_string(),
                                idx,
                                seed,
                                Violation { prop: ctx.prop, msg: format!("panic in code under test at {loc}: {msg}") },
                            ));
                        } else {
                            rep.harness_errors.push(format!("{}#{idx} seed {seed}: harness panic at {loc}: {msg}", g.name));
                        }
                    }
                }
                }
            });
        }
    });
    *rep = shared.into_inner().unwrap();
    let n = done_cases.load(Ordering::Relaxed);
    let e = rep.groups.entry(g.name.to_string()).or_insert((0, 0, false));
    e.0 += n;
    e.1 = g.cases;
    e.2 = g.exhaustive && n == g.cases;
}

/// Replace digit runs so that messages about different instances share a signature.
pub fn normalize(s: &str) -> String {
    let mut out = String::with_capacity(s.len());
    let mut in_num = false;
    for ch in s.chars() {
        if ch.is_ascii_digit() || (in_num && (ch.is_ascii_hexdigit() || ch == '.')) {
            if !in_num {
                out.push('#');
                in_num = true;
            }
        } else {
            in_num = false;
            out.push(ch);
        }
    }
    out
}

#[derive(Debug, Clone)]
pub struct Known {
    pub property: String,
    pub signature: String,
    pub what: String,
}

pub fn load_known(path: &str) -> Vec<Known> {
    let Ok(s) = std::fs::read_to_string(path) else { return vec![] };
    let Ok(v) = serde_json::from_str::<Value>(&s) else { return vec![] };
    let mut out = vec![];
    if let Some(a) = v.get("findings").and_then(|x| x.as_array()) {
        for f in a {
            out.push(Known {
                property: f["property"].as_str().unwrap_or("").to_string(),
                signature: f["signature"].as_str().unwrap_or("\u{0}").to_string(),
                what: f["what"].as_str().unwrap_or("").to_string(),
            });
        }
    }
    out
}


/// A case did not return. For the property about hangs (C03) that is the violation itself; for
/// every other check the run could not decide.
fn hang_exit(ctx: &Ctx, g: &Group, idx: u64, seed: u64, secs: f64, so_far: &Mutex<Report>) -> ! {
    let verif = std::env::var("QV_VERIF_DIR").unwrap_or_else(|_| "/verif".to_string());
    let replay_dir = format!("{verif}/evidence/replays");
    let _ = std::fs::create_dir_all(&replay_dir);
    let path = format!("{replay_dir}/{}-{}-{}-{}.json", ctx.prop, ctx.seed, g.name, idx);
    let msg = format!("case {}#{idx} (seed {seed}) did not return within {secs:.0} s of wall time; cases of this group normally take milliseconds", g.name);
    let body = json!({"property": ctx.prop, "group": g.name, "case_index": idx, "case_seed": seed, "tier": ctx.tier.name(), "run_seed": ctx.seed, "message": msg});
    let _ = std::fs::write(&path, serde_json::to_string_pretty(&body).unwrap());
    let violation = ctx.prop == "C03";
    // violations found before the stuck case are not lost: they are reported and decide the run
    let mut earlier = 0;
    if let Ok(rep) = so_far.try_lock() {
        let known = load_known(&format!("{verif}/known_findings.json"));
        let mut seen = BTreeSet::new();
        for (vg, vidx, vseed, v) in &rep.violations {
            let sig = normalize(&v.msg);
            if known.iter().any(|k| k.property == v.prop && sig.contains(&k.signature)) {
                continue;
            }
            earlier += 1;
            if !seen.insert(sig) || seen.len() > 10 {
                continue;
            }
            let vpath = format!("{replay_dir}/{}-{}-{}-{}.json", ctx.prop, ctx.seed, vg, vidx);
            let vbody = json!({"property": ctx.prop, "group": vg, "case_index": vidx, "case_seed": vseed, "tier": ctx.tier.name(), "run_seed": ctx.seed, "message": v.msg});
            let _ = std::fs::write(&vpath, serde_json::to_string_pretty(&vbody).unwrap());
            println!("VIOLATION property={} replay={}", v.prop, vpath);
            println!("  detail: {}", v.msg);
        }
    }
    if earlier > 0 && !violation {
        println!("INCONCLUSIVE-CASE: {msg}");
        let ev = json!({
            "property_id": ctx.prop,
            "tier": ctx.tier.name(),
            "seed": ctx.seed,
            "level": "exploration",
            "coverage": {"evaluations": 0, "distinct_nontrivial": 0, "rule": "run aborted by the per-case watchdog after violations had been found", "samples": [body]},
            "wall_s": secs,
            "verdict": "violated",
            "violations": earlier,
        });
        let _ = std::fs::create_dir_all(format!("{verif}/evidence"));
        let _ = std::fs::write(format!("{verif}/evidence/{}.json", ctx.prop), serde_json::to_string_pretty(&ev).unwrap());
        println!("{}: run aborted by the watchdog, {earlier} violations before that => exit 1", ctx.prop);
        std::process::exit(1);
    }
    let ev = json!({
        "property_id": ctx.prop,
        "tier": ctx.tier.name(),
        "seed": ctx.seed,
        "level": "exploration",
        "coverage": {"evaluations": 0, "distinct_nontrivial": 0, "rule": "run aborted by the per-case watchdog", "samples": [body]},
        "wall_s": secs,
        "verdict": if violation { "violated" } else { "inconclusive" },
        "violations": if violation { json!([{"group": g.name, "case": idx, "message": msg}]) } else { json!([]) },
    });
    let _ = std::fs::create_dir_all(format!("{verif}/evidence"));
    let _ = std::fs::write(format!("{verif}/evidence/{}.json", ctx.prop), serde_json::to_string_pretty(&ev).unwrap());
    if violation {
        println!("VIOLATION property={} replay={}", ctx.prop, path);
        println!("  detail: {msg} (unbounded work on peer-controlled input)");
        std::process::exit(1);
    }
    println!("INCONCLUSIVE: property={} {msg}", ctx.prop);
    std::process::exit(2);
}

pub struct Finish {
    pub level: &'static str,
    pub rule: String,
    pub assumptions: Vec<String>,
    /// minimum number of evaluations / nontrivial cases below which the run is inconclusive
    pub min_evals: u64,
    pub min_nontrivial: u64,
    /// counters that must be > 0 for the run to be conclusive
    pub required: Vec<&'static str>,
    pub exhaustive: bool,
}

/// Write evidence, print verdict lines, return the process exit code.
pub fn finish(ctx: &Ctx, rep: &Report, fin: Finish, wall_s: f64) -> i32 {
    let verif = std::env::var("QV_VERIF_DIR").unwrap_or_else(|_| "/verif".to_string());
    let known = load_known(&format!("{verif}/known_findings.json"));
    let mut new_viol = vec![];
    let mut known_hit: BTreeMap<String, u64> = BTreeMap::new();
    for (g, idx, seed, v) in &rep.violations {
        let sig = normalize(&v.msg);
        if let Some(k) = known.iter().find(|k| k.property == v.prop && ctx.prop != "ANY" && sig.contains(&k.signature)) {
            *known_hit.entry(k.what.clone()).or_insert(0) += 1;
        } else {
            new_viol.push((g, idx, seed, v));
        }
    }
    if ctx.prop == "ANY" || std::env::var("QV_SIGHIST").is_ok() {
        let mut hist: BTreeMap<String, (u64, String)> = BTreeMap::new();
        for (g, idx, _seed, v) in &rep.violations {
            let mut sig = format!("{} {}", v.prop, normalize(&v.msg));
            sig.truncate(150);
            let e = hist.entry(sig).or_insert((0, format!("{g}#{idx}")));
            e.0 += 1;
        }
        for (k, (n, first)) in &hist {
            println!("SIG {n:5} first={first} {k}");
        }
    }
    for (what, n) in &known_hit {
        println!("KNOWN-FINDING: property={} {} (seen {} times this run)", ctx.prop, what, n);
    }
    let mut exit = 0;
    let replay_dir = format!("{verif}/evidence/replays");
    let mut seen_sigs = BTreeSet::new();
    for (g, idx, seed, v) in &new_viol {
        let sig = normalize(&v.msg);
        if !seen_sigs.insert(sig) || seen_sigs.len() > 10 {
            continue;
        }
        let _ = std::fs::create_dir_all(&replay_dir);
        let path = format!("{replay_dir}/{}-{}-{}-{}.json", ctx.prop, ctx.seed, g, idx);
        let body = json!({"property": ctx.prop, "group": g, "case_index": idx, "case_seed": seed, "tier": ctx.tier.name(), "run_seed": ctx.seed, "message": v.msg});
        let _ = std::fs::write(&path, serde_json::to_string_pretty(&body).unwrap());
        println!("VIOLATION property={} replay={}", v.prop, path);
        println!("  detail: {}", v.msg);
        exit = 1;
    }
    let mut inconclusive_reasons = vec![];
    if !rep.harness_errors.is_empty() {
        for e in rep.harness_errors.iter().take(5) {
            println!("HARNESS-ERROR: {e}");
        }
        inconclusive_reasons.push(format!("{} harness errors", rep.harness_errors.len()));
    }
    if rep.evaluations < fin.min_evals {
        inconclusive_reasons.push(format!("only {} evaluations (floor {})", rep.evaluations, fin.min_evals));
    }
    if (rep.fps.len() as u64) < fin.min_nontrivial {
        inconclusive_reasons.push(format!("only {} distinct non-trivial cases (floor {})", rep.fps.len(), fin.min_nontrivial));
    }
    for r in &fin.required {
        if rep.cnt.get(r) == 0 {
            inconclusive_reasons.push(format!("required oracle/counter '{r}' never fired"));
        }
    }
    for i in rep.inconclusive.iter().take(5) {
        println!("INCONCLUSIVE-CASE: {i}");
    }
    if exit == 0 && !inconclusive_reasons.is_empty() && ctx.replay.is_none() {
        for r in &inconclusive_reasons {
            println!("INCONCLUSIVE: property={} {}", ctx.prop, r);
        }
        exit = 2;
    }
    for (k, n) in rep.other_props.iter().take(10) {
        println!("NOTE: monitor of another property fired {n}x during this check: {k}");
    }
    let mut coverage = json!({
        "evaluations": rep.evaluations,
        "distinct_nontrivial": rep.fps.len(),
        "nontrivial_total": rep.nontrivial,
        "rule": fin.rule,
        "samples": rep.samples,
        "counters": rep.cnt.m,
        "groups": rep.groups.iter().map(|(k, v)| (k.clone(), json!({"ran": v.0, "planned": v.1, "complete": v.2}))).collect::<BTreeMap<_, _>>(),
        "inconclusive_cases": rep.inconclusive.len(),
        "known_findings_seen": known_hit,
        "exhaustive": fin.exhaustive,
    });
    for (k, v) in &rep.extra {
        coverage[k] = v.clone();
    }
    let ev = json!({
        "property_id": ctx.prop,
        "tier": ctx.tier.name(),
        "seed": ctx.seed,
        "level": fin.level,
        "coverage": coverage,
        "assumptions": fin.assumptions,
        "wall_s": wall_s,
        "violations": new_viol.len(),
        "verdict": match exit { 0 => "held on what was observed", 1 => "violated", _ => "inconclusive" },
    });
    if ctx.replay.is_none() {
        let _ = std::fs::create_dir_all(format!("{verif}/evidence"));
        let path = format!("{verif}/evidence/{}.json", ctx.prop);
        std::fs::write(&path, serde_json::to_string_pretty(&ev).unwrap()).expect("write evidence");
    }
    println!(
        "{}: {} evaluations, {} distinct non-trivial, {} violations, {} known, wall {:.1}s => exit {}",
        ctx.prop,
        rep.evaluations,
        rep.fps.len(),
        new_viol.len(),
        known_hit.values().sum::<u64>(),
        wall_s,
        exit
    );
    exit
}

pub fn fingerprint(parts: &[&str], nums: &[u64]) -> u64 {
    let mut v = Vec::new();
    for p in parts {
        v.extend_from_slice(p.as_bytes());
        v.push(0);
    }
    for n in nums {
        v.extend_from_slice(&n.to_le_bytes());
    }
    hash64(0xF1, &[&v])
}

/// log2 bucket
pub fn bucket(n: u64) -> u64 {
    64 - n.leading_zeros() as u64
}
