//! Helpers shared by the per-property checks.

use serde_json::json;

use super::{bucket, fingerprint, CaseOut};
use crate::{
    scen::Honest,
    world::{RunEnd, World},
};

pub struct Ran {
    pub w: World,
    pub end: RunEnd,
}

/// Build and run an honest world until its workload is complete (or nothing can happen).
pub fn run_honest(h: &Honest, trace: bool, max_steps: u64, max_ns: u64) -> Ran {
    let mut w = h.build();
    if trace {
        w.trace = Some(vec![]);
    }
    let end = w.run(max_steps, max_ns, |w| w.steps > 3 && w.all_connected() && w.workload_complete());
    Ran { w, end }
}

/// Let a finished world wind down: close everything and run until drained/quiescent.
pub fn wind_down(w: &mut World, max_steps: u64) -> RunEnd {
    w.apply_op(crate::world::Op::CloseAll { code: 0 });
    let limit = w.now + 120_000_000_000;
    w.run(max_steps, limit, |_| false)
}

pub fn any_lost(w: &World) -> bool {
    w.eps.iter().any(|e| e.conns.values().any(|c| c.app.lost_count > 0))
}

/// Coverage fingerprint: which fault kinds fired, which application outcomes and monitor
/// oracles were exercised, bucketised volumes.
pub fn coverage_fp(w: &World, end: &RunEnd) -> u64 {
    let mut parts: Vec<&str> = vec![];
    for k in w.net.fired.m.keys() {
        parts.push(k);
    }
    for k in w.led.cnt.m.keys() {
        parts.push(k);
    }
    for k in w.mon.cnt.m.keys() {
        parts.push(k);
    }
    let endtag = format!("{end:?}");
    parts.push(&endtag);
    fingerprint(
        &parts,
        &[
            bucket(w.led.cnt.get("c01.bytes")),
            bucket(w.net.fired.get("loss")),
            bucket(w.led.flows.len() as u64),
            w.eps.len() as u64,
        ],
    )
}

pub fn base_out(h: &Honest, ran: &mut Ran, trace: bool) -> CaseOut {
    let mut out = CaseOut::default();
    out.fp = coverage_fp(&ran.w, &ran.end);
    out.cnt.merge(&ran.w.led.cnt);
    out.cnt.merge(&ran.w.mon.cnt);
    for (k, v) in &ran.w.net.fired.m {
        out.cnt.add(leak_prefixed("net.", k), *v);
    }
    out.cnt.add("steps", ran.w.steps);
    out.cnt.inc(match ran.end {
        RunEnd::Done => "end.done",
        RunEnd::Quiescent => "end.quiescent",
        RunEnd::StepCap => "end.stepcap",
        RunEnd::TimeCap => "end.timecap",
    });
    out.viol = ran.w.all_violations();
    out.sample = Some(json!({
        "scenario": h.summary(),
        "end": format!("{:?}", ran.end),
        "steps": ran.w.steps,
        "virtual_ms": ran.w.now / 1_000_000,
        "bytes_verified": ran.w.led.cnt.get("c01.bytes"),
        "flows": ran.w.led.flows.len(),
        "faults_fired": ran.w.net.fired.m,
    }));
    if trace {
        out.trace = ran.w.trace.take();
        if let Some(t) = &mut out.trace {
            t.push(format!("SCENARIO {}", h.describe()));
            for (k, f) in &ran.w.led.flows {
                if !f.complete() {
                    t.push(format!(
                        "FLOW {k:?} written={} fin={:?} reset={:?} finished_evt={} stopped_seen={:?} delivered={:?} eos={} recv_reset={:?} recv_stop={:?} unordered={}",
                        f.written, f.fin_at, f.reset, f.finished_evt, f.stopped_seen, f.delivered.as_slice(), f.eos, f.recv_reset, f.recv_stop, f.unordered
                    ));
                }
            }
        }
    }
    out
}

/// Interned static strings for dynamically-built counter names.
pub fn leak_prefixed(prefix: &str, k: &str) -> &'static str {
    use std::{collections::BTreeMap, sync::Mutex};
    static TABLE: Mutex<BTreeMap<String, &'static str>> = Mutex::new(BTreeMap::new());
    let key = format!("{prefix}{k}");
    let mut t = TABLE.lock().unwrap();
    if let Some(s) = t.get(&key) {
        return s;
    }
    let s: &'static str = Box::leak(key.clone().into_boxed_str());
    t.insert(key, s);
    s
}
