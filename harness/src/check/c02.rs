//! C02 — connections make progress: no deadlock under fair loss.
//!
//! Restated for a finite run: faults are confined to [0, T_f]; afterwards the network is FIFO and
//! loss-free. (a) stuck oracle: a sans-IO world with no armed timer, no datagram in flight and an
//! incomplete workload can never move again => violation, no time bound involved. (b) bounded
//! progress: the workload completes within a generous virtual-time bound after T_f.

use std::collections::BTreeSet;

use super::{common::*, finish, run_group, CaseOut, Ctx, Finish, Group, Report};
use crate::{
    cfg::CcKind,
    scen::{Honest, Knobs},
    util::Rng,
    world::{IncomingPolicy, Lane, Op, RunEnd, World},
};

const T_F: u64 = 5_000_000_000;
const BOUND_NS: u64 = 3_600_000_000_000;

pub fn diag(w: &World) -> String {
    let mut s = String::new();
    for (ei, e) in w.eps.iter().enumerate() {
        for (ch, c) in &e.conns {
            let p = c.c.verif_probe();
            s.push_str(&format!(
                " [{ei}/{ch} {} timers={:?} in_flight={}/{} pto_count={} window={} unacked={} send_window={} data_sent={} max_data={} next={:?} max={:?} jobs_done={} connected={}]",
                p.state,
                p.timers.iter().map(|t| t.0).collect::<Vec<_>>(),
                p.in_flight_bytes,
                p.in_flight_ack_eliciting,
                p.pto_count,
                p.window,
                p.streams.unacked_data,
                p.streams.send_window,
                p.streams.data_sent,
                p.streams.max_data,
                p.streams.next,
                p.streams.max,
                c.app.jobs_done(),
                c.app.connected
            ));
        }
    }
    s
}

/// Recognise the pad_to_mtu wedge (see known_findings.json): padded ACK-only packets count as
/// in flight, are never acknowledged, and fill a minimum-size congestion window for good.
fn pad_wedge(w: &World) -> bool {
    w.eps.iter().any(|e| {
        e.conns.values().any(|c| {
            let p = c.c.verif_probe();
            c.tcfg.pad_to_mtu
                && p.in_flight_bytes > 0
                && p.in_flight_bytes + c.c.current_mtu() as u64 >= p.window
        })
    })
}

pub fn judge(h: &Honest, ran: &mut Ran) {
    let lost = any_lost(&ran.w);
    let path_mtu = ran.w.netcfg.mtu;
    let pad_blackhole = ran.w.eps.iter().any(|e| e.conns.values().any(|c| c.tcfg.pad_to_mtu && c.c.current_mtu() as usize > path_mtu));
    let tag = if pad_wedge(&ran.w) {
        "[pad_to_mtu wedge: padded non-ack-eliciting packets fill the congestion window] "
    } else if pad_blackhole {
        "[pad_to_mtu black hole: ACK-only packets padded beyond the path MTU are all dropped] "
    } else if ran.w.eps.iter().any(|e| e.conns.values().any(|c| c.tcfg.pad_to_mtu)) {
        "[pad_to_mtu configuration: full-size ACK-only packets] "
    } else {
        ""
    };
    match ran.end {
        RunEnd::Done => {}
        RunEnd::Quiescent => {
            if !lost {
                let d = diag(&ran.w);
                let pending: Vec<String> = ran
                    .w
                    .led
                    .flows
                    .iter()
                    .filter(|(_, f)| f.must_complete() && !f.complete())
                    .map(|(k, f)| format!("{k:?} written={} eos={} finished_evt={}", f.written, f.eos, f.finished_evt))
                    .collect();
                ran.w.led.violate(
                    "C02",
                    format!(
                        "{tag}stuck: no timer armed, no datagram in flight, workload incomplete (connected={} pending flows {:?});{d} | {}",
                        ran.w.all_connected(),
                        pending,
                        h.summary()
                    ),
                );
            }
        }
        RunEnd::TimeCap => {
            if !lost {
                let d = diag(&ran.w);
                let blocked = ran.w.eps.iter().any(|e| {
                    e.conns.values().any(|c| {
                        let p = c.c.verif_probe();
                        p.in_flight_bytes + c.c.current_mtu() as u64 >= p.window && p.pto_count >= 3
                    })
                });
                let tag = if tag.is_empty() && blocked { "[congestion-blocked sender starves its own ACKs: recovery only at PTO back-off pace] " } else { tag };
                ran.w.led.violate("C02", format!("{tag}no completion within {} s of virtual time after faults stopped;{d} | {}", BOUND_NS / 1_000_000_000, h.summary()));
            }
        }
        RunEnd::StepCap => {}
    }
    if lost {
        // with idle timeout disabled an honest connection must never be lost
        let reasons: Vec<String> = ran.w.eps.iter().flat_map(|e| e.conns.values().flat_map(|c| c.app.lost.clone())).collect();
        let tolerated = reasons.iter().all(|r| r.contains("INVALID_TOKEN")) && ran.w.mon.rebinds > 0;
        // Version Negotiation is unauthenticated by design: a corrupting network can turn a genuine
        // long-header packet (version 1 -> 0) into one, and a client that has not yet accepted a
        // server packet gives up on it (what C04 permits)
        let tolerated = tolerated || (reasons.iter().all(|r| r.contains("VersionMismatch")) && ran.w.net.fired.get("corrupt") > 0);
        if !tolerated {
            ran.w.led.violate("C02", format!("connection lost although peers are honest and idle timeout is off: {reasons:?} | {}", h.summary()));
        }
    }
}

fn knobs(seed: u64, lane: Lane) -> Knobs {
    let mut k = Knobs::default();
    k.lane = lane;
    k.idle_off = true;
    k.fault_window_ns = Some(T_F);
    k.max_stream_len = 48 * 1024;
    k.max_streams = 6;
    k.n_clients = 1 + (seed % 4 == 0) as usize;
    k.migration = seed % 7 == 0;
    k.early = seed % 3 == 0;
    k
}

fn random_case(seed: u64, lane: Lane, trace: bool) -> CaseOut {
    let mut h = Honest::random(seed, &knobs(seed, lane));
    // (a Retry token that expires while losses keep the handshake from finishing ends the attempt
    // with INVALID_TOKEN by design: not a progress failure)
    h.retry_lifetime_ms = 10_000_000;
    let mut r = Rng::new(seed ^ 0xC02);
    // Keep the fault window short relative to the probe timeout: PTO back-off doubles per
    // unanswered probe (up to 2^16), so a long blackout at a tiny RTT legitimately postpones
    // recovery by hours and would make any fixed progress bound meaningless.
    let min_rtt_ms = h.cli_t.iter().map(|t| t.initial_rtt_ms).chain([h.srv_t.initial_rtt_ms]).min().unwrap();
    h.net.fault_until_ns = (60 * min_rtt_ms * 1_000_000).clamp(200_000_000, T_F);
    // limits that start at zero and are raised at run time
    if r.chance(25) {
        h.srv_t.max_bidi = 0;
        h.srv_t.max_uni = 0;
        // repeated so that connections accepted late (held incoming, lost flights) get it too
        let t0 = r.below(2_000_000_000);
        for dt in [0u64, 1, 3, 6, 10, 20, 40] {
            h.ops.push((t0 + dt * 1_000_000_000, Op::SetMaxConcurrent { ep: 0, bidi: true, v: 4 }));
            h.ops.push((t0 + dt * 1_000_000_000, Op::SetMaxConcurrent { ep: 0, bidi: false, v: 4 }));
        }
        for a in &mut h.cli_app {
            if a.plans.is_empty() {
                a.plans.push(crate::app::StreamPlan { bidi: r.bool(), len: 3000, chunk: 1200, use_write_chunks: false, end: crate::app::EndMode::Finish, prio: 0 });
            }
        }
    }
    if r.chance(20) {
        h.cli_t[0].cc = CcKind::Fixed(*r.pick(&[2401, 2500, 3000, 4000]));
    }
    run_judged(&h, trace)
}

/// Rate-capped senders under a driver that keeps polling while the pacer holds them back (a driver
/// "that polls more often than strictly necessary"): small transfers, every pacing wait sampled
/// thousands of times.
fn busy_poll_case(seed: u64, trace: bool) -> CaseOut {
    let mut k = knobs(seed, Lane::Null);
    k.max_stream_len = 6 * 1024;
    k.max_streams = 2;
    k.n_clients = 1;
    k.migration = false;
    k.ops = false;
    // (no faults and no starved windows: what limits these transfers is the pacer alone, so a
    // minute of virtual time is a generous bound)
    k.faults = false;
    let mut h = Honest::random(seed, &k);
    h.retry_lifetime_ms = 10_000_000;
    let mut r = Rng::new(seed ^ 0xB5);
    h.net.fault_until_ns = 0;
    h.net.latency_ns = h.net.latency_ns.min(50_000_000);
    for t in h.cli_t.iter_mut().chain([&mut h.srv_t]) {
        t.max_bps = Some(*r.pick(&[20_000, 100_000, 1_000_000]));
        t.pad_to_mtu = false;
        t.send_window = t.send_window.max(100_000);
        t.stream_rwnd = t.stream_rwnd.max(20_000);
        t.rwnd = t.rwnd.max(60_000);
        if let CcKind::Fixed(w) = t.cc {
            t.cc = CcKind::Fixed(w.max(6000));
        }
    }
    for a in h.cli_app.iter_mut().chain([&mut h.srv_app]) {
        a.dgram_count = a.dgram_count.min(5);
    }
    h.drv.busy_poll = true;
    h.drv.extra_poll_pct = 0;
    // a few kilobytes at 20 kB/s and more: a minute of virtual time is ample (and all a case whose
    // pacer never lets go again can be given: it is sampled every few microseconds)
    let cap_ns = 60_000_000_000;
    let mut ran = run_honest(&h, trace, 8_000_000, cap_ns);
    if ran.end == RunEnd::TimeCap && !crate::check::common::any_lost(&ran.w) {
        let d = diag(&ran.w);
        ran.w.led.violate("C02", format!("[busy-poll] no completion within {} s of virtual time although the driver serviced every deadline (and polled in between);{d} | {}", cap_ns / 1_000_000_000, h.summary()));
        ran.end = RunEnd::Done;
    }
    judge(&h, &mut ran);
    let mut out = base_out(&h, &mut ran, trace);
    out.nontrivial = out.cnt.get("drv.busy_polls") > 0;
    if ran.end == RunEnd::StepCap {
        out.inconclusive = Some(format!("step cap before completion ({})", h.summary()));
    }
    out
}

/// Peers that sit at a small stream-count limit and whose readers give streams up instead of
/// reading them: many short streams, most of them reset or finished within their first packet, so
/// that the reader's stop() meets a stream whose final size is already known, with nothing else in
/// flight that could carry the new credit by accident.
fn stream_credit_case(seed: u64, trace: bool) -> CaseOut {
    let mut k = knobs(seed, Lane::Null);
    k.max_stream_len = 600;
    k.max_streams = 2;
    k.n_clients = 1;
    k.migration = false;
    k.ops = false;
    k.faults = false;
    k.datagrams = false;
    k.mtu_changes = false;
    let mut h = Honest::random(seed, &k);
    h.retry_lifetime_ms = 10_000_000;
    let mut r = Rng::new(seed ^ 0x5C);
    h.net.fault_until_ns = 0;
    h.cid_lifetime_ms = None;
    for t in h.cli_t.iter_mut().chain([&mut h.srv_t]) {
        t.max_bidi = 1 + r.below(3);
        t.max_uni = 1 + r.below(3);
        t.keep_alive_ms = None;
        t.pad_to_mtu = false;
        // (byte windows are not what this group is about: starved ones only make worlds slow)
        t.send_window = t.send_window.max(100_000);
        t.stream_rwnd = t.stream_rwnd.max(20_000);
        t.rwnd = t.rwnd.max(60_000);
    }
    for a in h.cli_app.iter_mut().chain([&mut h.srv_app]) {
        a.dgram_count = 0;
        a.read_enabled = true;
        a.stop_pct = *r.pick(&[60, 100]);
        a.respond_max = a.respond_max.min(300);
        a.plans.clear();
        for _ in 0..4 + r.usize(9) {
            let len = r.below(600);
            let end = if r.chance(60) { crate::app::EndMode::ResetAt { at: r.below(len + 1).min(r.below(3) * 200), code: r.below(1000) } } else { crate::app::EndMode::Finish };
            a.plans.push(crate::app::StreamPlan { bidi: r.chance(35), len, chunk: 1200, use_write_chunks: r.bool(), end, prio: 0 });
        }
    }
    let mut out = run_judged(&h, trace);
    out.nontrivial = out.cnt.get("app.blind_stop") > 0;
    out
}

fn run_judged(h: &Honest, trace: bool) -> CaseOut {
    let mut ran = run_honest(h, trace, 60_000, T_F + BOUND_NS);
    judge(h, &mut ran);
    let mut out = base_out(h, &mut ran, trace);
    out.nontrivial = out.cnt.get("c01.bytes") > 0 || out.cnt.get("conn.created") >= 2;
    if ran.end == RunEnd::StepCap {
        out.inconclusive = Some(format!("step cap before completion ({})", h.summary()));
    }
    out
}

/// Enumerated loss: every subset of the first K datagrams in one direction is dropped.
fn enum_case(idx: u64, k_bits: u32, lane: Lane, trace: bool) -> CaseOut {
    let cfgs = 6u64;
    let subsets = 1u64 << k_bits;
    let cfg = idx / (2 * subsets) % cfgs;
    let dir = ((idx / subsets) % 2) as usize;
    let mask = idx % subsets;
    let mut kn = Knobs::default();
    kn.lane = lane;
    kn.idle_off = true;
    kn.faults = false;
    kn.ops = false;
    kn.datagrams = false;
    kn.aborts = false;
    kn.max_stream_len = 20_000;
    kn.max_streams = 3;
    kn.random_cfg = cfg >= 3;
    let mut h = Honest::random(1000 + cfg, &kn);
    h.retry_lifetime_ms = 10_000_000;
    h.policy = [IncomingPolicy::Accept, IncomingPolicy::RetryFirst, IncomingPolicy::HoldNs(3_000_000)][(cfg % 3) as usize];
    let mut set = BTreeSet::new();
    for b in 0..k_bits {
        if mask & (1 << b) != 0 {
            set.insert(b as u64);
        }
    }
    h.net.drop_idx[dir] = set;
    h.seed = 1000 + cfg;
    let mut out = run_judged(&h, trace);
    out.fp = super::fingerprint(&["enum"], &[cfg, dir as u64, mask]);
    out.nontrivial = true;
    if let Some(s) = &mut out.sample {
        s["enumerated_drop"] = serde_json::json!({"direction": dir, "mask": mask, "config": cfg});
    }
    out
}

pub fn run(ctx: &Ctx) -> i32 {
    let t = std::time::Instant::now();
    let mut rep = Report::default();
    let kb = ctx.tier.pick(7u32, 11u32);
    let g = Group { name: "enum-loss", cases: 6 * 2 * (1u64 << kb), budget_s: 1e9, exhaustive: true };
    run_group(ctx, &mut rep, &g, |idx, _, trace| enum_case(idx, kb, Lane::Null, trace));
    let g = Group { name: "random-null", cases: ctx.tier.pick(1500, 120_000), budget_s: ctx.tier.pick(45.0, 720.0), exhaustive: false };
    run_group(ctx, &mut rep, &g, |_, seed, trace| random_case(seed, Lane::Null, trace));
    let g = Group { name: "stream-credit", cases: ctx.tier.pick(8000, 400_000), budget_s: ctx.tier.pick(15.0, 150.0), exhaustive: false };
    run_group(ctx, &mut rep, &g, |_, seed, trace| stream_credit_case(seed, trace));
    let g = Group { name: "busy-poll", cases: ctx.tier.pick(200, 20_000), budget_s: ctx.tier.pick(20.0, 200.0), exhaustive: false };
    run_group(ctx, &mut rep, &g, |_, seed, trace| busy_poll_case(seed, trace));
    #[cfg(feature = "real")]
    {
        let g = Group { name: "random-real", cases: ctx.tier.pick(100, 5000), budget_s: ctx.tier.pick(20.0, 180.0), exhaustive: false };
        run_group(ctx, &mut rep, &g, |_, seed, trace| random_case(seed, Lane::Real, trace));
    }
    finish(
        ctx,
        &rep,
        Finish {
            level: "fault_enumeration",
            rule: format!("(1) exhaustive: every subset of the first {kb} datagrams in each direction dropped, x 6 configurations (accept / retry / held incoming; default and random transport configs); (2) seeded random worlds with idle timeout off, faults (loss/dup/reorder/corrupt/CE/MTU) confined to the first 5 s of virtual time, random congestion controllers incl. tiny fixed windows, pacing caps, ack-frequency, MTU discovery, keep-alive, stream limits 0-then-raised, run-time window/limit changes, pings, key updates, rebinding, early (pre-handshake) writes, CID rotation, random driver schedules. (3) busy-poll: small transfers between rate-capped peers (20 kB/s - 1 MB/s) under a driver that, besides servicing every deadline, polls a connection again and again while its pacing timer is armed, at intervals in which less than half a byte of pacing budget accrues. Applications are strictly event-driven. Non-trivial = handshake ran; distinct = coverage fingerprint (enumerated cases: the (config, direction, subset) triple)."),
            assumptions: vec![
                "liveness is restated as bounded progress: completion within 3600 s of virtual time after faults stop, plus the sound stuck oracle (no timer, nothing in flight, incomplete)".into(),
                "a run that exceeds the step cap is inconclusive, not a violation".into(),
            ],
            min_evals: ctx.tier.pick(500, 20_000),
            min_nontrivial: ctx.tier.pick(200, 2000),
            required: vec!["end.done", "net.enum_drop", "net.loss", "app.write_blocked", "app.open_blocked", "op.key_update"],
            exhaustive: false,
        },
        t.elapsed().as_secs_f64(),
    )
}
