//! C15 — path migration keeps the connection and cannot be hijacked.
//!
//! The oracle works on the per-connection log of every `Transmit.destination` (monitor) against
//! what the harness knows: which addresses the genuine client used and when, and which addresses
//! an attacker replayed genuine packets from and when.
//!
//!  * migrate: genuine address changes (port only / whole address, repeated, overlapping, with and
//!    without telling the connection) during transfers in both directions, under loss, with CID
//!    rotation: the transfers complete, the server ends up sending to the client's final address,
//!    never sends to an address the client did not use, and respects the 3x limit on each new path.
//!  * hijack: genuine client datagrams are replayed from third addresses, racing the original or
//!    late: the server may move there only briefly (three probe timeouts), sends no more than 3x
//!    what arrived from there, and the genuine transfer completes.
//!  * ignore: replays towards clients and towards servers with migration disabled change
//!    nothing: no transmit ever goes to another address.

use std::{collections::BTreeMap, net::SocketAddr, time::Instant};

use proto::Side;
use serde_json::json;

use super::{common::*, finish, fingerprint, run_group, CaseOut, Ctx, Finish, Group, Report};
use crate::{
    app::Violation,
    scen::{Honest, Knobs},
    util::Rng,
    world::{addr_of, Lane, RunEnd, World},
};

fn base_knobs(lane: Lane) -> Knobs {
    let mut k = Knobs::default();
    k.lane = lane;
    k.max_stream_len = 120_000;
    k.max_streams = 5;
    k.n_clients = 1;
    k.ops = false;
    k.mtu_changes = false;
    k.idle_off = true;
    k.fault_window_ns = Some(4_000_000_000);
    k
}

fn scenario(seed: u64, lane: Lane, r: &mut Rng, faults: bool) -> Honest {
    let mut k = base_knobs(lane);
    k.faults = faults;
    let mut h = Honest::random(seed, &k);
    for t in h.cli_t.iter_mut().chain([&mut h.srv_t]) {
        t.pad_to_mtu = false; // (wedges on its own: recorded under C02)
        t.max_bps = None;
        if let crate::cfg::CcKind::Fixed(w) = t.cc {
            t.cc = crate::cfg::CcKind::Fixed(w.max(20_000));
        }
        if matches!(t.cc, crate::cfg::CcKind::Adversarial { .. } | crate::cfg::CcKind::Bbr) {
            t.cc = crate::cfg::CcKind::Cubic;
        }
        t.keep_alive_ms = None;
    }
    // migration needs connection IDs on the server side and spare ones on the client side
    h.cid_len = [*r.pick(&[4, 8, 20]), *r.pick(&[0, 4, 8, 20])];
    h.policy = *r.pick(&[crate::world::IncomingPolicy::Accept, crate::world::IncomingPolicy::Accept, crate::world::IncomingPolicy::RetryFirst]);
    // both directions carry data
    if h.srv_app.plans.is_empty() {
        h.srv_app.plans.push(crate::app::StreamPlan { bidi: false, len: 20_000 + r.below(60_000), chunk: 4096, use_write_chunks: false, end: crate::app::EndMode::Finish, prio: 0 });
        h.cli_t[0].max_uni = h.cli_t[0].max_uni.max(2);
    }
    if h.cli_app[0].plans.iter().all(|p| p.len < 10_000) {
        h.cli_app[0].plans.push(crate::app::StreamPlan { bidi: false, len: 30_000 + r.below(60_000), chunk: 4096, use_write_chunks: false, end: crate::app::EndMode::Finish, prio: 0 });
        h.srv_t.max_uni = h.srv_t.max_uni.max(2);
    }
    h
}

struct Facts {
    /// addresses the genuine client used: address -> first time it was in use
    genuine: BTreeMap<SocketAddr, u64>,
    /// address -> the last time the client moved (back) to it
    arrived: BTreeMap<SocketAddr, u64>,
    /// spoofed replays delivered to an endpoint: (arrival time, spoofed source, bytes)
    spoofs: Vec<(u64, SocketAddr, usize)>,
}

/// Check one connection's transmit log against the facts.
fn judge_transmits(w: &World, ei: usize, ch: usize, facts: &Facts, may_migrate: bool, original_remote: SocketAddr, out: &mut Vec<String>, cnt: &mut crate::app::Counters) {
    let Some(cm) = w.mon.conns.get(&(ei, ch)) else { return };
    let pto3 = 3 * cm.max_pto_ns.max(1_000_000) + 2 * w.netcfg.latency_ns + w.drv.timer_late_ns * 4 + 5_000_000;
    let mut to_spoof: BTreeMap<SocketAddr, u64> = BTreeMap::new();
    let mut biggest: BTreeMap<SocketAddr, u64> = BTreeMap::new();
    let mut visits: BTreeMap<SocketAddr, u64> = BTreeMap::new();
    let mut prev_dst: Option<SocketAddr> = None;
    for &(t, dst, bytes) in &cm.tx_log {
        cnt.inc("c15.transmits_judged");
        if prev_dst != Some(dst) {
            *visits.entry(dst).or_insert(0) += 1;
            prev_dst = Some(dst);
        }
        if !may_migrate {
            if dst != original_remote {
                out.push(format!("conn {ei}/{ch} (must not migrate) sent {bytes} bytes to {dst} at {t} ns; its peer is {original_remote}"));
                return;
            }
            continue;
        }
        if let Some(&since) = facts.genuine.get(&dst) {
            // a genuine address; it cannot be used before the client first sent from it
            if t + 1 < since {
                out.push(format!("conn {ei}/{ch} sent to {dst} at {t} ns, before the client ever used that address ({since} ns)"));
                return;
            }
            continue;
        }
        // not an address of the client: only explicable by a replay from there shortly before
        let last = facts.spoofs.iter().filter(|(at, src, _)| *src == dst && *at <= t).map(|x| x.0).max();
        match last {
            None => {
                out.push(format!("conn {ei}/{ch} sent {bytes} bytes to {dst} at {t} ns: nobody ever sent from that address"));
                return;
            }
            Some(at) => {
                cnt.inc("c15.transmits_to_spoofed_address");
                *to_spoof.entry(dst).or_insert(0) += bytes as u64;
                let b = biggest.entry(dst).or_insert(0);
                *b = (*b).max(bytes as u64);
                if t - at > pto3 {
                    out.push(format!("conn {ei}/{ch} still sends to the spoofed address {dst} at {t} ns, {} ms after the last replay from there (3 PTO + path delay = {} ms)", (t - at) / 1_000_000, pto3 / 1_000_000));
                    return;
                }
            }
        }
    }
    for (a, sent) in to_spoof {
        let recvd: u64 = facts.spoofs.iter().filter(|s| s.1 == a).map(|s| s.2 as u64).sum();
        // (the documented allowance: one datagram may be completed once any budget remains. quinn
        // accounts per path instance, so each separate visit to the address gets the allowance
        // again: the cumulative excess is the finding recorded under C07)
        let allowance = biggest.get(&a).copied().unwrap_or(0) * visits.get(&a).copied().unwrap_or(1);
        if sent > 3 * recvd + allowance {
            out.push(format!("conn {ei}/{ch} sent {sent} bytes to the never-validated spoofed address {a}, more than three times the {recvd} bytes that arrived from it plus one datagram ({allowance})"));
        }
    }
}

pub fn migrate_case(seed: u64, lane: Lane, trace: bool) -> CaseOut {
    let mut r = Rng::new(seed ^ 0xC15A);
    let faults = r.chance(50);
    let mut h = scenario(seed, lane, &mut r, faults);
    // a third of the cases are pure downloads: the client writes nothing, so after a move all the
    // server ever sees from the new address are acknowledgements (a NAT rebinding the client does
    // not know about) - the server must follow all the same
    let download_only = r.chance(33);
    if download_only {
        h.cli_app[0].plans.clear();
        h.cli_app[0].dgram_count = 0;
        h.cli_app[0].respond_max = 0;
        h.srv_app.plans.retain(|p| !p.bidi);
        h.srv_app.plans.push(crate::app::StreamPlan { bidi: false, len: 150_000 + r.below(250_000), chunk: 4096, use_write_chunks: false, end: crate::app::EndMode::Finish, prio: 0 });
        h.cli_t[0].max_uni = h.cli_t[0].max_uni.max(8);
        // (windows that never need an update during the download: nothing but ACKs to send)
        h.cli_t[0].rwnd = 1 << 40;
        h.cli_t[0].stream_rwnd = 1 << 30;
        h.cli_t[0].ack_freq = None;
        h.srv_t.ack_freq = None;
        h.srv_t.send_window = h.srv_t.send_window.max(1 << 20);
        h.ops.clear();
    }
    let mut w = h.build();
    w.mon.log_transmits = true;
    // (in a download the binding the client has left lingers for a while - the client still
    // receives there and acknowledges from its new address - and then is gone)
    if download_only {
        w.old_addresses_die_after_ns = Some(50_000_000 + r.below(400_000_000));
    }
    if trace {
        w.trace = Some(vec![format!("download_only={download_only} server plans {:?}", h.srv_app.plans.iter().map(|p| p.len).collect::<Vec<_>>())]);
    }
    let mut out = CaseOut::default();
    if download_only {
        out.cnt.inc("c15.download_only_cases");
    }
    let mut facts = Facts { genuine: BTreeMap::new(), arrived: BTreeMap::new(), spoofs: vec![] };
    facts.genuine.insert(w.eps[1].addr, 0);
    // address changes at random instants of the transfer
    let n_moves = 1 + r.below(4);
    let mut moves: Vec<(u64, u16, bool)> = (0..n_moves).map(|_| (30_000_000 + r.below(2_500_000_000), if r.bool() { 1 + r.below(200) as u16 } else { 0x100 * (1 + r.below(3) as u16) + r.below(50) as u16 }, r.bool())).collect();
    moves.sort();
    let mut next_move = 0;
    let mut steps = 0u64;
    let end = loop {
        if steps > 3 && w.all_connected() && w.workload_complete() && next_move >= moves.len() {
            break RunEnd::Done;
        }
        if steps > 80_000 {
            break RunEnd::StepCap;
        }
        if w.now > 900_000_000_000 {
            break RunEnd::TimeCap;
        }
        while next_move < moves.len() && moves[next_move].0 <= w.now {
            let (_, alt, tell) = moves[next_move];
            let tell = tell && !download_only;
            next_move += 1;
            // only once the handshake is confirmed (an earlier move legitimately kills it)
            let confirmed = w.eps[1].conns.values().all(|c| c.app.connected && !c.c.is_handshaking() && !c.c.verif_probe().has_keys[1]) && w.eps[0].conns.values().all(|c| c.app.connected && !c.c.verif_probe().has_keys[1]) && !w.eps[0].conns.is_empty();
            if !confirmed {
                moves.push((w.now + 100_000_000, alt, tell));
                continue;
            }
            let a = addr_of(1, alt);
            if !w.eps[1].addrs.contains(&a) {
                w.eps[1].addrs.push(a);
            }
            let old = w.eps[1].addr;
            if old != a {
                w.left_at.insert(old, w.now);
                w.left_at.remove(&a);
            }
            w.eps[1].addr = a;
            facts.genuine.entry(a).or_insert(w.now);
            if old != a {
                // (a client that returns to an address it used before has been there since its
                // return, not since its first visit)
                facts.arrived.insert(a, w.now);
            }
            out.cnt.inc(if alt >= 0x100 { "c15.moves_full_address" } else { "c15.moves_port_only" });
            if tell {
                for c in w.eps[1].conns.values_mut() {
                    c.c.local_address_changed();
                }
            }
            if let Some(tr) = &mut w.trace {
                tr.push(format!("{} client moves to {a} (tell_conn={tell})", w.now));
            }
        }
        if !w.step() {
            break if w.all_connected() && w.workload_complete() { RunEnd::Done } else { RunEnd::Quiescent };
        }
        steps += 1;
    };
    let mut viol = vec![];
    let final_addr = w.eps[1].addr;
    let lost = any_lost(&w);
    match end {
        RunEnd::Done => out.cnt.inc("c15.migrations_survived"),
        RunEnd::StepCap | RunEnd::TimeCap => out.inconclusive = Some("step / time cap reached".into()),
        RunEnd::Quiescent => viol.push(format!("the transfer did not complete after {} address change(s): the world is stuck (lost: {lost});{}", next_move, super::c02::diag(&w))),
    }
    if lost {
        let l: Vec<String> = w.eps.iter().flat_map(|e| e.conns.values().flat_map(|c| c.app.lost.clone())).collect();
        viol.push(format!("a connection was lost although only the client's address changed: {l:?}"));
    }
    // the server follows the client: its last transmits go to the client's final address, if the
    // client sent anything from there for long enough
    for (ch, c) in &w.eps[0].conns {
        let orig = addr_of(1, 0);
        judge_transmits(&w, 0, *ch, &facts, true, orig, &mut viol, &mut out.cnt);
        if let Some(cm) = w.mon.conns.get(&(0, *ch)) {
            let moved_at = facts.arrived.get(&final_addr).copied().unwrap_or(0);
            let last = cm.tx_log.last().copied();
            if let Some((t, dst, _)) = last {
                // did the server have reason and time to follow? it sent something well after the move
                if t > moved_at + 3 * cm.max_pto_ns + 4 * w.netcfg.latency_ns + 50_000_000 && matches!(end, RunEnd::Done) {
                    out.cnt.inc("c15.follow_checks");
                    if dst != final_addr && c.app.lost.is_empty() {
                        viol.push(format!("server conn 0/{ch} still sends to {dst} at {t} ns although the client has been at {final_addr} since {moved_at} ns"));
                    }
                }
            }
        }
    }
    // ... and it follows on acknowledgements alone: a server that has been receiving from the
    // client's final address for ten seconds and more and has never sent a single datagram there
    // has not followed, whatever became of the transfer (only datagrams that arrived intact count:
    // one the network corrupted authenticates nothing)
    for (ch, c) in &w.eps[0].conns {
        if let Some(cm) = w.mon.conns.get(&(0, *ch)) {
            let moved_at = facts.arrived.get(&final_addr).copied().unwrap_or(0);
            let heard = cm.paths.get(&final_addr).map_or(0, |p| p.genuine_recvd);
            let spoke = cm.tx_log.iter().any(|x| x.1 == final_addr);
            if final_addr != addr_of(1, 0) && heard > 0 && !spoke && w.now > moved_at + 10_000_000_000 && c.app.lost.is_empty() && !c.c.is_closed() {
                out.cnt.inc("c15.never_followed");
                viol.push(format!("server conn 0/{ch} received {heard} bytes from the client's new address {final_addr} (in use since {moved_at} ns, now {} ns) and never sent anything there", w.now));
                out.inconclusive = None;
            }
        }
    }
    // clients never follow anybody
    for (ch, _) in &w.eps[1].conns {
        judge_transmits(&w, 1, *ch, &facts, false, addr_of(0, 0), &mut viol, &mut out.cnt);
    }
    // amplification on fresh paths (the C07 monitor), minus the recorded cumulative finding
    for v in w.all_violations() {
        if v.prop == "C07" && !v.msg.contains("cumulative over") {
            viol.push(format!("[C07] {}", v.msg));
        } else if matches!(v.prop, "C01" | "C11") {
            viol.push(format!("[{}] {}", v.prop, v.msg));
        } else if v.prop == "C12" {
            out.viol.push(Violation { prop: "C12", msg: v.msg.clone() });
        }
    }
    let desc = format!("moves={:?} {}", moves.iter().take(next_move).map(|m| (m.0 / 1_000_000, m.1, m.2)).collect::<Vec<_>>(), h.summary());
    for m in viol {
        out.viol.push(Violation { prop: "C15", msg: format!("{m} | {desc}") });
    }
    out.nontrivial = next_move > 0;
    out.fp = fingerprint(&[&desc], &[w.steps]);
    out.sample = Some(json!({ "scenario": desc }));
    if trace {
        out.trace = w.trace.take();
    }
    out
}

/// Replay genuine datagrams of `pair` that were sent towards endpoint `to_ep` from a third
/// address. Returns what was injected.
fn inject_replay(w: &mut World, r: &mut Rng, to_ep: usize, facts: &mut Facts) -> bool {
    let dst_addrs = w.eps[to_ep].addrs.clone();
    let cands: Vec<usize> = (0..w.recent.len()).filter(|&i| dst_addrs.contains(&w.recent[i].dst) && w.recent[i].opair.is_some() && !w.recent[i].forged).collect();
    if cands.is_empty() {
        return false;
    }
    // prefer the newest ones: they may still be in flight, so the replay can win the race
    let pick = if r.chance(70) { *cands.iter().max_by_key(|&&i| w.recent[i].gid).unwrap() } else { cands[r.usize(cands.len())] };
    let g = w.recent[pick].clone();
    let spoof = addr_of(9, 1 + r.below(30) as u16);
    let at = w.now + if r.chance(60) { r.below(w.netcfg.latency_ns.max(2) / 2) } else { w.netcfg.latency_ns + r.below(200_000_000) };
    let n = 1 + r.below(3);
    for k in 0..n {
        w.inject(at + k * 1000, spoof, g.dst, g.ecn, g.data.clone(), g.gid, false);
        facts.spoofs.push((at + k * 1000, spoof, g.data.len()));
    }
    if let Some(tr) = &mut w.trace {
        tr.push(format!("{} replay of gid {} ({} bytes) x{n} from {spoof} to {} at {at}", w.now, g.gid, g.data.len(), g.dst));
    }
    true
}

fn hijack_case(seed: u64, lane: Lane, trace: bool, victim: u8) -> CaseOut {
    // victim: 0 = migrating server, 1 = client, 2 = server with migration disabled
    let mut r = Rng::new(seed ^ 0xC15B ^ ((victim as u64) << 32));
    let mut h = scenario(seed, lane, &mut r, false);
    h.server_migration = victim != 2;
    h.cid_lifetime_ms = if r.chance(30) { Some(500) } else { None };
    let mut w = h.build();
    w.mon.log_transmits = true;
    // replays of genuine datagrams are duplicates: the duplicate-delta monitor (C04) is not ours
    if trace {
        w.trace = Some(vec![]);
    }
    let mut out = CaseOut::default();
    let mut facts = Facts { genuine: BTreeMap::new(), arrived: BTreeMap::new(), spoofs: vec![] };
    facts.genuine.insert(w.eps[1].addr, 0);
    let to_ep = if victim == 1 { 1 } else { 0 };
    let n_attacks = 1 + r.below(6);
    let mut when: Vec<u64> = (0..n_attacks).map(|_| 10 + r.below(1500)).collect();
    when.sort();
    let mut next = 0;
    let mut steps = 0u64;
    let mut injected = 0;
    let end = loop {
        if steps > 3 && w.all_connected() && w.workload_complete() && next >= when.len() {
            break RunEnd::Done;
        }
        if steps > 80_000 {
            break RunEnd::StepCap;
        }
        while next < when.len() && when[next] <= steps {
            next += 1;
            if w.all_connected() && inject_replay(&mut w, &mut r, to_ep, &mut facts) {
                injected += 1;
            }
        }
        if !w.step() {
            break if w.all_connected() && w.workload_complete() { RunEnd::Done } else { RunEnd::Quiescent };
        }
        steps += 1;
    };
    let mut viol = vec![];
    let lost = any_lost(&w);
    if matches!(end, RunEnd::Done) && !lost {
        // a replay that arrives as the workload ends has just moved the server: give its path
        // validation the time to fail (replays still on the wire included) before looking at
        // where the connection points
        let until = w.now + 60_000_000_000;
        let mut extra = 0;
        while extra < 20_000
            && w.now < until
            && (!w.net.q.is_empty() || w.eps.iter().any(|e| e.conns.values().any(|c| c.side == Side::Server && c.c.verif_probe().timers.iter().any(|t| t.0 == "PathValidation"))))
            && w.step()
        {
            extra += 1;
        }
    }
    match end {
        RunEnd::Done => out.cnt.inc("c15.attacks_survived"),
        RunEnd::StepCap | RunEnd::TimeCap => out.inconclusive = Some("step / time cap reached".into()),
        RunEnd::Quiescent => viol.push(format!("the genuine transfer did not complete after {injected} replay(s) from other addresses: the world is stuck (lost: {lost})")),
    }
    if lost {
        let l: Vec<String> = w.eps.iter().flat_map(|e| e.conns.values().flat_map(|c| c.app.lost.clone())).collect();
        viol.push(format!("a connection was lost although the attacker only replayed genuine datagrams from other addresses: {l:?}"));
    }
    for (ch, _) in &w.eps[0].conns {
        judge_transmits(&w, 0, *ch, &facts, victim == 0, addr_of(1, 0), &mut viol, &mut out.cnt);
    }
    for (ch, _) in &w.eps[1].conns {
        judge_transmits(&w, 1, *ch, &facts, false, addr_of(0, 0), &mut viol, &mut out.cnt);
    }
    // remote_address() as the application sees it
    for (ei, e) in w.eps.iter().enumerate() {
        for (ch, c) in &e.conns {
            let ra = c.c.remote_address();
            let expect_fixed = c.side == Side::Client || victim == 2;
            if expect_fixed && ra != (if c.side == Side::Client { addr_of(0, 0) } else { addr_of(1, 0) }) {
                viol.push(format!("conn {ei}/{ch}: remote_address() is {ra} on a connection that must not migrate"));
            }
            if matches!(end, RunEnd::Done) && !facts.genuine.contains_key(&ra) && c.side == Side::Server {
                viol.push(format!("conn {ei}/{ch}: remote_address() ended at the spoofed address {ra}"));
            }
        }
    }
    out.cnt.add("c15.replays_injected", facts.spoofs.len() as u64);
    out.cnt.inc(match victim {
        0 => "c15.victim_migrating_server",
        1 => "c15.victim_client",
        _ => "c15.victim_fixed_server",
    });
    for v in w.all_violations() {
        if v.prop == "C07" && !v.msg.contains("cumulative over") {
            viol.push(format!("[C07] {}", v.msg));
        } else if matches!(v.prop, "C01" | "C11") {
            viol.push(format!("[{}] {}", v.prop, v.msg));
        }
    }
    let desc = format!("victim={} replays={} {}", ["migrating server", "client", "server without migration"][victim as usize], facts.spoofs.len(), h.summary());
    for m in viol {
        out.viol.push(Violation { prop: "C15", msg: format!("{m} | {desc}") });
    }
    out.nontrivial = !facts.spoofs.is_empty();
    out.fp = fingerprint(&[&desc], &[w.steps]);
    out.sample = Some(json!({ "scenario": desc }));
    if trace {
        out.trace = w.trace.take();
    }
    out
}

pub fn run(ctx: &Ctx) -> i32 {
    let t = Instant::now();
    let mut rep = Report::default();
    let g = Group { name: "migrate-null", cases: ctx.tier.pick(700, 60_000), budget_s: ctx.tier.pick(25.0, 240.0), exhaustive: false };
    run_group(ctx, &mut rep, &g, |_, seed, trace| migrate_case(seed, Lane::Null, trace));
    #[cfg(feature = "real")]
    {
        let g = Group { name: "migrate-rustls", cases: ctx.tier.pick(100, 8000), budget_s: ctx.tier.pick(15.0, 140.0), exhaustive: false };
        run_group(ctx, &mut rep, &g, |_, seed, trace| migrate_case(seed, Lane::Real, trace));
    }
    let g = Group { name: "hijack-server", cases: ctx.tier.pick(700, 60_000), budget_s: ctx.tier.pick(20.0, 240.0), exhaustive: false };
    run_group(ctx, &mut rep, &g, |_, seed, trace| hijack_case(seed, Lane::Null, trace, 0));
    #[cfg(feature = "real")]
    {
        let g = Group { name: "hijack-server-rustls", cases: ctx.tier.pick(100, 8000), budget_s: ctx.tier.pick(12.0, 140.0), exhaustive: false };
        run_group(ctx, &mut rep, &g, |_, seed, trace| hijack_case(seed, Lane::Real, trace, 0));
    }
    let g = Group { name: "ignore-client", cases: ctx.tier.pick(400, 30_000), budget_s: ctx.tier.pick(10.0, 110.0), exhaustive: false };
    run_group(ctx, &mut rep, &g, |_, seed, trace| hijack_case(seed, Lane::Null, trace, 1));
    let g = Group { name: "ignore-fixed-server", cases: ctx.tier.pick(400, 30_000), budget_s: ctx.tier.pick(10.0, 110.0), exhaustive: false };
    run_group(ctx, &mut rep, &g, |_, seed, trace| hijack_case(seed, Lane::Null, trace, 2));
    finish(
        ctx,
        &rep,
        Finish {
            level: "exploration",
            rule: "Every Transmit of every connection is logged with its destination and judged against what the harness knows about addresses. (migrate, plaintext and rustls lanes) 1-4 address changes of the client (port only / whole address, with or without local_address_changed()) at random instants after handshake confirmation, during transfers in both directions, with loss/reordering in half of the worlds, CID lengths 4/8/20 x 0/4/8/20, CID rotation, Retry: the transfers complete, no connection is lost, the server's transmits go only to addresses the client really used (and not before it used them), end at the client's final address, and respect the 3x limit on each not-yet-validated path (C07 monitor). (hijack-server) 1-6 replays of a recent genuine client datagram, 1-3 copies each, from third addresses, racing the original (arriving earlier) or late: any transmit to such an address must lie within 3 PTO + path delay of the last replay from there and total at most 3x the replayed bytes; remote_address() ends at a genuine address; the genuine transfer completes and nothing is lost. (ignore-client / ignore-fixed-server) the same replays towards a client, and towards a server with migration disabled: not a single transmit to another address, remote_address() never changes.".into(),
            assumptions: vec![
                "PTO is taken as the maximum the connection reported through the probe during the run".into(),
                "pad_to_mtu, BBR and tiny fixed windows are left out of these worlds (their own findings are recorded under C02 / C12)".into(),
            ],
            min_evals: ctx.tier.pick(600, 20_000),
            min_nontrivial: ctx.tier.pick(400, 10_000),
            required: vec![
                "c15.moves_port_only",
                "c15.moves_full_address",
                "c15.migrations_survived",
                "c15.follow_checks",
                "c15.transmits_judged",
                "c15.replays_injected",
                "c15.transmits_to_spoofed_address",
                "c15.attacks_survived",
                "c15.victim_client",
                "c15.victim_fixed_server",
            ],
            exhaustive: false,
        },
        t.elapsed().as_secs_f64(),
    )
}
