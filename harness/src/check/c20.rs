//! C20 — the protocol core is deterministic and driven only by its inputs.

use std::time::{Duration, Instant};

use serde_json::json;

use super::{finish, run_group, CaseOut, Ctx, Finish, Group, Report};
use crate::{
    scen::{Honest, Knobs},
    util::{hash64, Rng},
    world::{RunEnd, World},
};

fn run_traced(h: &Honest, shift: Duration, max_steps: u64) -> (World, RunEnd, Vec<String>) {
    let mut w = h.build_shifted(shift);
    w.trace = Some(vec![]);
    let end = w.run(max_steps, 600_000_000_000, |w| w.steps > 3 && w.all_connected() && w.workload_complete());
    // wind down as well: closes and drains are part of the behaviour
    w.apply_op(crate::world::Op::CloseAll { code: 7 });
    let limit = w.now + 20_000_000_000;
    let _ = w.run(4000, limit, |_| false);
    let tr = w.trace.take().unwrap();
    (w, end, tr)
}

fn first_diff(a: &[String], b: &[String]) -> Option<(usize, String, String)> {
    let n = a.len().min(b.len());
    for i in 0..n {
        if a[i] != b[i] {
            return Some((i, a[i].clone(), b[i].clone()));
        }
    }
    if a.len() != b.len() {
        let i = n;
        return Some((i, a.get(i).cloned().unwrap_or_else(|| "<end>".into()), b.get(i).cloned().unwrap_or_else(|| "<end>".into())));
    }
    None
}

/// Projection that ignores the scripted-op lines (identical anyway) and keeps transmits, events.
fn observable(tr: &[String]) -> Vec<String> {
    tr.iter().filter(|l| !l.starts_with("    ")).cloned().collect()
}

fn case(seed: u64, trace: bool) -> CaseOut {
    let mut r = Rng::new(seed ^ 0xC20);
    let mut k = Knobs::default();
    k.max_stream_len = 40_000;
    k.max_streams = 5;
    k.n_clients = 1 + (seed % 3 == 0) as usize;
    k.migration = seed % 4 == 0;
    k.early = seed % 3 == 1;
    k.fault_window_ns = Some(8_000_000_000);
    let mut h = Honest::random(seed, &k);
    // the reference run has a quiet driver; variants add spurious calls
    h.drv.spurious_timeout_pct = 0;
    h.drv.extra_poll_pct = 0;
    let max_steps = 15_000;
    let (mut w0, end0, t0) = run_traced(&h, Duration::ZERO, max_steps);
    let mut out = CaseOut::default();
    out.cnt.inc("c20.histories");
    out.cnt.add("c20.trace_lines", t0.len() as u64);
    let o0 = observable(&t0);
    let mut viol = vec![];
    // (1) replay
    {
        let (_, _, t1) = run_traced(&h, Duration::ZERO, max_steps);
        out.cnt.inc("c20.replays");
        if let Some((i, a, b)) = first_diff(&t0, &t1) {
            viol.push(format!("replay of the same inputs diverges at trace line {i}: `{a}` vs `{b}` | {}", h.summary()));
        }
    }
    // (2) time translation
    let shift = *r.pick(&[Duration::from_micros(1), Duration::from_secs(1), Duration::from_secs(3600), Duration::from_secs(49 * 86400)]);
    {
        let (_, _, t2) = run_traced(&h, shift, max_steps);
        out.cnt.inc("c20.translations");
        if let Some((i, a, b)) = first_diff(&t0, &t2) {
            viol.push(format!("shifting every instant by {shift:?} changes the behaviour at trace line {i}: `{a}` vs `{b}` | {}", h.summary()));
        }
    }
    // (3) spurious calls
    {
        let mut hs = h.clone();
        hs.drv.spurious_timeout_pct = *r.pick(&[20, 50, 100]);
        hs.drv.extra_poll_pct = *r.pick(&[20, 50, 100]);
        let (ws, _, t3) = run_traced(&hs, Duration::ZERO, max_steps);
        out.cnt.inc("c20.spurious_variants");
        out.cnt.add("c20.spurious_timeout_calls", ws.mon.cnt.get("c20.spurious_timeout"));
        out.cnt.add("c20.extra_poll_calls", ws.mon.cnt.get("c20.extra_poll_transmit"));
        let o3 = observable(&t3);
        if let Some((i, a, b)) = first_diff(&o0, &o3) {
            viol.push(format!(
                "extra handle_timeout / poll_transmit calls ({}% / {}%) change the behaviour at observable trace line {i}: `{a}` vs `{b}` | {}",
                hs.drv.spurious_timeout_pct,
                hs.drv.extra_poll_pct,
                h.summary()
            ));
        }
    }
    out.cnt.merge(&w0.mon.cnt);
    out.cnt.merge(&w0.led.cnt);
    for v in w0.all_violations() {
        out.viol.push(v);
    }
    for m in viol {
        out.viol.push(crate::app::Violation { prop: "C20", msg: m });
    }
    out.nontrivial = t0.len() > 20;
    out.fp = hash64(1, &[t0.join("\n").as_bytes()]);
    out.sample = Some(json!({"scenario": h.summary(), "trace_lines": t0.len(), "end": format!("{end0:?}"), "shift": format!("{shift:?}"), "trace_head": t0.iter().take(4).collect::<Vec<_>>() }));
    if trace {
        out.trace = Some(t0);
    }
    out
}

/// Steady-state transfer used by the syscall monitor: prints markers around the phase during
/// which the protocol core must not ask the OS for entropy.
pub fn steady() {
    let mut k = Knobs::default();
    k.faults = true;
    k.max_stream_len = 60_000;
    let mut h = Honest::random(4242, &k);
    h.drv = crate::world::DriverCfg::default();
    let mut w = h.build();
    let _ = w.run(20_000, 600_000_000_000, |w| w.all_connected());
    eprintln!("QV-STEADY-BEGIN");
    let _ = w.run(20_000, 600_000_000_000, |w| w.steps > 3 && w.workload_complete());
    let limit = w.now + 2_000_000_000;
    let _ = w.run(2000, limit, |_| false);
    eprintln!("QV-STEADY-END steps={} bytes={}", w.steps, w.led.cnt.get("c01.bytes"));
}

fn syscall_monitor(rep: &mut Report) {
    let exe = std::env::current_exe().unwrap();
    let out = std::env::temp_dir().join(format!("qv-strace-{}.txt", std::process::id()));
    let st = std::process::Command::new("strace")
        .args(["-f", "-e", "trace=getrandom,write", "-o"])
        .arg(&out)
        .arg(&exe)
        .arg("steady")
        .stdout(std::process::Stdio::null())
        .stderr(std::process::Stdio::null())
        .status();
    match st {
        Ok(s) if s.success() => {
            let txt = std::fs::read_to_string(&out).unwrap_or_default();
            let _ = std::fs::remove_file(&out);
            let mut inside = false;
            let mut seen_markers = 0;
            let mut entropy = 0u64;
            let mut total_getrandom = 0u64;
            for l in txt.lines() {
                if l.contains("QV-STEADY-BEGIN") {
                    inside = true;
                    seen_markers += 1;
                } else if l.contains("QV-STEADY-END") {
                    inside = false;
                    seen_markers += 1;
                } else if l.contains("getrandom(") {
                    total_getrandom += 1;
                    if inside {
                        entropy += 1;
                    }
                }
            }
            if seen_markers == 2 {
                rep.cnt.inc("c20.syscall_monitor_runs");
                rep.cnt.add("c20.getrandom_calls_before_steady_state", total_getrandom - entropy);
                rep.extra.insert("syscall_monitor".into(), json!({"getrandom_total": total_getrandom, "getrandom_in_steady_state": entropy}));
                if entropy > 0 {
                    rep.violations.push((
                        "syscall".into(),
                        0,
                        0,
                        crate::app::Violation { prop: "C20", msg: format!("{entropy} getrandom() system calls during the steady-state phase of a transfer") },
                    ));
                }
            } else {
                rep.inconclusive.push("syscall monitor: markers not found in strace output".into());
            }
        }
        _ => rep.inconclusive.push("syscall monitor: strace could not run".into()),
    }
}

pub fn run(ctx: &Ctx) -> i32 {
    let t = Instant::now();
    let mut rep = Report::default();
    let g = Group { name: "histories", cases: ctx.tier.pick(400, 20_000), budget_s: ctx.tier.pick(50.0, 720.0), exhaustive: false };
    run_group(ctx, &mut rep, &g, |_, seed, trace| case(seed, trace));
    if ctx.replay.is_none() {
        syscall_monitor(&mut rep);
    }
    // endings: connections closed by either side, peers vanishing, stateless resets hitting closed
    // connections (the C08 scenarios): whatever a drained connection still emits or keeps armed
    // is this property's business
    let g = Group { name: "after-drain", cases: ctx.tier.pick(1200, 60_000), budget_s: ctx.tier.pick(12.0, 240.0), exhaustive: false };
    run_group(ctx, &mut rep, &g, |_, seed, trace| {
        let mut out = super::c08::case(seed, crate::world::Lane::Null, trace);
        for v in out.viol.iter_mut() {
            if v.msg.contains("after the final Drained event") || v.msg.contains("drained connection still has a timer armed") || v.msg.contains("Drained endpoint event") {
                v.prop = "C20";
            }
        }
        out
    });
    finish(
        ctx,
        &rep,
        Finish {
            level: "exploration",
            rule: "for each seeded input history (honest worlds with faults, migration, early writes, 1-2 clients, harness CID generator, seeded endpoints, virtual TimeSource; followed by close and drain) four executions are compared line by line on (instant, destination, ECN, segment size, byte hash of every Transmit; every Event and EndpointEvent): an exact replay; a replay with every instant shifted by 1 us / 1 s / 1 h / 49 d; a replay with spurious handle_timeout(now) calls and extra poll_transmit/poll_timeout calls inserted at 20-100 % of the opportunities (observable projection). In every world: servicing timeouts and draining transmits at one instant must settle within 64 rounds; poll_transmit right after None returns None; a drained connection yields nothing from any poll. One process is run under strace: no getrandom() during the steady-state phase. Distinct = distinct reference traces.".into(),
            assumptions: vec!["plaintext lane only (rustls draws its own entropy)".into(), "built-in CID generators use the thread RNG and are excluded".into()],
            min_evals: ctx.tier.pick(60, 2000),
            min_nontrivial: ctx.tier.pick(40, 1000),
            required: vec!["c20.replays", "c20.translations", "c20.spurious_variants", "c20.spurious_timeout_calls", "c20.extra_poll_calls", "c20.drained_polls", "c20.syscall_monitor_runs"],
            exhaustive: false,
        },
        t.elapsed().as_secs_f64(),
    )
}
