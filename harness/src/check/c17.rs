//! C17 — 0-RTT data is delivered once if accepted and vanishes if rejected.
//!
//! Two connections per world. The first one only earns the client a session ticket (plaintext
//! lane: the null session's ticket with the server's remembered transport parameters; rustls
//! lane: a TLS 1.3 ticket). Between the two the server may get different transport parameters and
//! be told to refuse early data. The second connection's application writes before the handshake
//! completes (streams of both directions, datagrams, finishes, resets); the client's first
//! datagrams are dropped by enumerated subsets, duplicated or reordered; the server accepts
//! directly, after a Retry, or late (buffered early packets).
//!
//! Oracles: the application-boundary ledger (every byte delivered exactly once, datagrams at most
//! once, flows complete), and at the instant the client learns of a rejection: the server
//! application holds nothing of the early data, early streams answer ClosedStream, stream
//! numbering / accounting restarted, limits are the newly negotiated ones; data written after a
//! rejection carries different bytes than the rejected attempt, so a late leak is caught too.

use std::time::Instant;

use serde_json::json;

use super::{finish, fingerprint, run_group, CaseOut, Ctx, Finish, Group, Report};
use crate::{
    app::{AppCfg, EndMode, StreamPlan, Violation},
    cfg::TcfgP,
    util::Rng,
    wire::{self, PType},
    world::{DriverCfg, EpSpec, IncomingPolicy, Lane, NetCfg, Op, RunEnd, ServerSpec, World},
};

fn tcfg(r: &mut Rng) -> TcfgP {
    let mut t = TcfgP::default();
    t.idle_ms = None;
    t.mtud = None;
    t.initial_rtt_ms = *r.pick(&[5, 30, 100]);
    t.pad_to_mtu = false;
    t
}

fn settle(w: &mut World, rounds: usize) {
    let saved = w.max_jump_ns;
    w.max_jump_ns = 5_000_000_000;
    for _ in 0..rounds {
        w.flush_now();
        if !w.step() {
            break;
        }
    }
    w.max_jump_ns = saved;
}

pub fn case(seed: u64, lane: Lane, trace: bool, enumerate: Option<(u64, u32)>) -> CaseOut {
    let mut r = Rng::new(seed ^ 0xC17);
    let mut out = CaseOut::default();
    let accept = r.chance(60);
    let policy2 = *r.pick(&[IncomingPolicy::Accept, IncomingPolicy::Accept, IncomingPolicy::RetryFirst, IncomingPolicy::HoldNs(3_000_000), IncomingPolicy::HoldNs(40_000_000)]);
    // server parameters remembered by the client (first connection) ...
    let mut old = tcfg(&mut r);
    old.max_bidi = *r.pick(&[1, 3, 20]);
    old.max_uni = *r.pick(&[1, 3, 20]);
    old.stream_rwnd = *r.pick(&[500, 5_000, 100_000]);
    old.rwnd = *r.pick(&[2_000, 20_000, 1_000_000]);
    old.dgram_recv_buf = *r.pick(&[Some(1_250_000), Some(2_000), None]);
    // ... and in force for the second one: never smaller when early data is to be accepted
    let mut new = old.clone();
    match r.below(3) {
        0 => {}
        1 => {
            new.max_bidi = old.max_bidi + r.below(5);
            new.max_uni = old.max_uni + r.below(5);
            new.stream_rwnd = old.stream_rwnd * (1 + r.below(3));
            new.rwnd = old.rwnd * (1 + r.below(3));
        }
        _ if !accept => {
            new.max_bidi = old.max_bidi.saturating_sub(r.below(3)).max(1).min(old.max_bidi);
            new.max_uni = (1 + r.below(old.max_uni)).min(old.max_uni);
            new.stream_rwnd = (old.stream_rwnd / (1 + r.below(4))).max(100);
            new.rwnd = (old.rwnd / (1 + r.below(4))).max(500);
        }
        _ => {}
    }
    let cli_t = tcfg(&mut r);
    let mut srv = ServerSpec::default();
    srv.tcfg = old.clone();
    srv.tokens_sent = *r.pick(&[0, 2]);
    srv.policy = IncomingPolicy::Accept;
    srv.app = AppCfg { respond_max: *r.pick(&[0, 10, 3000]), ..AppCfg::default() };
    let mut e0 = EpSpec::new(0, Some(srv));
    e0.cid_len = *r.pick(&[4, 8, 20]);
    let mut e1 = EpSpec::new(1, None);
    e1.cid_len = *r.pick(&[0, 8]);
    let mut net = NetCfg::default();
    net.latency_ns = *r.pick(&[500_000, 5_000_000, 40_000_000]);
    let mut w = World::new(seed, lane, vec![e0, e1], net, DriverCfg::default());
    if trace {
        w.trace = Some(vec![]);
    }
    // ---- first connection: get a ticket
    let Ok(ch1) = w.connect(1, 0, cli_t.clone(), AppCfg::default()) else {
        out.inconclusive = Some("connect failed".into());
        return out;
    };
    settle(&mut w, 400);
    if !w.eps[1].conns[&ch1].app.connected {
        out.inconclusive = Some("first handshake did not complete".into());
        return out;
    }
    w.apply_op(Op::CloseAll { code: 0 });
    settle(&mut w, 400);
    // ---- between the two
    w.eps[0].spec.server.as_mut().unwrap().tcfg = new.clone();
    w.eps[0].spec.server.as_mut().unwrap().policy = policy2;
    match lane {
        Lane::Null => *w.eps[0].null_shared.accept_early.lock().unwrap() = accept,
        Lane::Real => {
            if !accept {
                // a server that has lost its ticket state: full handshake, early data refused
                #[cfg(feature = "real")]
                {
                    let mut sc = crate::realcrypto::server_config(seed ^ 1);
                    let old_sc = w.eps[0].server_cfg.as_ref().unwrap();
                    sc.transport = old_sc.transport.clone();
                    sc.time_source(std::sync::Arc::new(crate::world::VirtClock(w.clock.clone())));
                    let sc = std::sync::Arc::new(sc);
                    w.eps[0].ep.set_server_config(Some(sc.clone()));
                    w.eps[0].server_cfg = Some(sc);
                }
            }
        }
    }
    if !accept && (new.rwnd < old.rwnd || new.stream_rwnd < old.stream_rwnd || new.max_bidi < old.max_bidi || new.max_uni < old.max_uni) {
        // rejected early packets were sent under the remembered (larger) limits: the wire ledger
        // of C05 would blame them; the server itself enforces the new limits (any excess after the
        // rejection closes the connection, which the honest-peer rule reports)
        w.mon.enable_c05 = false;
    }
    // ---- second connection: early writes
    let mut plans = vec![];
    for _ in 0..1 + r.below(4) {
        let bidi = r.bool();
        let len = *r.pick(&[0u64, 1, 100, 1500, 6000, 30_000]);
        let end = if r.chance(20) { EndMode::ResetAt { at: r.below(len + 1), code: r.below(100) } } else { EndMode::Finish };
        plans.push(StreamPlan { bidi, len, chunk: *r.pick(&[100, 1200, 65536]), use_write_chunks: r.chance(30), end, prio: 0 });
    }
    let mut app = AppCfg { plans, start_early: true, ..AppCfg::default() };
    if r.chance(50) && old.dgram_recv_buf.is_some() {
        app.dgram_count = *r.pick(&[1, 5, 30]);
        app.dgram_min = 8;
        app.dgram_max = *r.pick(&[20, 300, 1100]);
    }
    // faults on the early flight
    let base0 = w.net.dir_count[0];
    match enumerate {
        Some((mask, k)) => {
            for i in 0..k {
                if mask >> i & 1 == 1 {
                    w.netcfg.drop_idx[0].insert(base0 + i as u64);
                }
            }
        }
        None => {
            for i in 0..10 {
                if r.chance(25) {
                    w.netcfg.drop_idx[0].insert(base0 + i);
                }
                if r.chance(15) {
                    w.netcfg.dup_idx[0].insert(base0 + i);
                }
            }
            let base1 = w.net.dir_count[1];
            for i in 0..6 {
                if r.chance(15) {
                    w.netcfg.drop_idx[1].insert(base1 + i);
                }
            }
            w.netcfg.reorder_pm = *r.pick(&[0, 0, 300]);
            w.netcfg.reorder_ns = w.netcfg.latency_ns * 3;
            w.netcfg.fault_until_ns = w.now + 2_000_000_000;
        }
    }
    let Ok(ch2) = w.connect(1, 0, cli_t, app) else {
        out.inconclusive = Some("second connect failed".into());
        return out;
    };
    let had_0rtt = w.eps[1].conns[&ch2].c.has_0rtt();
    if !had_0rtt {
        out.inconclusive = Some("the client holds no usable ticket".into());
        return out;
    }
    out.cnt.inc("c17.attempts_with_early_keys");
    let end = w.run(40_000, w.now + 600_000_000_000, |w| w.eps[1].conns[&ch2].app.connected && w.workload_complete());
    // ---- verdicts
    let c = &w.eps[1].conns[&ch2];
    let accepted = c.c.accepted_0rtt();
    let connected2 = c.app.connected;
    let mut viol = vec![];
    let zero_rtt_packets = w.recent.iter().filter(|d| d.dst == w.eps[0].addr).filter(|d| wire::split_types(&d.data).iter().any(|t| t.0 == PType::ZeroRtt)).count();
    if zero_rtt_packets > 0 {
        out.cnt.inc("c17.zero_rtt_packets_seen");
    }
    if !c.app.lost.is_empty() {
        viol.push(format!("the second connection was lost: {:?}", c.app.lost));
    }
    match end {
        RunEnd::Done => {}
        RunEnd::Quiescent => {
            let flows: Vec<String> = w.led.flows.iter().filter(|(_, f)| f.must_complete() && !f.complete()).map(|(k, f)| format!("{k:?} written={} fin={:?} delivered={} eos={} finished_evt={} early={}", f.written, f.fin_at, f.delivered.total(), f.eos, f.finished_evt, f.early)).collect();
            let conns: Vec<String> = w.eps.iter().enumerate().flat_map(|(ei, e)| e.conns.iter().map(move |(h, c)| format!("{ei}/{h} connected={} jobs_done={} pending_plans={} lost={:?}", c.app.connected, c.app.jobs_done(), c.app.has_pending_plans(), c.app.lost))).collect();
            viol.push(format!("the early workload never completed: the world is stuck; incomplete flows {flows:?}; connections {conns:?}"))
        }
        _ => out.inconclusive = Some("step / time cap".into()),
    }
    if c.app.connected {
        if accepted {
            out.cnt.inc("c17.accepted");
            if !accept {
                viol.push("accepted_0rtt() is true although the server refuses early data".into());
            }
        } else {
            out.cnt.inc("c17.rejected_seen");
        }
    }
    match policy2 {
        IncomingPolicy::RetryFirst => out.cnt.inc("c17.with_retry"),
        IncomingPolicy::HoldNs(_) => out.cnt.inc("c17.late_accept"),
        _ => {}
    }
    let mut c12 = vec![];
    for v in w.all_violations() {
        if matches!(v.prop, "C17" | "C01" | "C16" | "C11" | "C05") || (v.prop == "C02" && v.msg.contains("honest peers")) {
            viol.push(format!("[{}] {}", v.prop, v.msg));
        } else if v.prop == "C12" {
            c12.push(v);
        }
    }
    let desc = format!(
        "lane={lane:?} server_accepts={accept} policy={policy2:?} old(streams {}/{}, windows {}/{}, dgram {:?}) new(streams {}/{}, windows {}/{}, dgram {:?}) drops={:?} dups={:?} lat={}ms",
        old.max_bidi,
        old.max_uni,
        old.stream_rwnd,
        old.rwnd,
        old.dgram_recv_buf,
        new.max_bidi,
        new.max_uni,
        new.stream_rwnd,
        new.rwnd,
        new.dgram_recv_buf,
        w.netcfg.drop_idx[0].iter().map(|i| i - base0).collect::<Vec<_>>(),
        w.netcfg.dup_idx[0].iter().map(|i| i - base0).collect::<Vec<_>>(),
        w.netcfg.latency_ns / 1_000_000
    );
    for m in viol {
        out.viol.push(Violation { prop: "C17", msg: format!("{m} | {desc}") });
    }
    for v in c12 {
        out.viol.push(Violation { prop: "C12", msg: format!("{} | {desc}", v.msg) });
    }
    out.cnt.merge(&w.led.cnt);
    out.cnt.merge(&w.mon.cnt);
    out.nontrivial = had_0rtt && connected2;
    out.fp = fingerprint(&[&desc], &[accepted as u64, zero_rtt_packets as u64]);
    out.sample = Some(json!({ "scenario": desc, "accepted": accepted, "zero_rtt_datagrams_seen": zero_rtt_packets }));
    if trace {
        out.trace = w.trace.take();
    }
    out
}

pub fn run(ctx: &Ctx) -> i32 {
    let t = Instant::now();
    let mut rep = Report::default();
    // every subset of the client's first K datagrams of the second connection dropped
    let k = ctx.tier.pick(6, 9) as u32;
    let configs = ctx.tier.pick(6, 24);
    let g = Group { name: "enum-early-loss", cases: (1u64 << k) * configs, budget_s: ctx.tier.pick(30.0, 360.0), exhaustive: true };
    run_group(ctx, &mut rep, &g, |i, _seed, trace| {
        let cfg = i >> k;
        let mask = i & ((1 << k) - 1);
        case(super::case_seed(ctx, "enum-early-loss-cfg", cfg), Lane::Null, trace, Some((mask, k)))
    });
    let g = Group { name: "random-null", cases: ctx.tier.pick(2500, 200_000), budget_s: ctx.tier.pick(25.0, 360.0), exhaustive: false };
    run_group(ctx, &mut rep, &g, |_, seed, trace| case(seed, Lane::Null, trace, None));
    #[cfg(feature = "real")]
    {
        let g = Group { name: "random-rustls", cases: ctx.tier.pick(250, 20_000), budget_s: ctx.tier.pick(20.0, 240.0), exhaustive: false };
        run_group(ctx, &mut rep, &g, |_, seed, trace| case(seed, Lane::Real, trace, None));
    }
    finish(
        ctx,
        &rep,
        Finish {
            level: "fault_enumeration",
            rule: format!("two connections per world: the first earns a ticket, then the server's transport parameters may change (equal, larger; smaller only when it refuses early data) and it is told to accept or refuse early data; the second connection's application writes 1-5 streams of both directions (0..30000 bytes, finishes and resets) and datagrams before the handshake completes; the server accepts at once, after a Retry, or 3/40 ms late (buffered early packets). (enum-early-loss) every subset of the client's first {k} datagrams dropped x {configs} configurations; (random) random drops / duplicates of the first 10 datagrams, drops of the server's first 6, reordering; plaintext lane (null tickets with remembered parameters) and rustls lane (TLS tickets; refusal by a server that lost its ticket state). Oracles: every byte the server application reads equals the byte written at that offset in the current attempt, ordered reads gap-free, nothing twice, datagrams at most once, every finished stream completes, no connection lost; when the client learns of a rejection the server application holds 0 bytes / 0 datagrams of that pair's client data, writes on the early streams return ClosedStream, next stream indices / data_sent / send_streams are 0, max streams and max_data equal the server's new parameters; data written after a rejection is keyed differently from the rejected attempt, so a late leak fails the byte check; accepted_0rtt() is never true for a refusing server."),
            assumptions: vec![
                "on the rustls lane acceptance depends on rustls' anti-replay / ticket policy: refusals by a willing server are only counted".into(),
                "C05's wire ledger is switched off in worlds where the refusing server's new limits are below the remembered ones (the rejected flight legitimately exceeds them)".into(),
            ],
            min_evals: ctx.tier.pick(500, 20_000),
            min_nontrivial: ctx.tier.pick(300, 10_000),
            required: vec![
                "c17.attempts_with_early_keys",
                "c17.zero_rtt_packets_seen",
                "c17.accepted",
                "c17.rejected_seen",
                "c17.rejected",
                "c17.early_stream_closed_after_rejection",
                "c17.with_retry",
                "c17.late_accept",
                "c01.bytes",
            ],
            exhaustive: false,
        },
        t.elapsed().as_secs_f64(),
    )
}
