//! Checks decided by the universal monitors over honest-peer worlds with property-specific
//! emphasis: C05 (sender respects peer limits), C07 (anti-amplification), C12 (congestion window,
//! loss accounting), C13 (MTU), C16 (datagrams).

use std::time::{Duration, Instant};

use proto::congestion::{BbrConfig, ControllerFactory, CubicConfig, NewRenoConfig};
use serde_json::json;

use super::{common::*, finish, fingerprint, run_group, CaseOut, Ctx, Finish, Group, Report};
use crate::{
    app::{EndMode, StreamPlan},
    cfg::CcKind,
    scen::{Honest, Knobs},
    util::Rng,
    world::{IncomingPolicy, Lane, Op, RunEnd},
};

fn finish_case(h: &Honest, mut ran: Ran, trace: bool, nontrivial_key: &'static str) -> CaseOut {
    let mut out = base_out(h, &mut ran, trace);
    out.nontrivial = out.cnt.get(nontrivial_key) > 0;
    out
}

// ---------------------------------------------------------------------------------------------
// C05
// ---------------------------------------------------------------------------------------------

fn c05_case(seed: u64, trace: bool) -> CaseOut {
    let mut k = Knobs::default();
    k.datagrams = false;
    k.max_streams = 12;
    k.fault_window_ns = Some(10_000_000_000);
    k.early = seed % 4 == 0;
    let mut h = Honest::random(seed, &k);
    let mut r = Rng::new(seed ^ 0xC05);
    // limits around the interesting boundaries, raised / shrunk at run time
    for t in h.cli_t.iter_mut().chain([&mut h.srv_t]) {
        t.stream_rwnd = *r.pick(&[1, 63, 64, 65, 16383, 16384, 16385, 100_000]);
        t.rwnd = *r.pick(&[1, 63, 64, 1200, 16383, 16384, 1 << 30]);
        t.max_bidi = *r.pick(&[0, 1, 2, 3, 8]);
        t.max_uni = *r.pick(&[0, 1, 2, 3, 8]);
        t.send_window = *r.pick(&[1, 100, 5000, 200_000]);
    }
    for _ in 0..r.below(4) {
        let ep = r.usize(2);
        let at = r.below(3_000_000_000);
        h.ops.push((at, Op::SetRecvWindow { ep, v: *r.pick(&[64, 1000, 100_000]) }));
        h.ops.push((at + r.below(1_000_000_000), Op::SetMaxConcurrent { ep, bidi: r.bool(), v: *r.pick(&[1, 2, 5, 20]) }));
    }
    // make sure there is something to send in a direction that is open
    for (i, a) in h.cli_app.iter_mut().enumerate() {
        let _ = i;
        if a.plans.is_empty() {
            a.plans.push(StreamPlan { bidi: h.srv_t.max_bidi > 0, len: 20_000, chunk: 4096, use_write_chunks: false, end: EndMode::Finish, prio: 0 });
        }
        for p in &mut a.plans {
            p.len = p.len.max(r.below(30_000));
        }
    }
    let ran = run_honest(&h, trace, 30_000, 900_000_000_000);
    finish_case(&h, ran, trace, "c05.stream_frames_checked")
}

pub fn run_c05(ctx: &Ctx) -> i32 {
    let t = Instant::now();
    let mut rep = Report::default();
    let g = Group { name: "limits", cases: ctx.tier.pick(1200, 80_000), budget_s: ctx.tier.pick(45.0, 720.0), exhaustive: false };
    run_group(ctx, &mut rep, &g, |_, seed, trace| c05_case(seed, trace));
    // 0-RTT with remembered parameters (the C17 worlds): during the early flight the remembered
    // limits apply, after a rejection the newly negotiated ones - which may be lower
    let g = Group { name: "zero-rtt", cases: ctx.tier.pick(1500, 60_000), budget_s: ctx.tier.pick(8.0, 120.0), exhaustive: false };
    run_group(ctx, &mut rep, &g, |_, seed, trace| {
        let mut o = super::c17::case(seed, Lane::Null, trace, None);
        o.viol.retain_mut(|v| {
            let about_limits = v.msg.contains("[C05]") || v.msg.contains("limits are not the newly negotiated ones") || v.msg.contains("STREAM_LIMIT_ERROR") || v.msg.contains("FLOW_CONTROL_ERROR") || v.msg.contains("exceeded stream count") || v.msg.contains("flow control");
            if about_limits {
                v.prop = "C05";
            }
            about_limits
        });
        o
    });
    finish(
        ctx,
        &rep,
        Finish {
            level: "exploration",
            rule: "seeded honest worlds on the plaintext lane with stream / connection / stream-count limits drawn from {0,1,63,64,65,16383,16384,16385,...}, windows raised and shrunk and stream limits changed at run time, MAX_* frames delayed / reordered / duplicated / lost with the data, resets, retransmissions, pre-handshake writes. Oracle: an independent credit ledger (peer transport parameters + every MAX_DATA / MAX_STREAM_DATA / MAX_STREAMS frame at the instant the datagram carrying it is delivered) against every STREAM / RESET_STREAM frame decoded from every emitted datagram; write() results; H1 unacked_data <= max(send_window, before); no FLOW_CONTROL / STREAM_LIMIT error between honest peers. (zero-rtt) the two-connection worlds of C17: limits installed after a 0-RTT rejection equal the server's new parameters, and no honest server closes a resuming client for exceeding them. Non-trivial = at least one stream frame checked; distinct = coverage fingerprint.".into(),
            assumptions: vec!["the ledger is a superset of what the sender may know (a delivered frame the sender discarded still counts), so it can miss, never false-alarm".into()],
            min_evals: ctx.tier.pick(100, 5000),
            min_nontrivial: ctx.tier.pick(50, 1000),
            required: vec!["c05.stream_frames_checked", "app.write_blocked", "app.open_blocked", "c05.unacked_checks"],
            exhaustive: false,
        },
        t.elapsed().as_secs_f64(),
    )
}

// ---------------------------------------------------------------------------------------------
// C07
// ---------------------------------------------------------------------------------------------

fn c07_case(seed: u64, lane: Lane, trace: bool) -> CaseOut {
    let mut k = Knobs::default();
    k.lane = lane;
    k.n_clients = 1 + (seed % 3) as usize;
    k.max_stream_len = 30_000;
    k.migration = seed % 2 == 0;
    k.fault_window_ns = Some(8_000_000_000);
    let mut h = Honest::random(seed, &k);
    let mut r = Rng::new(seed ^ 0xC07);
    // large server flights right after accept: the server application writes immediately
    h.srv_app.start_early = r.chance(70);
    if h.srv_app.plans.is_empty() && h.cli_t.iter().all(|t| t.max_uni > 0) {
        for _ in 0..3 {
            h.srv_app.plans.push(StreamPlan { bidi: false, len: 5000 + r.below(20_000), chunk: 4096, use_write_chunks: false, end: EndMode::Finish, prio: 0 });
        }
    }
    h.srv_t.initial_mtu = *r.pick(&[1200, 1300, 1452]);
    h.policy = *r.pick(&[IncomingPolicy::Accept, IncomingPolicy::Accept, IncomingPolicy::RetryFirst, IncomingPolicy::HoldNs(20_000_000)]);
    // lost client flights so that only server timers fire
    if r.chance(50) {
        for i in 1..(2 + r.below(8)) {
            h.net.drop_idx[0].insert(i);
        }
    }
    // some clients vanish right after their first flight: the server talks to a silent address
    let vanish: Vec<usize> = (1..=k.n_clients).filter(|_| r.chance(35)).collect();
    for ep in vanish {
        h.ops.push((r.below(3_000_000), Op::Vanish { ep }));
    }
    // junk packets coalesced behind client Initials (each datagram must be credited once)
    h.net.coalesce_junk_pm = *r.pick(&[0, 0, 500, 1000]);
    let mut w = h.build();
    if trace {
        w.trace = Some(vec![]);
    }
    // unsolicited short-header-looking datagrams: stateless reset bounds
    let n_junk = r.below(6);
    for _ in 0..n_junk {
        let len = *r.pick(&[1usize, 20, 21, 22, 40, 41, 42, 43, 100, 1200]);
        let mut d = r.bytes(len);
        d[0] = 0x40 | (d[0] & 0x3f);
        let at = r.below(2_000_000_000);
        let src = crate::world::addr_of(9, r.below(4) as u16);
        let dst = w.eps[0].addr;
        w.inject(at, src, dst, None, d, 0, true);
    }
    // spoofed supported-version Initials of every size, with destination CIDs of every length
    // (also shorter than the 8 bytes a genuine first Initial needs) and with or without a token:
    // below 1200 bytes no state and no reply, from 1200 bytes on at most 3x
    let n_init = r.below(8);
    for _ in 0..n_init {
        let total = *r.pick(&[13usize, 20, 23, 30, 60, 200, 600, 1199, 1199, 1200, 1250]);
        let dl = *r.pick(&[0usize, 1, 4, 7, 8, 16, 20]);
        let sl = *r.pick(&[0usize, 4, 8, 20]);
        let mut d = vec![0xc0 | (r.below(4) as u8)];
        d.extend_from_slice(&1u32.to_be_bytes());
        d.push(dl as u8);
        d.extend(r.bytes(dl));
        d.push(sl as u8);
        d.extend(r.bytes(sl));
        let tok = *r.pick(&[0usize, 0, 0, 5, 40]);
        crate::wire::put_var(&mut d, tok as u64);
        d.extend(r.bytes(tok));
        let rest = total.saturating_sub(d.len() + 2).max(1);
        // (two-byte varint length)
        d.push(0x40 | ((rest >> 8) as u8 & 0x3f));
        d.push(rest as u8);
        d.extend(r.bytes(rest));
        let at = r.below(2_000_000_000);
        let src = crate::world::addr_of(9, 8 + r.below(8) as u16);
        let dst = w.eps[0].addr;
        w.inject(at, src, dst, None, d, 0, true);
        w.mon.cnt.inc("c07.spoofed_initials");
    }
    let end = w.run(30_000, 600_000_000_000, |w| w.steps > 3 && w.all_connected() && w.workload_complete());
    let ran = Ran { w, end };
    finish_case(&h, ran, trace, "c07.unvalidated_dgrams")
}

pub fn run_c07(ctx: &Ctx) -> i32 {
    let t = Instant::now();
    let mut rep = Report::default();
    let g = Group { name: "amp-null", cases: ctx.tier.pick(1500, 100_000), budget_s: ctx.tier.pick(40.0, 600.0), exhaustive: false };
    run_group(ctx, &mut rep, &g, |_, seed, trace| c07_case(seed, Lane::Null, trace));
    #[cfg(feature = "real")]
    {
        let g = Group { name: "amp-real", cases: ctx.tier.pick(150, 8000), budget_s: ctx.tier.pick(25.0, 240.0), exhaustive: false };
        run_group(ctx, &mut rep, &g, |_, seed, trace| c07_case(seed, Lane::Real, trace));
    }
    finish(
        ctx,
        &rep,
        Finish {
            level: "exploration",
            rule: "seeded worlds with 1-3 clients: server applications writing immediately after accept (large first flights), initial MTU 1200..1452, accept / retry / held-incoming policies, enumerated loss of the client's 2nd..9th datagrams so that only server timers fire, clients that vanish after their first flight, rebinding clients (new unvalidated paths), injected short-header junk of sizes around the stateless-reset thresholds, spoofed version-1 Initials of 13..1250 bytes with destination CIDs of 0..20 bytes with and without tokens; both crypto lanes. Oracle per (server connection, remote address, path instance): before each datagram to an address not yet validated (Handshake packet delivered from it, validated token, PATH_RESPONSE delivered) sent_so_far + 1 <= 3 x bytes delivered from that address; stateless resets strictly smaller than the inciting datagram and at most one per min_reset_interval; no Incoming and no reply of any kind for a supported-version Initial in a datagram below 1200 bytes, and no stateless reply larger than 3x the datagram that provoked it. Non-trivial = at least one datagram sent to an unvalidated address.".into(),
            assumptions: vec![
                "bytes credited to an address are a superset of what quinn credits (everything the harness delivered from it), so the bound checked is weaker-or-equal".into(),
                "on the rustls lane PATH_RESPONSE is invisible; validation of migrated paths falls back on the probe's path_validated flag".into(),
            ],
            min_evals: ctx.tier.pick(150, 5000),
            min_nontrivial: ctx.tier.pick(100, 2000),
            required: vec!["c07.unvalidated_dgrams", "c07.validated_by_handshake", "c07.validated_by_token", "c07.stateless_reset", "c07.path_instances"],
            exhaustive: false,
        },
        t.elapsed().as_secs_f64(),
    )
}

// ---------------------------------------------------------------------------------------------
// C12
// ---------------------------------------------------------------------------------------------

fn c12_gate_case(seed: u64, trace: bool) -> CaseOut {
    let mut k = Knobs::default();
    k.max_stream_len = 60_000;
    k.fault_window_ns = Some(10_000_000_000);
    k.early = seed % 3 == 0;
    k.migration = seed % 5 == 0;
    k.idle_off = seed % 2 == 0;
    let mut h = Honest::random(seed, &k);
    let mut r = Rng::new(seed ^ 0xC12);
    for t in h.cli_t.iter_mut().chain([&mut h.srv_t]) {
        t.cc = match r.below(6) {
            0 => CcKind::Cubic,
            1 => CcKind::NewReno,
            2 => CcKind::Bbr,
            3 => CcKind::Fixed(*r.pick(&[2401, 2600, 3000, 4800, 6000, 12_000, 30_000])),
            _ => CcKind::Adversarial { min: *r.pick(&[2401, 3000, 6000]), max: *r.pick(&[3000, 12_000, 100_000]) },
        };
        t.pad_to_mtu = false; // see known finding about pad_to_mtu; keeps runs completing
    }
    h.srv_app.start_early = r.chance(40);
    let mut ran = run_honest(&h, trace, 30_000, 900_000_000_000);
    // end-of-run conservation: after completion and a quiet period everything is acknowledged
    // (only where nothing periodic - keep-alives, frequent MTU re-probing, CID rotation, idle
    // timeouts - can legitimately have a packet in flight at the instant we look)
    let quiet_cfg = h.cid_lifetime_ms.is_none()
        && h.cli_t.iter().chain([&h.srv_t]).all(|t| t.keep_alive_ms.is_none() && t.mtud.map_or(true, |m| m.1 >= 600) && t.idle_ms.is_none());
    if ran.end == RunEnd::Done && !any_lost(&ran.w) && quiet_cfg {
        let limit = ran.w.now + 30_000_000_000;
        let _ = ran.w.run(5_000, limit, |_| false);
        // (a sender whose probes went unanswered for a while is in exponential back-off: its next
        // probe, which is what gets the stragglers acknowledged or declared lost, may be minutes
        // away. As long as that timer is armed the packets are accounted for; wait for it.)
        let waiting = |w: &crate::world::World| {
            w.eps.iter().any(|e| e.conns.values().any(|c| {
                let p = c.c.verif_probe();
                p.in_flight_ack_eliciting != 0 && p.timers.iter().any(|t| t.0 == "LossDetection")
            }))
        };
        let hard_limit = ran.w.now + 7_200_000_000_000;
        let mut rounds = 0;
        while waiting(&ran.w) && ran.w.now < hard_limit && rounds < 200 {
            let l = (ran.w.now + 120_000_000_000).min(hard_limit);
            let _ = ran.w.run(5_000, l, |_| false);
            rounds += 1;
        }
        let mut msgs = vec![];
        for (ei, e) in ran.w.eps.iter().enumerate() {
            for (ch, c) in &e.conns {
                let p = c.c.verif_probe();
                ran.w.mon.cnt.inc("c12.final_conservation_checks");
                if p.in_flight_ack_eliciting != 0 {
                    msgs.push(format!("conn {ei}/{ch}: workload complete and the world idle but {} ack-eliciting packets ({} bytes) still in flight (tracked packets per space {:?}, PTO count {}, armed timers {:?})", p.in_flight_ack_eliciting, p.in_flight_bytes, p.sent_packets, p.pto_count, p.timers.iter().map(|t| (t.0, ran.w.rel(t.1) as i128 - ran.w.now as i128)).collect::<Vec<_>>()));
                }
            }
        }
        if !msgs.is_empty() {
            let d = super::c02::diag(&ran.w);
            for m in msgs.iter_mut() {
                m.push_str(&format!(";{d}"));
            }
        }
        for m in msgs {
            ran.w.mon.violate("C12", m);
        }
    }
    // window floor of the built-in controllers observed in vivo
    let mut msgs = vec![];
    for e in &ran.w.eps {
        for c in e.conns.values() {
            let l = c.cc.log.lock().unwrap();
            ran.w.mon.cnt.add("c12.floor_checks_in_vivo", l.window_reads);
            for v in &l.floor_violations {
                msgs.push(format!("{}: {v} (observed on a live connection)", format!("{:?}", c.tcfg.cc).to_lowercase()));
            }
        }
    }
    for m in msgs {
        ran.w.mon.violate("C12", m);
    }
    finish_case(&h, ran, trace, "c12.gate_checked")
}

fn c12_clean_case(seed: u64, trace: bool) -> CaseOut {
    let mut k = Knobs::default();
    k.faults = false;
    k.mtu_changes = false;
    k.max_stream_len = 100_000;
    k.n_clients = 1 + (seed % 2) as usize;
    let mut h = Honest::random(seed, &k);
    h.drv.timer_late_ns = 0;
    for t in h.cli_t.iter_mut().chain([&mut h.srv_t]) {
        t.pad_to_mtu = false;
        if let Some(m) = &mut t.mtud {
            // the clean path carries everything up to the endpoint's 1472-byte receive limit
            m.0 = m.0.min(1472);
        }
    }
    h.net.mtu = 65535;
    let mut ran = run_honest(&h, trace, 30_000, 900_000_000_000);
    debug_assert!(h.net.is_clean_fifo());
    let mut msgs = vec![];
    for (ei, e) in ran.w.eps.iter().enumerate() {
        for (ch, c) in &e.conns {
            let s = c.c.stats();
            ran.w.mon.cnt.inc("c12.clean_path_checks");
            ran.w.mon.cnt.add("c12.clean_path_packets", s.path.sent_packets);
            if s.path.lost_packets != 0 || s.path.congestion_events != 0 {
                msgs.push(format!(
                    "conn {ei}/{ch}: loss-free in-order constant-delay path but lost_packets={} congestion_events={} (sent {})",
                    s.path.lost_packets, s.path.congestion_events, s.path.sent_packets
                ));
            }
        }
    }
    for m in msgs {
        ran.w.mon.violate("C12", m);
    }
    finish_case(&h, ran, trace, "c12.clean_path_packets")
}

/// Drive the built-in controllers directly with random call histories.
fn c12_controller_case(seed: u64) -> CaseOut {
    let mut r = Rng::new(seed);
    let t0 = Instant::now();
    let mut out = CaseOut::default();
    let which = r.below(3);
    let mut mtu: u16 = *r.pick(&[1200, 1300, 1452, 1500, 9000]);
    let mut c = match which {
        0 => std::sync::Arc::new(CubicConfig::default()).build(t0, mtu),
        1 => std::sync::Arc::new(NewRenoConfig::default()).build(t0, mtu),
        _ => std::sync::Arc::new(BbrConfig::default()).build(t0, mtu),
    };
    let name = ["cubic", "newreno", "bbr"][which as usize];
    let mut now_ns: u64 = 0;
    let mut pn = 0u64;
    let mut in_flight = 0u64;
    let ests = crate::cfg::rtt_samples();
    let mut calls = 0u64;
    let mut hist: Vec<String> = vec![];
    let (mut cong_since_acks, mut mtu_raised) = (false, false);
    for _ in 0..(50 + r.below(400)) {
        now_ns += *r.pick(&[0, 1, 1000, 1_000_000, 50_000_000, 2_000_000_000]);
        let now = t0 + Duration::from_nanos(now_ns);
        let sent = t0 + Duration::from_nanos(now_ns.saturating_sub(r.below(200_000_000)));
        let op = r.below(8);
        let desc;
        match op {
            0 | 1 => {
                let b = *r.pick(&[1u64, 30, 1200, 1452, 9000, 65535]);
                pn += 1;
                in_flight += b;
                c.on_sent(now, b, pn);
                desc = format!("sent({b})");
            }
            2 | 3 => {
                let b = *r.pick(&[1u64, 30, 1200, 1452, 65535]).min(&in_flight.max(1));
                in_flight = in_flight.saturating_sub(b);
                let app_limited = r.bool();
                if !ests.is_empty() {
                    let e = ests[r.usize(ests.len())];
                    c.on_ack(now, sent, b, app_limited, &e);
                    c.on_end_acks(now, in_flight, app_limited, Some(pn));
                    cong_since_acks = false;
                }
                desc = format!("ack({b})");
            }
            4 | 5 => {
                let persistent = r.chance(25);
                let ecn = r.chance(30);
                let lost = if ecn { 0 } else { *r.pick(&[1u64, 1200, 30_000, 1_000_000]) };
                c.on_congestion_event(now, sent, persistent, ecn, lost);
                cong_since_acks = true;
                desc = format!("congestion(persistent={persistent},ecn={ecn},lost={lost})");
            }
            6 => {
                let new = *r.pick(&[1200, 1250, 1452, 1500, 4000, 9000]);
                if new > mtu {
                    mtu_raised = true;
                }
                mtu = new;
                c.on_mtu_update(mtu);
                desc = format!("mtu({mtu})");
            }
            _ => {
                c.on_spurious_congestion_event();
                desc = "spurious".into();
            }
        }
        calls += 1;
        if hist.len() < 40 {
            hist.push(desc.clone());
        }
        let w = c.window();
        if w < 2 * mtu as u64 {
            out.viol.push(crate::app::Violation {
                prop: "C12",
                msg: format!("{name}: {}window {w} < 2 x mtu {mtu} after {desc} (call #{calls}, history prefix {hist:?})", crate::cfg::floor_tag(cong_since_acks, mtu_raised)),
            });
            break;
        }
        if r.chance(3) {
            c = c.clone_box();
        }
    }
    out.cnt.add("c12.controller_calls", calls);
    out.cnt.inc(match which {
        0 => "c12.controller_cubic",
        1 => "c12.controller_newreno",
        _ => "c12.controller_bbr",
    });
    out.nontrivial = true;
    out.fp = fingerprint(&[name], &[seed]);
    if seed % 997 == 0 {
        out.sample = Some(json!({"controller": name, "history_prefix": hist, "calls": calls}));
    }
    out
}

pub fn run_c12(ctx: &Ctx) -> i32 {
    let t = Instant::now();
    let mut rep = Report::default();
    let g = Group { name: "gate", cases: ctx.tier.pick(800, 60_000), budget_s: ctx.tier.pick(35.0, 540.0), exhaustive: false };
    run_group(ctx, &mut rep, &g, |_, seed, trace| c12_gate_case(seed, trace));
    let g = Group { name: "clean-path", cases: ctx.tier.pick(400, 20_000), budget_s: ctx.tier.pick(20.0, 240.0), exhaustive: false };
    run_group(ctx, &mut rep, &g, |_, seed, trace| c12_clean_case(seed, trace));
    let g = Group { name: "controllers", cases: ctx.tier.pick(4000, 400_000), budget_s: ctx.tier.pick(10.0, 180.0), exhaustive: false };
    run_group(ctx, &mut rep, &g, |_, seed, _| c12_controller_case(seed));
    // packets abandoned wholesale: 0-RTT rejection and Retry (the C17 worlds) and migration (the
    // C15 worlds) with the same gate and conservation monitors switched on
    let g = Group { name: "abandon-0rtt", cases: ctx.tier.pick(1500, 60_000), budget_s: ctx.tier.pick(8.0, 120.0), exhaustive: false };
    run_group(ctx, &mut rep, &g, |_, seed, trace| {
        let mut o = super::c17::case(seed, Lane::Null, trace, None);
        o.viol.retain(|v| v.prop == "C12");
        o
    });
    let g = Group { name: "abandon-migration", cases: ctx.tier.pick(300, 20_000), budget_s: ctx.tier.pick(10.0, 120.0), exhaustive: false };
    run_group(ctx, &mut rep, &g, |_, seed, trace| {
        let mut o = super::c15::migrate_case(seed, Lane::Null, trace);
        o.viol.retain(|v| v.prop == "C12");
        o
    });
    finish(
        ctx,
        &rep,
        Finish {
            level: "exploration",
            rule: "(gate) seeded worlds whose congestion controllers are Cubic/NewReno/BBR or a harness controller with a fixed or adversarially re-drawn window (never below two datagrams): every emitted datagram is decoded; walking the datagrams of a transmit with F_i = bytes in flight before it (probe) + counted bytes of earlier datagrams, every non-exempt ack-eliciting datagram must satisfy F_i + size < window; exempt: <= loss_probes-delta datagrams per call, the MTU probe, PATH_CHALLENGE/RESPONSE and CONNECTION_CLOSE datagrams. Conservation: no tracked packet => 0 bytes in flight (every poll), and 0 ack-eliciting packets in flight 30 s after completion. (clean-path) loss-free FIFO constant-delay network: lost_packets == 0 and congestion_events == 0. (controllers) built-in controllers driven directly with random on_sent/on_ack/on_end_acks/on_congestion_event/on_mtu_update/clone histories (RttEstimator values captured from live connections): window() >= 2 x mtu after every call; the same floor asserted in vivo by a wrapping controller. (abandon-0rtt / abandon-migration) the 0-RTT worlds of C17 (rejection discards every early packet, Retry re-sends them) and the migration worlds of C15 under the same gate and conservation monitors.".into(),
            assumptions: vec![
                "a packet counts towards bytes in flight iff it has an ack-eliciting frame or PADDING (quinn's rule, re-derived from the decoded frames)".into(),
                "transmits during which the client discards its Initial keys are only checked up to that datagram".into(),
            ],
            min_evals: ctx.tier.pick(500, 20_000),
            min_nontrivial: ctx.tier.pick(300, 5000),
            required: vec!["c12.gate_checked", "c12.gate_near_window", "c12.gate_exempt_pending_probe", "c12.conservation_checks", "c12.final_conservation_checks", "c12.clean_path_packets", "c12.controller_calls", "c12.floor_checks_in_vivo"],
            exhaustive: false,
        },
        t.elapsed().as_secs_f64(),
    )
}

// ---------------------------------------------------------------------------------------------
// C13
// ---------------------------------------------------------------------------------------------

/// Let a finished world drain its outgoing DATAGRAM queues: keep running as long as the queues keep
/// shrinking (slow worlds - minimum windows, pacing caps - take their time), up to an hour of
/// virtual time. What is left when a whole minute passes without a single datagram leaving is stuck.
/// Let the outgoing DATAGRAM queues drain. Returns true if they stalled: a minute of virtual time
/// in which no queue got shorter and no application handed over anything new (an application that
/// still has datagrams to send refills the queue as fast as it drains; that is not a stall).
fn drain_dgram_queues(w: &mut crate::world::World) -> bool {
    let state = |w: &crate::world::World| -> (usize, u64) {
        let live = || w.eps.iter().flat_map(|e| e.conns.values()).filter(|c| !c.c.is_closed());
        (live().map(|c| c.c.verif_probe().dgram_outgoing.0).sum(), live().map(|c| c.app.dgram_progress() as u64).sum())
    };
    let mut last = state(w);
    for _ in 0..240 {
        if last.0 == 0 {
            return false;
        }
        let until = w.now + 60_000_000_000;
        let _ = w.run(20_000, until, |_| false);
        let cur = state(w);
        if cur.0 >= last.0 && cur.1 == last.1 {
            if w.now >= until {
                return true;
            }
            // (step cap before the minute was over: keep going)
            continue;
        }
        last = cur;
    }
    false
}

fn c13_case(seed: u64, trace: bool) -> CaseOut {
    c13_case_with(seed, trace, false)
}

/// `padded`: some peers pad every datagram to the MTU estimate. Only the per-datagram size rules
/// are judged then (loss probes included); whether such worlds complete is C02's known finding.
fn c13_case_with(seed: u64, trace: bool, padded: bool) -> CaseOut {
    let mut k = Knobs::default();
    k.max_stream_len = 60_000;
    k.fault_window_ns = Some(10_000_000_000);
    k.migration = seed % 4 == 0;
    let mut h = Honest::random(seed, &k);
    let mut r = Rng::new(seed ^ 0xC13);
    for t in h.cli_t.iter_mut().chain([&mut h.srv_t]) {
        t.initial_mtu = *r.pick(&[1200, 1200, 1280, 1400, 1452]);
        t.min_mtu = *r.pick(&[1200, 1200, 1250]).min(&t.initial_mtu);
        t.mtud = if r.chance(75) { Some((*r.pick(&[1300, 1452, 1472, 4000, 9000]), *r.pick(&[1, 5, 600]), *r.pick(&[1, 60]), *r.pick(&[1, 20, 100]))) } else { None };
        t.pad_to_mtu = padded && r.chance(70);
        t.gso = r.chance(80);
    }
    h.drv.max_datagrams = *r.pick(&[1, 2, 5, 10]);
    // what each side is prepared to receive: sometimes less than the other side's initial MTU
    h.max_udp_payload = [*r.pick(&[1200, 1300, 1472, 1472, 9000]), *r.pick(&[1200, 1250, 1472, 1472, 9000])];
    // path MTU profile: starts somewhere, then black-holes larger packets (repeatedly)
    h.net.mtu = *r.pick(&[1200, 1350, 1452, 1472, 2000, 9000]);
    h.net.mtu_schedule.clear();
    let mut at = 0u64;
    for _ in 0..r.below(4) {
        at += 200_000_000 + r.below(3_000_000_000);
        h.net.mtu_schedule.push((at, *r.pick(&[1200, 1201, 1250, 1300, 1452, 9000])));
    }
    // the configured min_mtu is the user's promise about the path: never go below it
    let floor = h.cli_t.iter().chain([&h.srv_t]).map(|t| t.min_mtu as usize).max().unwrap();
    h.net.mtu = h.net.mtu.max(floor);
    for e in &mut h.net.mtu_schedule {
        e.1 = e.1.max(floor);
    }
    // initial_mtu above the path MTU with discovery (and thus black-hole detection tuning) is a
    // legitimate black-hole scenario as long as min_mtu fits
    if r.chance(30) {
        // a burst of large DATAGRAMs queued behind a black hole that is there from the start
        // (what is queued and no longer fits must be discarded, or everything behind it is stuck)
        for t in h.cli_t.iter_mut().chain([&mut h.srv_t]) {
            t.initial_mtu = *r.pick(&[1400, 1452]);
            t.min_mtu = 1200;
            t.mtud = Some((*r.pick(&[1452, 1472]), 600, 60, 20));
        }
        h.max_udp_payload = [1472, 1472];
        h.net.mtu = *r.pick(&[1200, 1250, 1350]);
        h.net.mtu_schedule.clear();
        for a in h.cli_app.iter_mut().chain([&mut h.srv_app]) {
            a.dgram_count = *r.pick(&[40, 200]);
            a.dgram_min = *r.pick(&[8, 1000]);
            a.dgram_max = 1500;
            a.dgram_drop_pct = *r.pick(&[0, 100]);
        }
    }
    // the application announces a path change (RTT, congestion controller and MTU discovery restart
    // from the configuration, whatever the peer's limit and the path allow)
    if r.chance(50) {
        for _ in 0..1 + r.below(3) {
            h.ops.push((r.below(6_000_000_000), Op::PathChanged { ep: r.usize(1 + h.cli_t.len()) }));
        }
    }
    let mut ran = run_honest(&h, trace, 40_000, 1_800_000_000_000);
    // nothing stays queued for good: once the world has calmed down the outgoing DATAGRAM queues of
    // the surviving connections are empty
    if !any_lost(&ran.w) && matches!(ran.end, RunEnd::Done) && !padded {
        let stalled = drain_dgram_queues(&mut ran.w);
        if stalled && !any_lost(&ran.w) {
            for (ei, e) in ran.w.eps.iter().enumerate() {
                for (ch, c) in &e.conns {
                    ran.w.mon.cnt.inc("c13.dgram_queue_checks");
                    let q = c.c.verif_probe().dgram_outgoing;
                    if q.0 > 0 && !c.c.is_closed() {
                        ran.w.mon.viol.push(crate::app::Violation { prop: "C13", msg: format!("conn {ei}/{ch}: {} DATAGRAMs ({} bytes) still queued and not one has left in the last minute, long after the workload ended; current MTU {} | path MTU profile {:?} | {}", q.0, q.1, c.c.current_mtu(), h.net.mtu_schedule, h.summary()) });
                    }
                }
            }
        }
    }
    // fallback + keeps delivering: under the C02 rule the workload must complete
    if !any_lost(&ran.w) && !padded {
        match ran.end {
            RunEnd::Quiescent => {
                let cur = ran.w.netcfg.mtu;
                ran.w.mon.violate("C13", format!("path MTU profile {:?} (final {cur}): world stuck with workload incomplete | {}", h.net.mtu_schedule, h.summary()));
            }
            RunEnd::TimeCap => {
                // slow is C02's business (minimum windows that an MTU probe in flight fills, tiny
                // flow-control windows: bytes trickle at probe-timeout pace); what this property
                // asks is that delivery continues. Give it 600 s more and compare the ledger.
                let progress = |w: &crate::world::World| -> u64 { w.led.flows.values().map(|f| f.delivered.total()).sum::<u64>() + w.led.cnt.get("c16.recv") };
                let before = progress(&ran.w);
                let until = ran.w.now + 600_000_000_000;
                let end2 = ran.w.run(40_000, until, |w| w.workload_complete());
                if end2 == RunEnd::Done {
                    ran.w.mon.cnt.inc("c13.completed_late");
                    ran.end = RunEnd::Done;
                } else if progress(&ran.w) > before {
                    ran.w.mon.cnt.inc("c13.timecap_still_progressing");
                } else {
                    let d = super::c02::diag(&ran.w);
                    let mtus: Vec<u16> = ran.w.eps.iter().flat_map(|e| e.conns.values().map(|c| c.c.current_mtu())).collect();
                    ran.w.mon.violate("C13", format!("path MTU profile {:?}: no completion within 1800 s and nothing delivered in the 600 s after that; MTU estimates at the end {mtus:?};{d} | {}", h.net.mtu_schedule, h.summary()));
                }
            }
            _ => {}
        }
    }
    let mut black = 0;
    for e in &ran.w.eps {
        for c in e.conns.values() {
            black += c.c.stats().path.black_holes_detected;
        }
    }
    ran.w.mon.cnt.add("c13.black_holes_detected", black);
    finish_case(&h, ran, trace, "c13.transmits_checked")
}

pub fn run_c13(ctx: &Ctx) -> i32 {
    let t = Instant::now();
    let mut rep = Report::default();
    let g = Group { name: "mtu", cases: ctx.tier.pick(1000, 60_000), budget_s: ctx.tier.pick(45.0, 720.0), exhaustive: false };
    run_group(ctx, &mut rep, &g, |_, seed, trace| c13_case(seed, trace));
    // pad_to_mtu: the size rules (probe timeouts fire with datagrams of at most 1200 bytes, nothing
    // above the estimate) with every datagram padded
    let g = Group { name: "padded", cases: ctx.tier.pick(500, 30_000), budget_s: ctx.tier.pick(15.0, 200.0), exhaustive: false };
    run_group(ctx, &mut rep, &g, |_, seed, trace| {
        let mut out = c13_case_with(seed, trace, true);
        // (honest-rule reports about connections that starve are the C02 finding, not sizes)
        out.viol.retain(|v| v.prop != "C13" || !v.msg.contains("honest peers"));
        out
    });
    // closing packets: CONNECTION_CLOSE / APPLICATION_CLOSE with error codes of every varint size
    // and reasons up to several packets long, sent in every packet space (the C08 scenarios; only
    // the size monitor's verdicts count here)
    let g = Group { name: "closing", cases: ctx.tier.pick(1500, 60_000), budget_s: ctx.tier.pick(15.0, 240.0), exhaustive: false };
    run_group(ctx, &mut rep, &g, |_, seed, trace| super::c08::case(seed, Lane::Null, trace));
    finish(
        ctx,
        &rep,
        Finish {
            level: "exploration",
            rule: "seeded worlds with initial_mtu / min_mtu / discovery (upper bound, interval, cooldown, minimum change) configurations, peer max_udp_payload_size 1200..9000 (sometimes below the other side's initial MTU), GSO batch 1..10, path MTU 1200..9000 that drops (black hole) or rises at random instants, coalesced handshake flights, DATAGRAM frames, loss/reorder faults, rebinding, Connection::path_changed() at random instants on either side (half of the worlds). Per transmit: every datagram <= current_mtu() read before the call (all but the last exactly segment_size) unless the call sent the MTU probe (sent_plpmtud_probes delta), which must be a single datagram <= min(upper bound, peer limit); client Initial datagrams and PATH_CHALLENGE/RESPONSE datagrams >= 1200; if loss_probes fell by d at least d datagrams <= 1200. Estimate history: rises only to the size of an earlier probe the simulated path did not drop, never below min(min_mtu, peer limit). Black hole: the workload still completes (bounded progress). (closing) connections closed by either side after every prefix of an exchange with application error codes of 1/2/4/8 encoded bytes and reasons of 0..5000 bytes: the same per-datagram size rules.".into(),
            assumptions: vec!["with pad_to_mtu (group `padded`) only the size rules are judged, not completion (see the C02 known finding); probe acknowledgement itself is not observed, only that a probe of that size was sent and not dropped by the path".into()],
            min_evals: ctx.tier.pick(150, 5000),
            min_nontrivial: ctx.tier.pick(100, 2000),
            required: vec!["c13.transmits_checked", "c13.mtu_probes", "c13.mtu_rises", "c13.loss_probes_sent", "c13.client_initial_dgrams", "c13.black_holes_detected", "net.mtu_drop", "op.path_changed"],
            exhaustive: false,
        },
        t.elapsed().as_secs_f64(),
    )
}

// ---------------------------------------------------------------------------------------------
// C16
// ---------------------------------------------------------------------------------------------

fn c16_case(seed: u64, trace: bool) -> CaseOut {
    let mut k = Knobs::default();
    k.max_stream_len = 20_000;
    k.max_streams = 3;
    k.fault_window_ns = Some(10_000_000_000);
    let overflow_focus = seed % 3 == 0;
    if overflow_focus {
        k.faults = false;
        k.mtu_changes = false;
        k.ops = false;
    }
    let mut h = Honest::random(seed, &k);
    let mut r = Rng::new(seed ^ 0xC16);
    for t in h.cli_t.iter_mut().chain([&mut h.srv_t]) {
        t.dgram_recv_buf = Some(*r.pick(&[0, 1, 100, 1200, 5000, 65536, 1_250_000]));
        t.dgram_send_buf = *r.pick(&[0, 1, 100, 1200, 5000, 1 << 20]);
        t.pad_to_mtu = false;
    }
    for a in h.cli_app.iter_mut().chain([&mut h.srv_app]) {
        a.dgram_count = *r.pick(&[5, 40, 200, 600]);
        a.dgram_min = *r.pick(&[0, 0, 8, 1000]);
        a.dgram_max = *r.pick(&[7, 100, 1200, 1500, 9000]);
        a.dgram_drop_pct = *r.pick(&[0, 50, 100]);
        a.dgram_read = r.chance(80);
    }
    if overflow_focus {
        // a receiver that never reads, with a small buffer, on a FIFO path
        h.drv.timer_late_ns = 0;
        for t in h.cli_t.iter_mut().chain([&mut h.srv_t]) {
            t.dgram_recv_buf = Some(*r.pick(&[100, 1200, 5000, 20_000]));
            t.dgram_send_buf = 1 << 20;
        }
        h.srv_app.dgram_read = false;
        for a in h.cli_app.iter_mut() {
            a.dgram_count = *r.pick(&[40, 200, 600]);
            a.dgram_min = 8;
            a.dgram_max = *r.pick(&[50, 300, 1200]);
            a.dgram_drop_pct = 0;
        }
    }
    let clean = h.net.loss_pm == 0 && h.net.dup_pm == 0 && h.net.reorder_pm == 0 && h.net.jitter_ns == 0 && h.net.corrupt_pm == 0;
    let mut ran = run_honest(&h, trace, 30_000, 600_000_000_000);
    // let queued datagrams drain, then read whatever the non-reading receivers still hold
    let limit = ran.w.now + 5_000_000_000;
    let _ = ran.w.run(3_000, limit, |_| false);
    let calm = !any_lost(&ran.w) && matches!(ran.end, RunEnd::Done);
    let queues_stalled = calm && drain_dgram_queues(&mut ran.w);
    // a sender that was told Blocked is told DatagramsUnblocked once there is room again
    if !any_lost(&ran.w) {
        let mut msgs = vec![];
        for (ei, e) in ran.w.eps.iter().enumerate() {
            for (ch, c) in &e.conns {
                ran.w.mon.cnt.inc("c16.unblock_checks");
                let p = c.c.verif_probe();
                // nothing stays queued for good either (datagrams that no longer fit after a
                // black hole must be discarded, or everything behind them is stuck)
                if p.dgram_outgoing.0 > 0 && !c.c.is_closed() && c.app.connected && queues_stalled {
                    msgs.push(format!("conn {ei}/{ch}: {} DATAGRAMs ({} bytes) still queued and not one has left in the last minute, long after the workload ended; current MTU {};{}", p.dgram_outgoing.0, p.dgram_outgoing.1, c.c.current_mtu(), super::c02::diag(&ran.w)));
                }
                if c.app.dgram_blocked && p.dgram_outgoing.0 == 0 && !c.c.is_closed() && c.app.connected {
                    msgs.push(format!("conn {ei}/{ch}: send() returned Blocked, the outgoing queue has drained (send_buffer_space {}), but DatagramsUnblocked was never emitted", c.tcfg.dgram_send_buf));
                }
            }
        }
        for m in msgs {
            ran.w.mon.violate("C16", format!("{m} | {}", h.summary()));
        }
    }
    ran.w.read_all_datagrams(clean);
    finish_case(&h, ran, trace, "c16.recv")
}

pub fn run_c16(ctx: &Ctx) -> i32 {
    let t = Instant::now();
    let mut rep = Report::default();
    let g = Group { name: "dgram", cases: ctx.tier.pick(6000, 200_000), budget_s: ctx.tier.pick(40.0, 600.0), exhaustive: false };
    run_group(ctx, &mut rep, &g, |_, seed, trace| c16_case(seed, trace));
    finish(
        ctx,
        &rep,
        Finish {
            level: "exploration",
            rule: "seeded worlds with datagram sizes 0..max_size+2, 5..600 datagrams per peer, drop=true/false, send and receive buffers from {0,1,100,1200,5000,...}, reading and non-reading receivers, mixed with stream traffic, loss/dup/reorder/corruption, MTU growth and black holes. Oracles: every recv() output byte-identical to one datagram whose send() returned Ok (self-identifying (pair, seq, len) payloads), each seq at most once; send() admission model (TooLarge iff len > min(max_size, send buffer); Blocked iff !drop and no space; send_buffer_space decreases by len); a non-reading receiver on a FIFO path ends up holding a suffix of the arrival order (oldest dropped first) within its byte budget; every DATAGRAM frame on the wire fits one packet <= current MTU and <= peer max_datagram_frame_size (decoded, plaintext lane). Non-trivial = at least one datagram received.".into(),
            assumptions: vec!["arrival order is taken from DATAGRAM frames decoded at delivery on the plaintext lane".into()],
            min_evals: ctx.tier.pick(150, 5000),
            min_nontrivial: ctx.tier.pick(100, 2000),
            required: vec!["c16.recv", "c16.blocked", "c16.too_large", "c16.send_calls", "c16.suffix_checks", "c16.receiver_overflowed", "c16.wire_frames_checked", "c16.admission_checks"],
            exhaustive: false,
        },
        t.elapsed().as_secs_f64(),
    )
}
