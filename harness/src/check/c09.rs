//! C09 — datagrams reach the right connection; connections are isolated.

use std::time::Instant;

use serde_json::json;

use super::{common::*, finish, run_group, CaseOut, Ctx, Finish, Group, Report};
use crate::{
    cfg::CidGenKind,
    scen::{Honest, Knobs},
    util::Rng,
    world::{Lane, Op, RunEnd},
};

/// Stateless resets carrying reset tokens that are no longer in use. A connection is told a token
/// with every NEW_CONNECTION_ID it receives and registers the one of the CID it currently sends to
/// with its endpoint. Tokens of CIDs it has retired, and every token of a connection that has
/// drained, must route nowhere: not to the forgotten handle, not to whoever took over its slot,
/// and a retired token must not end a connection that is still alive.
pub fn retired_token_phase(w: &mut crate::world::World, r: &mut Rng, lane: Lane) {
    if lane != Lane::Null {
        return; // (frames are only readable on the plaintext lane)
    }
    let seen: Vec<((usize, u64), crate::mon::NciSeen)> = w.mon.nci_seen.iter().map(|(k, v)| (*k, v.clone())).collect();
    let alive_before: Vec<(usize, usize, usize)> = w.eps.iter().enumerate().flat_map(|(ei, e)| e.conns.iter().filter(|(_, c)| !c.c.is_closed() && !c.c.is_drained() && c.app.lost_count == 0).map(move |(ch, c)| (ei, *ch, c.app.lost_count as usize))).collect();
    let mut at = w.now + 1_000_000;
    let mut injected = 0;
    w.reset_by_injected.clear();
    // (short CIDs repeat and a token is a function of its CID: a retired sequence number, or a
    // drained connection, may have carried the same token as a CID some live connection of that
    // endpoint still uses - that one legitimately resets)
    let mut in_use: std::collections::BTreeSet<(usize, [u8; 16])> = Default::default();
    for ((ei, pair), n) in &seen {
        if w.eps[*ei].conns.values().any(|c| c.pair == *pair && !c.c.is_drained()) {
            in_use.extend(n.tokens.iter().filter(|(seq, _)| !n.retired_sent.contains(seq)).map(|(_, t)| (*ei, *t)));
        }
    }
    for ((ei, pair), n) in seen {
        // (tokens are a function of the CID: an issuer with very short CIDs hands out the same
        // token again and again, also for the handshake CID whose token is not visible here)
        let issuer_short = n.srcs.iter().any(|a| w.eps.iter().any(|e| e.addrs.contains(a) && e.spec.cid_len < 4));
        if issuer_short {
            continue;
        }
        let alive = w.eps[ei].conns.values().any(|c| c.pair == pair && !c.c.is_drained());
        let dst = w.eps[ei].addr;
        for (seq, tok) in &n.tokens {
            if in_use.contains(&(ei, *tok)) || (alive && !n.retired_sent.contains(seq)) {
                // possibly the token in use (that one legitimately resets); only those the
                // connection itself announced as retired are certainly not
                continue;
            }
            for src in &n.srcs {
                if injected >= 400 {
                    break;
                }
                let dl = 25 + r.usize(40);
                let mut data = r.bytes(dl);
                data[0] = 0x40 | (data[0] & 0x3f);
                data.extend_from_slice(tok);
                w.inject(at, *src, dst, None, data, 0, true);
                if std::env::var("QV_C09_DEBUG").is_ok() {
                    let before: Vec<String> = w.eps.iter().flat_map(|e| e.conns.values().flat_map(|c| c.app.lost.clone())).collect();
                    while w.now <= at && w.step() {}
                    let after: Vec<String> = w.eps.iter().flat_map(|e| e.conns.values().flat_map(|c| c.app.lost.clone())).collect();
                    if after.len() != before.len() {
                        eprintln!("C09DEBUG token of seq {seq} (ep {ei} pair {pair:x}, retired_sent {:?}, known seqs {:?}, alive {alive}) from {src} reset something: {after:?}", n.retired_sent, n.tokens.keys().collect::<Vec<_>>());
                    }
                }
                at += 50_000;
                injected += 1;
            }
        }
    }
    w.mon.cnt.add("c09.retired_tokens_offered", injected);
    if injected == 0 {
        return;
    }
    let deadline = at + 50_000_000;
    let mut steps = 0;
    while w.now < deadline && steps < 20_000 && w.step() {
        steps += 1;
    }
    for (ei, ch, _) in alive_before {
        if let Some(c) = w.eps[ei].conns.get(&ch) {
            // (only resets that one of the offered datagrams caused: a live connection whose peer
            // is gone can be reset by that peer's endpoint at any time, and legitimately)
            if c.app.lost.iter().any(|l| l.contains("Reset")) && w.reset_by_injected.contains(&(ei, ch)) {
                let pair = c.pair;
                w.mon.violate("C09", format!("conn {ei}/{ch} (pair {pair:x}) was reset by a stateless reset carrying a retired token"));
            }
        }
    }
    // a datagram routed to a forgotten handle is reported by the world under C08 (termination);
    // here it is a routing failure in its own right
    let moved: Vec<String> = w.led.viol.iter().filter(|v| v.prop == "C08" && v.msg.contains("drained and was forgotten")).map(|v| v.msg.clone()).collect();
    for m in moved {
        w.mon.violate("C09", format!("{m} (a stateless reset carrying one of its retired reset tokens)"));
    }
}

fn case(seed: u64, lane: Lane, trace: bool, focus: u8) -> CaseOut {
    let (stale_focus, short_focus) = (focus == 1, focus == 2);
    let mut r = Rng::new(seed ^ 0xC09);
    let mut k = Knobs::default();
    k.lane = lane;
    k.n_clients = 2 + r.usize(7);
    k.max_stream_len = 20_000;
    k.max_streams = 4;
    k.migration = true;
    k.fault_window_ns = Some(6_000_000_000);
    k.idle_off = true;
    let mut h = Honest::random(seed, &k);
    h.cid_gen = *r.pick(&[CidGenKind::Seq, CidGenKind::Seq, CidGenKind::Random, CidGenKind::Hashed]);
    if h.cid_gen == CidGenKind::Hashed {
        h.cid_len = [8, 8];
    }
    h.cid_len[0] = *r.pick(&[0, 4, 5, 8, 16, 20]);
    if h.cid_gen == CidGenKind::Hashed {
        h.cid_len[0] = 8;
    }
    h.cid_len[1] = *r.pick(&[4, 8, 20]);
    if h.cid_gen == CidGenKind::Hashed {
        // (that generator only makes 8-byte CIDs; the spec length is what the wire decoder uses)
        h.cid_len[1] = 8;
    }
    h.cid_lifetime_ms = if r.chance(50) { Some(*r.pick(&[30, 200, 2000])) } else { None };
    // (token expiry under heavy loss and plaintext-visible reset tokens would end connections for
    // reasons that are not this property's business)
    h.retry_lifetime_ms = 10_000_000;
    h.net.corrupt_pm = 0;
    if stale_focus {
        // connection IDs rotate quickly, connections end and their slots are taken over by new
        // ones, and old datagrams (carrying long-retired CIDs) are replayed much later
        h.cid_lifetime_ms = Some(*r.pick(&[20, 30, 60]));
        h.net.replay_pm = *r.pick(&[200, 400]);
        // CIDs that are never issued twice by an endpoint (the Random generator with short CIDs and
        // the Hashed one, whose CIDs carry a 24-bit nonce, legitimately re-issue old values to
        // other connections when rotation is this fast: a replay is then routed by the book)
        h.cid_gen = CidGenKind::Seq;
        h.cid_len = [*r.pick(&[8, 16, 20]), *r.pick(&[8, 20])];
    }
    if short_focus {
        // one- and two-byte CIDs from a small pseudo-random space: every endpoint holds dozens of
        // them, so newly generated ones keep colliding with CIDs other connections still use.
        // Strict FIFO delivery without duplicates: a datagram then always arrives while the CID
        // it carries still belongs to its connection.
        h.cid_gen = CidGenKind::Seq;
        h.cid_len = [*r.pick(&[1, 1, 2]), *r.pick(&[1, 2])];
        h.cid_lifetime_ms = *r.pick(&[None, Some(150), Some(400), Some(2000)]);
        h.net.dup_pm = 0;
        h.net.reorder_pm = 0;
        h.net.replay_pm = 0;
        h.net.jitter_ns = 0;
        h.net.dup_idx = Default::default();
        h.ops.retain(|(_, op)| !matches!(op, Op::Rebind { .. }));
    }
    for t in h.cli_t.iter_mut().chain([&mut h.srv_t]) {
        t.pad_to_mtu = false;
    }
    // extra connections from existing client endpoints (several handles per client endpoint),
    // connections closing and new ones reusing freed slots
    let n_extra = if short_focus { 4 + r.below(8) } else { r.below(6) };
    for _ in 0..n_extra {
        let from = 1 + r.usize(k.n_clients);
        let at = r.below(4_000_000_000);
        h.ops.push((at, Op::Connect { from, tcfg: Box::new(h.cli_t[from - 1].clone()), app: Box::new(h.cli_app[from - 1].clone()) }));
    }
    let n_close = if stale_focus { 2 + r.below(3) } else { r.below(4) };
    let mut closed = vec![];
    for _ in 0..n_close {
        let ep = 1 + r.usize(k.n_clients);
        let at = 200_000_000 + r.below(3_000_000_000);
        h.ops.push((at, Op::CloseOne { ep, ch: 0, code: 9 }));
        closed.push(ep);
        if stale_focus {
            // somebody else takes the freed slot shortly afterwards
            let from = 1 + r.usize(k.n_clients);
            h.ops.push((at + 300_000_000 + r.below(1_500_000_000), Op::Connect { from, tcfg: Box::new(h.cli_t[from - 1].clone()), app: Box::new(h.cli_app[from - 1].clone()) }));
        }
    }
    let reconnect_focus = seed % 5 == 0;
    if reconnect_focus && !short_focus {
        // a client that closes and immediately reconnects from the same address to a server that
        // routes by address (zero-length CIDs)
        h.cid_len[0] = 0;
        h.cid_gen = CidGenKind::Seq;
    }
    if h.cid_len[0] == 0 && !short_focus {
        // address-routed server: its clients cannot migrate (see scen.rs) and the same client
        // endpoint cannot hold two connections to it
        h.ops.retain(|(_, op)| !matches!(op, Op::Connect { .. } | Op::Rebind { .. }));
    }
    if reconnect_focus && !short_focus {
        let ep = 1 + r.usize(k.n_clients);
        let at = 300_000_000 + r.below(2_000_000_000);
        h.ops.push((at, Op::CloseOne { ep, ch: 0, code: 9 }));
        let gap = *r.pick(&[0u64, 1_000, 1_000_000, 20_000_000, 200_000_000]);
        h.ops.push((at + gap, Op::Connect { from: ep, tcfg: Box::new(h.cli_t[ep - 1].clone()), app: Box::new(h.cli_app[ep - 1].clone()) }));
    }
    let mut ran = {
        let mut w = h.build();
        if trace {
            w.trace = Some(vec![]);
        }
        w.mon.track_cid_owner = short_focus;
        let end = w.run(40_000, 900_000_000_000, |w| w.steps > 3 && w.all_connected() && w.workload_complete());
        Ran { w, end }
    };
    if !short_focus {
        // (with one- and two-byte CIDs the reset tokens, which are a function of the CID, repeat
        // across connections and with the unobservable token of the handshake CID)
        retired_token_phase(&mut ran.w, &mut r, lane);
    }
    // isolation: connections that were not closed on purpose (nor share an endpoint with a
    // closed one's peer) must not have been lost
    let mut msgs = vec![];
    for (ei, e) in ran.w.eps.iter().enumerate() {
        for (ch, c) in &e.conns {
            ran.w.mon.cnt.inc("c09.isolation_checks");
            if c.app.lost_count > 0 {
                let peer_closed = ran.w.mon.closed_pairs.contains(&c.pair);
                // (a Retry token moved by a rebinding; and the error RFC 9000 5.1.2 allows an
                // endpoint to raise when its peer rotates CIDs faster than RETIRE_CONNECTION_ID
                // frames can be delivered - rotation every few tens of ms under loss does that)
                let tolerated = (c.app.lost.iter().all(|l| l.contains("INVALID_TOKEN")) && ran.w.mon.rebinds > 0)
                    || (h.cid_lifetime_ms.map_or(false, |l| l < 100) && c.app.lost.iter().all(|l| l.contains("queued too many retired CIDs") || l.contains("CONNECTION_ID_LIMIT_ERROR")));
                if !peer_closed && c.local_close_at.is_none() && !tolerated {
                    msgs.push(format!("conn {ei}/{ch} (pair {:x}) lost {:?} although neither side closed it and idle timeouts are off | {}", c.pair, c.app.lost, h.summary()));
                }
            }
        }
    }
    if ran.end == RunEnd::Quiescent && !ran.w.workload_complete() && msgs.is_empty() {
        // untouched connections must also complete
        let pending: Vec<String> = ran
            .w
            .led
            .flows
            .iter()
            .filter(|(key, f)| f.must_complete() && !f.complete() && !ran.w.mon.closed_pairs.contains(&key.0) && !ran.w.eps.iter().any(|e| e.conns.values().any(|c| c.pair == key.0 && c.app.lost_count > 0)))
            .map(|(key, _)| format!("{key:?}"))
            .collect();
        if !pending.is_empty() {
            msgs.push(format!("world quiescent but flows of untouched connections are incomplete: {pending:?} | {}", h.summary()));
        }
    }
    for m in msgs {
        ran.w.mon.violate("C09", m);
    }
    let mut out = base_out(&h, &mut ran, trace);
    out.nontrivial = out.cnt.get("c09.routing_checks") > 0 && out.cnt.get("conn.created") >= 4;
    if let Some(s) = &mut out.sample {
        s["clients"] = json!(k.n_clients);
        s["extra_connects"] = json!(n_extra);
        s["cid_gen"] = json!(format!("{:?}", h.cid_gen));
    }
    out
}

pub fn run(ctx: &Ctx) -> i32 {
    let t = Instant::now();
    let mut rep = Report::default();
    let g = Group { name: "multi-null", cases: ctx.tier.pick(300, 20_000), budget_s: ctx.tier.pick(50.0, 600.0), exhaustive: false };
    run_group(ctx, &mut rep, &g, |_, seed, trace| case(seed, Lane::Null, trace, 0));
    let g = Group { name: "stale-cid", cases: ctx.tier.pick(500, 20_000), budget_s: ctx.tier.pick(25.0, 300.0), exhaustive: false };
    run_group(ctx, &mut rep, &g, |_, seed, trace| case(seed, Lane::Null, trace, 1));
    let g = Group { name: "short-cid", cases: ctx.tier.pick(400, 20_000), budget_s: ctx.tier.pick(15.0, 200.0), exhaustive: false };
    run_group(ctx, &mut rep, &g, |_, seed, trace| case(seed, Lane::Null, trace, 2));
    finish(
        ctx,
        &rep,
        Finish {
            level: "exploration",
            rule: "seeded worlds with 2-8 client endpoints on one server endpoint plus up to 5 further connections started later from the same client endpoints (several handles per endpoint, slab slots reused after drains), CID lengths 0..20 with the harness / Random / Hashed generators, CID lifetimes 30 ms - 2 s forcing rotation, rebinding clients (remote CID switches and retirements), single connections closed mid-run, loss/dup/reorder/corruption. Oracles: every genuine datagram produced by connection X that an endpoint routes to a connection must be routed to X's own peer (pair id carried in the client-chosen initial DCID and recovered from Incoming::orig_dst_cid), never to another live handle; payloads are keyed by pair so any cross-connection byte trips the C01/C16 oracles; connections nobody closed are never lost and complete. (short-cid) the same with one- and two-byte CIDs drawn from a small pseudo-random space on every endpoint, 4-11 further connections and rotation, over a strictly FIFO network without duplicates, so that generated CIDs constantly collide with CIDs other live connections still use. (retired tokens, all groups) at the end every reset token a connection was given for CIDs it has itself announced as retired, and every token of drained connections, is offered as a stateless reset from the right address: none may reach a forgotten handle or end a live connection. Non-trivial = at least four connections and one routing check.".into(),
            assumptions: vec!["pairing is established by the harness-chosen initial destination CID".into()],
            min_evals: ctx.tier.pick(60, 2000),
            min_nontrivial: ctx.tier.pick(40, 1000),
            required: vec!["c09.routing_checks", "c09.isolation_checks", "op.connect", "op.close_one", "c01.bytes", "op.rebind"],
            exhaustive: false,
        },
        t.elapsed().as_secs_f64(),
    )
}
