//! C14 — validation tokens and Retry cannot be forged, moved or replayed.
//!
//!  * token-present: genuine tokens (NEW_TOKEN and Retry) are captured through a recording
//!    `TokenStore` / from the wire, then presented - untouched, mutated, from other addresses,
//!    at other (virtual) times, for the second time - by a fresh client connection; what the
//!    server concludes is read from `Incoming::remote_address_validated()` and from the close
//!    code the client sees, and compared with a reference predicate.
//!  * retry-integrity: Retry packets are corrupted in flight (any single field): the client never
//!    follows one, and follows a genuine one exactly once.
//!  * retry-late: a Retry that verifies (forged with the plaintext lane's tag function) arrives
//!    after the client has processed another server packet: ignored.
//!  * cid-echo: the server's connection-ID transport parameters are altered one at a time: the
//!    client never reports the connection as established.
//!  * bloom-log / token-cache: long random histories against `BloomTokenLog` and
//!    `TokenMemoryCache` with reference sets (no reuse accepted, nothing handed out twice).

use std::{
    collections::{BTreeMap, BTreeSet},
    sync::{Arc, Mutex},
    time::{Duration, Instant, SystemTime, UNIX_EPOCH},
};

use bytes::Bytes;
use proto::{TokenLog, TokenStore};
use serde_json::json;

use super::{common::leak_prefixed, finish, fingerprint, run_group, CaseOut, Ctx, Finish, Group, Report};
use crate::{
    app::{AppCfg, Violation},
    cfg::TcfgP,
    util::Rng,
    wire::{self, put_var, PType},
    world::{addr_of, DriverCfg, EpSpec, IncomingPolicy, Lane, NetCfg, ServerSpec, World},
};

#[derive(Default)]
struct Store {
    inserted: Mutex<Vec<Bytes>>,
    next: Mutex<Option<Bytes>>,
    takes: Mutex<u64>,
}

impl TokenStore for Store {
    fn insert(&self, _server_name: &str, token: Bytes) {
        self.inserted.lock().unwrap().push(token);
    }
    fn take(&self, _server_name: &str) -> Option<Bytes> {
        *self.takes.lock().unwrap() += 1;
        self.next.lock().unwrap().take()
    }
}

fn quiet() -> TcfgP {
    let mut t = TcfgP::default();
    t.idle_ms = Some(20_000);
    t.mtud = None;
    t.initial_rtt_ms = 20;
    t
}

fn settle(w: &mut World, rounds: usize) {
    let saved = w.max_jump_ns;
    w.max_jump_ns = 3_000_000_000;
    for _ in 0..rounds {
        w.flush_now();
        if !w.step() {
            break;
        }
        let busy = !w.net.q.is_empty() || w.eps.iter().any(|e| e.conns.values().any(|c| !c.c.is_drained() && c.c.poll_timeout().map_or(false, |t| w.rel(t) <= w.now + 1_000_000_000)));
        if !busy {
            break;
        }
    }
    w.max_jump_ns = saved;
}

/// Close every connection and run until all of them are gone.
fn close_all(w: &mut World) {
    w.apply_op(crate::world::Op::CloseAll { code: 0 });
    let saved = w.max_jump_ns;
    w.max_jump_ns = 60_000_000_000;
    for _ in 0..400 {
        if w.eps.iter().all(|e| e.conns.values().all(|c| c.c.is_drained())) {
            break;
        }
        if !w.step() {
            break;
        }
    }
    w.max_jump_ns = saved;
}

#[derive(Debug, Clone, Copy, PartialEq)]
enum TokKind {
    Validation,
    ValidationReused,
    Retry,
}

#[derive(Debug, Clone, Copy, PartialEq)]
enum Mutation {
    None,
    Flip,
    Truncate,
    Extend,
    Splice,
    Random,
    /// a genuine token of another server (different key)
    Foreign,
}

#[derive(Debug, Clone, Copy, PartialEq)]
enum From {
    Same,
    OtherPort,
    OtherIp,
}

fn present_case(seed: u64, trace: bool) -> CaseOut {
    let mut r = Rng::new(seed ^ 0xC14A);
    let mut out = CaseOut::default();
    let kind = *r.pick(&[TokKind::Validation, TokKind::Validation, TokKind::ValidationReused, TokKind::Retry, TokKind::Retry]);
    let mutation = *r.pick(&[Mutation::None, Mutation::None, Mutation::None, Mutation::Flip, Mutation::Flip, Mutation::Truncate, Mutation::Extend, Mutation::Splice, Mutation::Random, Mutation::Foreign]);
    let from = *r.pick(&[From::Same, From::Same, From::OtherPort, From::OtherIp]);
    let ring_key = r.chance(50);
    let token_log = *r.pick(&[0u8, 0, 1, 2]);
    let token_life_s = *r.pick(&[10u64, 60, 3600, 14 * 24 * 3600]);
    let retry_life_s = *r.pick(&[3u64, 15, 60]);
    let life = if kind == TokKind::Retry { retry_life_s } else { token_life_s };
    // time of presentation relative to issue: clearly inside, clearly outside, or at the edge
    let (delta_s, timing) = match r.below(6) {
        0 | 1 => (0, "fresh"),
        2 => (life.saturating_sub(3).max(0), "late-but-valid"),
        3 => (life + 3, "expired"),
        4 => (life * 3 + 100, "long-expired"),
        _ => (life, "edge"),
    };

    let mk_world = |s: u64| -> World {
        let mut srv = ServerSpec::default();
        srv.tcfg = quiet();
        srv.tokens_sent = 2;
        srv.policy = if kind == TokKind::Retry { IncomingPolicy::RetryFirst } else { IncomingPolicy::Accept };
        srv.retry_lifetime_ms = retry_life_s * 1000;
        srv.token_lifetime_ms = Some(token_life_s * 1000);
        srv.token_log = token_log;
        srv.ring_token_key = ring_key;
        srv.app = AppCfg::default();
        let specs = vec![EpSpec::new(0, Some(srv)), EpSpec::new(1, None)];
        let mut net = NetCfg::default();
        net.latency_ns = 2_000_000;
        let mut w = World::new(s, Lane::Null, specs, net, DriverCfg::default());
        w.mon.honest = false;
        w.mon.enable_c07 = false;
        w
    };
    let mut w = mk_world(seed);
    if trace {
        w.trace = Some(vec![]);
    }
    let store = Arc::new(Store::default());
    w.eps[1].token_store = Some(store.clone());
    // ---- phase A: obtain genuine tokens
    if w.connect(1, 0, quiet(), AppCfg::default()).is_err() {
        out.inconclusive = Some("connect failed".into());
        return out;
    }
    settle(&mut w, 600);
    let issue_ns = w.now;
    let cid_len = w.eps[0].spec.cid_len;
    let retry_token: Option<Vec<u8>> = w.recent.iter().filter(|d| d.dst == w.eps[0].addr).filter_map(|d| wire::parse_packet(&d.data, cid_len).ok()).find(|p| p.ty == PType::Initial && !p.token.is_empty()).map(|p| p.token);
    let new_tokens: Vec<Bytes> = store.inserted.lock().unwrap().clone();
    close_all(&mut w);
    let genuine: Vec<u8> = match kind {
        TokKind::Retry => match retry_token {
            Some(t) => t,
            None => {
                out.inconclusive = Some("no Retry token seen on the wire".into());
                return out;
            }
        },
        _ => match new_tokens.first() {
            Some(t) => t.to_vec(),
            None => {
                out.inconclusive = Some("server issued no NEW_TOKEN token".into());
                return out;
            }
        },
    };
    out.cnt.inc("c14.genuine_tokens_captured");
    // ---- the token to present
    let mut tok = genuine.clone();
    match mutation {
        Mutation::None => {}
        Mutation::Flip => {
            for _ in 0..1 + r.below(2) {
                let i = r.usize(tok.len());
                tok[i] ^= 1 << r.below(8);
            }
        }
        Mutation::Truncate => {
            let k = r.usize(tok.len());
            tok.truncate(k);
            if tok.is_empty() {
                tok.push(0);
            }
        }
        Mutation::Extend => {
            let n = 1 + r.usize(20);
            tok.extend(r.bytes(n));
        }
        Mutation::Splice => {
            // head of one genuine token, tail (nonce) of another
            let other = new_tokens.get(1).map(|b| b.to_vec()).unwrap_or_else(|| genuine.iter().rev().cloned().collect());
            let cut = 1 + r.usize(tok.len().saturating_sub(1).max(1));
            let mut t2 = tok[..cut.min(tok.len())].to_vec();
            t2.extend_from_slice(&other[cut.min(other.len())..]);
            tok = t2;
        }
        Mutation::Random => {
            let n = tok.len();
            tok = r.bytes(n);
        }
        Mutation::Foreign => {
            // same construction, another server's key
            let mut w2 = mk_world(seed ^ 0xF0F0_F0F0);
            let st2 = Arc::new(Store::default());
            w2.eps[1].token_store = Some(st2.clone());
            let _ = w2.connect(1, 0, quiet(), AppCfg::default());
            settle(&mut w2, 600);
            let t = if kind == TokKind::Retry {
                w2.recent.iter().filter(|d| d.dst == w2.eps[0].addr).filter_map(|d| wire::parse_packet(&d.data, cid_len).ok()).find(|p| p.ty == PType::Initial && !p.token.is_empty()).map(|p| p.token)
            } else {
                st2.inserted.lock().unwrap().first().map(|b| b.to_vec())
            };
            match t {
                Some(t) => tok = t,
                None => {
                    out.inconclusive = Some("no foreign token".into());
                    return out;
                }
            }
        }
    }
    if tok == genuine && mutation != Mutation::None {
        out.inconclusive = Some("mutation cancelled itself".into());
        return out;
    }
    if mutation != Mutation::None && new_tokens.iter().any(|t| t[..] == tok[..]) {
        // (a splice whose head happens to agree with the other token's head *is* that other token)
        out.inconclusive = Some("the mutation produced another genuine token".into());
        return out;
    }
    // ---- phase B: present it
    match from {
        From::Same => {}
        From::OtherPort => {
            let a = addr_of(1, 7);
            w.eps[1].addrs.push(a);
            w.eps[1].addr = a;
        }
        From::OtherIp => {
            let a = addr_of(1, 0x300);
            w.eps[1].addrs.push(a);
            w.eps[1].addr = a;
        }
    }
    w.now = issue_ns + delta_s * 1_000_000_000;
    let mut presentations = 1;
    if kind == TokKind::ValidationReused {
        presentations = 2;
    }
    let mut verdicts: Vec<(Option<bool>, Vec<String>, bool)> = vec![];
    for _ in 0..presentations {
        *store.next.lock().unwrap() = Some(Bytes::from(tok.clone()));
        let before = w.mon.incoming_log.len();
        let Ok(ch) = w.connect(1, 0, quiet(), AppCfg::default()) else {
            out.inconclusive = Some("connect failed".into());
            return out;
        };
        settle(&mut w, 600);
        // the first Incoming of this attempt shows what the token achieved (a later one, after a
        // Retry round trip, carries the Retry token instead)
        let inc = w.mon.incoming_log[before..].iter().find(|(ei, ..)| *ei == 0).map(|x| x.2);
        let c = &w.eps[1].conns[&ch];
        verdicts.push((inc, c.app.lost.clone(), c.app.connected));
        // the presented token went out on the wire?
        let sent = w.recent.iter().any(|d| d.dst == w.eps[0].addr && wire::parse_packet(&d.data, cid_len).map_or(false, |p| p.ty == PType::Initial && p.token == tok));
        if !sent {
            out.inconclusive = Some("the client did not present the token".into());
            return out;
        }
        close_all(&mut w);
    }
    out.cnt.inc("c14.presentations");
    let (inc, lost, connected) = verdicts.last().unwrap().clone();
    let first_ok = verdicts.first().unwrap().0;
    // ---- reference predicate
    let intact = mutation == Mutation::None;
    let in_time = timing == "fresh" || timing == "late-but-valid";
    let out_of_time = timing == "expired" || timing == "long-expired";
    let mut viol = vec![];
    let desc = format!("kind={kind:?} mutation={mutation:?} from={from:?} timing={timing}(+{delta_s}s of {life}s) log={token_log} key={} token_len={}", if ring_key { "ring" } else { "keyed-hash" }, tok.len());
    match kind {
        TokKind::Validation | TokKind::ValidationReused => {
            let addr_ok = from != From::OtherIp;
            let should_validate = intact && addr_ok && in_time && token_log != 2 && kind == TokKind::Validation;
            let must_not = !intact || !addr_ok || out_of_time || token_log == 2 || kind == TokKind::ValidationReused;
            match inc {
                None => viol.push(format!("no Incoming was produced for an Initial carrying a NEW_TOKEN-style token (client lost: {lost:?})")),
                Some(v) => {
                    if must_not && v {
                        viol.push("the server treated the address as validated by this token".to_string());
                    } else if should_validate && !v && token_log == 0 {
                        viol.push("a genuine, fresh, first-use token from the right address did not validate the address".to_string());
                    }
                    if v {
                        out.cnt.inc("c14.validated_by_token");
                    } else {
                        out.cnt.inc("c14.not_validated");
                    }
                }
            }
            if kind == TokKind::ValidationReused && intact && addr_ok && in_time && token_log == 0 && first_ok != Some(true) {
                viol.push("first use of a genuine token did not validate (before the reuse attempt)".into());
            }
            // an unusable token is treated as absent: the attempt itself must go through
            if !connected || !lost.is_empty() {
                viol.push(format!("the connection attempt failed ({lost:?}); an unusable NEW_TOKEN token must be treated as absent"));
            }
        }
        TokKind::Retry => {
            let addr_ok = from == From::Same;
            if !intact {
                // undecodable: as if absent -> the server retries, the handshake completes
                match inc {
                    Some(false) => out.cnt.inc("c14.not_validated"),
                    Some(true) => viol.push("the server treated the address as validated by an altered Retry token".into()),
                    None => viol.push(format!("an altered (undecodable) Retry token ended the attempt: {lost:?}")),
                }
                if mutation != Mutation::Foreign && (!connected || !lost.is_empty()) {
                    viol.push(format!("the connection attempt failed ({lost:?}); an undecodable token must be treated as absent"));
                }
            } else if !addr_ok || out_of_time {
                // genuine but misplaced or stale: INVALID_TOKEN
                out.cnt.inc("c14.invalid_token_expected");
                if inc.is_some() {
                    viol.push(format!("a stale or misplaced Retry token produced an Incoming (validated={inc:?}) instead of INVALID_TOKEN"));
                } else if !(lost.len() == 1 && lost[0].contains("INVALID_TOKEN")) {
                    viol.push(format!("a stale or misplaced Retry token should end the attempt with INVALID_TOKEN; the client saw {lost:?}"));
                } else {
                    out.cnt.inc("c14.invalid_token_seen");
                }
            } else if in_time {
                // replayed from the very address it was issued to, in time: the address is
                // validated; the handshake then fails on the client's CID checks (other group)
                match inc {
                    Some(true) => out.cnt.inc("c14.validated_by_token"),
                    other => viol.push(format!("a genuine Retry token from its own address within its lifetime gave {other:?} (client: {lost:?})")),
                }
                if connected {
                    viol.push("a connection whose server echoed another connection's original destination CID was reported as established".into());
                }
            }
        }
    }
    for m in viol {
        out.viol.push(Violation { prop: "C14", msg: format!("{m} | {desc}") });
    }
    out.nontrivial = true;
    out.cnt.inc(leak_prefixed("c14.kind.", &format!("{kind:?}/{mutation:?}/{from:?}/{timing}")));
    out.fp = fingerprint(&[&desc], &[seed % 64]);
    out.sample = Some(json!({ "case": desc, "incoming_validated": inc, "client_lost": lost }));
    if trace {
        out.trace = w.trace.take();
    }
    out
}

// ---------------------------------------------------------------------------------------------
// Retry integrity on the client
// ---------------------------------------------------------------------------------------------

fn client_tokens_on_wire(w: &World) -> Vec<Vec<u8>> {
    let cid_len = w.eps[0].spec.cid_len;
    let mut v: Vec<Vec<u8>> = vec![];
    for d in &w.recent {
        if d.dst != w.eps[0].addr {
            continue;
        }
        if let Ok(p) = wire::parse_packet(&d.data, cid_len) {
            if p.ty == PType::Initial && !p.token.is_empty() && !v.contains(&p.token) {
                v.push(p.token);
            }
        }
    }
    v
}

fn retry_case(seed: u64, lane: Lane, trace: bool) -> CaseOut {
    let mut r = Rng::new(seed ^ 0xC14B);
    let mut out = CaseOut::default();
    let kind = r.below(8) as u8;
    let upto = *r.pick(&[0u32, 1, 2, 1000]);
    let mut srv = ServerSpec::default();
    srv.tcfg = quiet();
    srv.policy = IncomingPolicy::RetryFirst;
    srv.tokens_sent = 0;
    let mut e0 = EpSpec::new(0, Some(srv));
    e0.cid_len = *r.pick(&[4, 8, 20]);
    let mut e1 = EpSpec::new(1, None);
    e1.cid_len = *r.pick(&[0, 8, 20]);
    let mut net = NetCfg::default();
    net.latency_ns = 2_000_000;
    net.dup_pm = *r.pick(&[0, 300, 600]);
    net.reorder_pm = *r.pick(&[0, 300]);
    net.retry_mutation = Some((kind, upto));
    let mut w = World::new(seed, lane, vec![e0, e1], net, DriverCfg::default());
    w.mon.honest = false;
    if trace {
        w.trace = Some(vec![]);
    }
    let mut t = quiet();
    t.idle_ms = Some(5_000);
    let Ok(ch) = w.connect(1, 0, t, AppCfg::default()) else {
        out.inconclusive = Some("connect failed".into());
        return out;
    };
    // keep every datagram for the wire census
    let _ = w.run(4000, 30_000_000_000, |w| w.all_connected() && w.steps > 50);
    out.cnt.inc("c14.retry_cases");
    out.cnt.add("c14.retry_packets_mutated", w.net.fired.get("retry_mutated"));
    out.cnt.add("c14.retry_packets_genuine", w.net.fired.get("retry_genuine"));
    let toks = client_tokens_on_wire(&w);
    let c = &w.eps[1].conns[&ch];
    let mut viol = vec![];
    let genuine_seen = w.net.fired.get("retry_genuine") > 0;
    if toks.len() > 1 {
        viol.push(format!("the client followed Retry more than once: {} different tokens in its Initials", toks.len()));
    }
    if !genuine_seen && !toks.is_empty() {
        viol.push("the client followed a Retry packet although every Retry it received was altered".into());
    }
    if !genuine_seen && c.app.connected {
        viol.push("the handshake completed although the server insists on Retry and no genuine Retry packet was delivered".into());
    }
    if genuine_seen {
        if toks.len() == 1 {
            out.cnt.inc("c14.genuine_retry_followed_once");
        }
        if !c.app.connected && c.app.lost.is_empty() {
            out.inconclusive = Some("handshake neither completed nor failed".into());
        } else if !c.app.connected {
            viol.push(format!("altered Retry packets broke a handshake that later received a genuine Retry: {:?}", c.app.lost));
        }
    } else {
        out.cnt.inc("c14.all_retries_altered");
        // the only acceptable ending is the client's own timeout
        if let Some(l) = c.app.lost.first() {
            if l != "TimedOut" {
                viol.push(format!("altered Retry packets ended the attempt with {l}"));
            }
        }
    }
    let desc = format!("lane={lane:?} field={kind} altered_first={upto} dup={} cid_len={}/{}", w.netcfg.dup_pm, w.eps[0].spec.cid_len, w.eps[1].spec.cid_len);
    for m in viol {
        out.viol.push(Violation { prop: "C14", msg: format!("{m} | {desc}") });
    }
    out.nontrivial = w.net.fired.get("retry_mutated") + w.net.fired.get("retry_genuine") > 0;
    out.fp = fingerprint(&[&desc], &[seed % 256]);
    if trace {
        out.trace = w.trace.take();
    }
    out
}

/// A Retry that verifies, arriving after the client has already processed a server packet (or
/// after it already followed one): must be ignored.
fn retry_late_case(seed: u64, trace: bool) -> CaseOut {
    let mut r = Rng::new(seed ^ 0xC14C);
    let mut out = CaseOut::default();
    let first_retry = r.bool(); // whether the genuine exchange itself starts with a Retry
    let mut srv = ServerSpec::default();
    srv.tcfg = quiet();
    srv.policy = if first_retry { IncomingPolicy::RetryFirst } else { IncomingPolicy::Accept };
    srv.tokens_sent = 0;
    let mut e0 = EpSpec::new(0, Some(srv));
    e0.cid_len = 8;
    let mut e1 = EpSpec::new(1, None);
    e1.cid_len = 8;
    let mut net = NetCfg::default();
    net.latency_ns = 5_000_000;
    let mut w = World::new(seed, Lane::Null, vec![e0, e1], net, DriverCfg::default());
    w.mon.honest = false;
    if trace {
        w.trace = Some(vec![]);
    }
    let mut app = AppCfg::default();
    app.plans.push(crate::app::StreamPlan { bidi: false, len: 5000, chunk: 1000, use_write_chunks: false, end: crate::app::EndMode::Finish, prio: 0 });
    let Ok(ch) = w.connect(1, 0, quiet(), app) else {
        out.inconclusive = Some("connect failed".into());
        return out;
    };
    // inject the forged Retry after a random number of steps (so that it lands before / while /
    // after the server's first flight is processed)
    let wait = *r.pick(&[1u64, 1, 2, 3, 5, 8, 12, 20, 40]);
    let _ = w.run(wait, 10_000_000_000, |_| false);
    let cli = &w.eps[1].conns[&ch];
    let authed_before = cli.c.verif_probe().authed_packets;
    // build a Retry that verifies for the client's *current* view: its original destination CID
    // (or, once it followed a genuine Retry, the CID that Retry gave it)
    let client_initials: Vec<wire::Pkt> = w.recent.iter().filter(|d| d.dst == w.eps[0].addr).filter_map(|d| wire::parse_packet(&d.data, 8).ok()).filter(|p| p.ty == PType::Initial).collect();
    let Some(last) = client_initials.last() else {
        out.inconclusive = Some("no client Initial seen".into());
        return out;
    };
    let odcid = last.dcid.clone(); // the DCID the client currently uses in Initials
    let mut pkt = vec![0xf0 | (r.below(16) as u8)];
    pkt.extend_from_slice(&1u32.to_be_bytes());
    pkt.push(last.scid.len() as u8);
    pkt.extend_from_slice(&last.scid);
    let new_scid = r.bytes(8);
    pkt.push(8);
    pkt.extend_from_slice(&new_scid);
    let forged_token = b"forged-retry-token".to_vec();
    pkt.extend_from_slice(&forged_token);
    let tag = crate::nullcrypto::retry_tag(&proto::ConnectionId::new(&odcid), &pkt);
    pkt.extend_from_slice(&tag);
    let (src, dst) = (w.eps[0].addr, w.eps[1].addr);
    let at = w.now + 1_000_000;
    w.inject(at, src, dst, None, pkt, 0, true);
    let _ = w.run(6000, 60_000_000_000, |w| w.all_connected() && w.workload_complete());
    out.cnt.inc("c14.late_retry_cases");
    let toks = client_tokens_on_wire(&w);
    let followed = toks.contains(&forged_token);
    let c = &w.eps[1].conns[&ch];
    let mut viol = vec![];
    let may_follow = authed_before == 0 && !(first_retry && !toks.is_empty() && toks[0] != forged_token);
    if followed {
        out.cnt.inc("c14.late_retry_followed");
        if authed_before > 0 {
            viol.push(format!("the client followed a Retry although it had already processed {authed_before} authenticated server packet(s)"));
        }
        if toks.len() > 1 {
            viol.push("the client followed a second Retry".into());
        }
    } else {
        out.cnt.inc("c14.late_retry_ignored");
        if !c.app.connected || !w.workload_complete() {
            if !c.app.lost.is_empty() || !c.app.connected {
                viol.push(format!("a connection that ignored a late Retry did not carry on (connected={} lost={:?})", c.app.connected, c.app.lost));
            }
        }
    }
    let _ = may_follow;
    let desc = format!("first_retry={first_retry} wait_steps={wait} authed_before={authed_before} tokens_on_wire={}", toks.len());
    for m in viol {
        out.viol.push(Violation { prop: "C14", msg: format!("{m} | {desc}") });
    }
    out.nontrivial = true;
    out.fp = fingerprint(&[&desc], &[seed % 64]);
    if trace {
        out.trace = w.trace.take();
    }
    out
}

// ---------------------------------------------------------------------------------------------
// CID echo in the server's transport parameters
// ---------------------------------------------------------------------------------------------

fn cid_echo_case(seed: u64, trace: bool) -> CaseOut {
    let mut r = Rng::new(seed ^ 0xC14D);
    let mut out = CaseOut::default();
    let with_retry = r.bool();
    let mut srv = ServerSpec::default();
    srv.tcfg = quiet();
    srv.policy = if with_retry { IncomingPolicy::RetryFirst } else { IncomingPolicy::Accept };
    let mut e0 = EpSpec::new(0, Some(srv));
    e0.cid_len = *r.pick(&[4, 8, 20]);
    let mut net = NetCfg::default();
    net.latency_ns = 2_000_000;
    let mut w = World::new(seed, Lane::Null, vec![e0, EpSpec::new(1, None)], net, DriverCfg::default());
    w.mon.honest = false;
    if trace {
        w.trace = Some(vec![]);
    }
    // which parameter, how
    let id = *r.pick(&[0x00u64, 0x0f, 0x10]);
    let how = r.below(5);
    let mseed = r.u64();
    let applied = Arc::new(Mutex::new(String::new()));
    let a2 = applied.clone();
    *w.eps[0].null_shared.rewrite.lock().unwrap() = Some(Arc::new(move |_side, genuine: Vec<u8>| {
        let mut rr = Rng::new(mseed);
        // parse TLVs
        let mut rd = wire::Rd::new(&genuine);
        let mut t: Vec<(u64, Vec<u8>)> = vec![];
        while rd.left() > 0 {
            let (Ok(i), Ok(l)) = (rd.var(), rd.var()) else { break };
            let Ok(v) = rd.take(l as usize) else { break };
            t.push((i, v.to_vec()));
        }
        let pos = t.iter().position(|e| e.0 == id);
        let what = match (pos, how) {
            (Some(p), 0) => {
                if t[p].1.is_empty() {
                    t[p].1.push(1);
                } else {
                    let i = rr.usize(t[p].1.len());
                    t[p].1[i] ^= 1 << rr.below(8);
                }
                "bit flipped"
            }
            (Some(p), 1) => {
                t.remove(p);
                "removed"
            }
            (Some(p), 2) => {
                t[p].1.push(7);
                "extended"
            }
            (Some(p), 3) => {
                if t[p].1.is_empty() {
                    t[p].1.push(1);
                } else {
                    t[p].1.pop();
                }
                "shortened"
            }
            (Some(p), _) => {
                // swap with another CID parameter's value
                let other = t.iter().position(|e| e.0 != id && matches!(e.0, 0x00 | 0x0f | 0x10));
                if let Some(o) = other {
                    if t[o].1 != t[p].1 {
                        let v = t[o].1.clone();
                        t[p].1 = v;
                        "replaced by another CID"
                    } else {
                        t[p].1.push(9);
                        "extended"
                    }
                } else {
                    t[p].1.push(9);
                    "extended"
                }
            }
            (None, _) => {
                // parameter absent in a genuine encoding (retry_source_connection_id without
                // Retry): add a spurious one
                t.push((id, rr.bytes(8)));
                "spuriously added"
            }
        };
        *a2.lock().unwrap() = what.to_string();
        let mut o = vec![];
        for (i, v) in &t {
            put_var(&mut o, *i);
            put_var(&mut o, v.len() as u64);
            o.extend_from_slice(v);
        }
        o
    }));
    let Ok(ch) = w.connect(1, 0, quiet(), AppCfg::default()) else {
        out.inconclusive = Some("connect failed".into());
        return out;
    };
    settle(&mut w, 800);
    out.cnt.inc("c14.cid_echo_cases");
    let c = &w.eps[1].conns[&ch];
    let what = applied.lock().unwrap().clone();
    let mut viol = vec![];
    if c.app.connected {
        viol.push("the client reported the connection as established".to_string());
    } else if let Some(l) = c.app.lost.first() {
        if l.contains("TRANSPORT_PARAMETER_ERROR") || l.contains("PROTOCOL_VIOLATION") {
            out.cnt.inc("c14.cid_echo_rejected");
        } else {
            viol.push(format!("the client ended the attempt with {l}; TRANSPORT_PARAMETER_ERROR is prescribed"));
        }
    } else {
        out.inconclusive = Some("the handshake neither completed nor failed".into());
    }
    let desc = format!("parameter={id:#x} {what} retry={with_retry} server_cid_len={}", w.eps[0].spec.cid_len);
    for m in viol {
        out.viol.push(Violation { prop: "C14", msg: format!("{m} | {desc}") });
    }
    out.nontrivial = !what.is_empty();
    out.fp = fingerprint(&[&desc], &[seed % 16]);
    if trace {
        out.trace = w.trace.take();
    }
    out
}

// ---------------------------------------------------------------------------------------------
// data-structure histories
// ---------------------------------------------------------------------------------------------

fn bloom_case(seed: u64, ops: u64) -> CaseOut {
    let mut r = Rng::new(seed ^ 0xC14E);
    let mut out = CaseOut::default();
    let max_bytes = *r.pick(&[16usize, 64, 1024, 65536, 10 << 20]);
    let log: Box<dyn TokenLog> = if r.chance(15) { Box::new(proto::BloomTokenLog::default()) } else if r.bool() { Box::new(proto::BloomTokenLog::new_expected_items(max_bytes, *r.pick(&[1u64, 16, 1000, 1_000_000]))) } else { Box::new(proto::BloomTokenLog::new(max_bytes, 1 + r.below(8) as u32)) };
    let lifetime = Duration::from_secs(*r.pick(&[1u64, 7, 60, 3600, 14 * 24 * 3600]));
    let base = UNIX_EPOCH + Duration::from_secs(1_700_000_000);
    let mut now = base;
    // tokens issued so far and not yet expired: (nonce, issued, accepted before)
    let mut pool: Vec<(u128, SystemTime, bool)> = vec![];
    let mut accepted: BTreeSet<u128> = BTreeSet::new();
    let mut fresh_ok = 0u64;
    let mut fresh_err = 0u64;
    let mut viol = vec![];
    for step in 0..ops {
        // time moves on: mostly a little, sometimes by whole lifetimes
        let adv = match r.below(20) {
            0 => lifetime.as_secs() * (1 + r.below(4)),
            1 => lifetime.as_secs() / 2,
            2..=8 => r.below(lifetime.as_secs().max(2) / 2 + 1),
            _ => 0,
        };
        now += Duration::from_secs(adv) + Duration::from_millis(r.below(1000));
        // issue a few tokens
        for _ in 0..r.below(3) {
            let nonce = ((r.u64() as u128) << 64) | r.u64() as u128;
            pool.push((nonce, now, false));
        }
        pool.retain(|(_, issued, _)| *issued + lifetime >= now);
        if pool.is_empty() {
            continue;
        }
        // a client presents one of the unexpired tokens (quinn only consults the log for those)
        let i = r.usize(pool.len());
        let (nonce, issued, _) = pool[i];
        // tokens are encoded with whole seconds
        let issued_s = UNIX_EPOCH + Duration::from_secs(issued.duration_since(UNIX_EPOCH).unwrap().as_secs());
        let res = log.check_and_insert(nonce, issued_s, lifetime);
        out.cnt.inc("c14.bloom_ops");
        match (accepted.contains(&nonce), res.is_ok()) {
            (true, true) => {
                viol.push(format!("step {step}: a token accepted before was accepted again (lifetime {lifetime:?}, age {:?}, max_bytes {max_bytes})", now.duration_since(issued).unwrap()));
                break;
            }
            (true, false) => out.cnt.inc("c14.bloom_reuse_rejected"),
            (false, true) => {
                accepted.insert(nonce);
                pool[i].2 = true;
                fresh_ok += 1;
            }
            (false, false) => fresh_err += 1,
        }
    }
    out.cnt.add("c14.bloom_fresh_accepted", fresh_ok);
    out.cnt.add("c14.bloom_fresh_rejected", fresh_err);
    for m in viol {
        out.viol.push(Violation { prop: "C14", msg: format!("BloomTokenLog: {m}") });
    }
    out.nontrivial = out.cnt.get("c14.bloom_reuse_rejected") > 0;
    out.fp = fingerprint(&["bloom"], &[seed]);
    out
}

fn cache_case(seed: u64, ops: u64) -> CaseOut {
    let mut r = Rng::new(seed ^ 0xC14F);
    let mut out = CaseOut::default();
    let max_names = *r.pick(&[1u32, 2, 3, 8, 256]);
    let per = *r.pick(&[1usize, 2, 3, 10]);
    let cache: Box<dyn TokenStore> = if r.chance(10) { Box::new(proto::TokenMemoryCache::default()) } else { Box::new(proto::TokenMemoryCache::new(max_names, per)) };
    let names: Vec<String> = (0..1 + r.usize(12)).map(|i| format!("server{i}.example")).collect();
    // model: per name the tokens inserted and not yet handed out
    let mut held: BTreeMap<String, Vec<u64>> = BTreeMap::new();
    let mut handed: BTreeSet<u64> = BTreeSet::new();
    let mut next_id = 0u64;
    let mut viol = vec![];
    for step in 0..ops {
        let name = r.pick(&names).clone();
        if r.chance(55) {
            next_id += 1;
            let mut tok = next_id.to_le_bytes().to_vec();
            let n = r.usize(40);
            tok.extend(r.bytes(n));
            cache.insert(&name, Bytes::from(tok));
            held.entry(name).or_default().push(next_id);
            out.cnt.inc("c14.cache_inserts");
        } else {
            out.cnt.inc("c14.cache_takes");
            match cache.take(&name) {
                None => out.cnt.inc("c14.cache_take_none"),
                Some(t) => {
                    let id = u64::from_le_bytes(t[..8].try_into().unwrap());
                    out.cnt.inc("c14.cache_take_some");
                    if handed.contains(&id) {
                        viol.push(format!("step {step}: token {id} was handed out twice"));
                        break;
                    }
                    let h = held.entry(name.clone()).or_default();
                    if let Some(p) = h.iter().position(|x| *x == id) {
                        h.remove(p);
                    } else {
                        viol.push(format!("step {step}: take({name}) returned token {id}, which was not stored for that server"));
                        break;
                    }
                    handed.insert(id);
                }
            }
        }
    }
    for m in viol {
        out.viol.push(Violation { prop: "C14", msg: format!("TokenMemoryCache(names {max_names}, per server {per}): {m}") });
    }
    out.nontrivial = out.cnt.get("c14.cache_take_some") > 0;
    out.fp = fingerprint(&["cache"], &[seed]);
    out
}

pub fn run(ctx: &Ctx) -> i32 {
    let t = Instant::now();
    let mut rep = Report::default();
    let g = Group { name: "token-present", cases: ctx.tier.pick(6000, 400_000), budget_s: ctx.tier.pick(25.0, 300.0), exhaustive: false };
    run_group(ctx, &mut rep, &g, |_, seed, trace| present_case(seed, trace));
    let g = Group { name: "retry-integrity", cases: ctx.tier.pick(2500, 150_000), budget_s: ctx.tier.pick(12.0, 130.0), exhaustive: false };
    run_group(ctx, &mut rep, &g, |_, seed, trace| retry_case(seed, Lane::Null, trace));
    #[cfg(feature = "real")]
    {
        let g = Group { name: "retry-integrity-rustls", cases: ctx.tier.pick(300, 20_000), budget_s: ctx.tier.pick(12.0, 130.0), exhaustive: false };
        run_group(ctx, &mut rep, &g, |_, seed, trace| retry_case(seed, Lane::Real, trace));
    }
    let g = Group { name: "retry-late", cases: ctx.tier.pick(2500, 150_000), budget_s: ctx.tier.pick(10.0, 100.0), exhaustive: false };
    run_group(ctx, &mut rep, &g, |_, seed, trace| retry_late_case(seed, trace));
    let g = Group { name: "cid-echo", cases: ctx.tier.pick(3000, 150_000), budget_s: ctx.tier.pick(8.0, 100.0), exhaustive: false };
    run_group(ctx, &mut rep, &g, |_, seed, trace| cid_echo_case(seed, trace));
    let ops = ctx.tier.pick(3000, 60_000);
    let g = Group { name: "bloom-log", cases: ctx.tier.pick(400, 10_000), budget_s: ctx.tier.pick(8.0, 100.0), exhaustive: false };
    run_group(ctx, &mut rep, &g, |_, seed, _| bloom_case(seed, ops));
    let g = Group { name: "token-cache", cases: ctx.tier.pick(400, 10_000), budget_s: ctx.tier.pick(5.0, 70.0), exhaustive: false };
    run_group(ctx, &mut rep, &g, |_, seed, _| cache_case(seed, ops));
    finish(
        ctx,
        &rep,
        Finish {
            level: "exploration",
            rule: "(token-present) genuine NEW_TOKEN tokens (recording TokenStore) and Retry tokens (decoded from the client's Initial on the wire) are obtained from a server whose token key is either ring's HKDF/AEAD or the harness's keyed hash, whose token log is the default bloom log, a 64-byte bloom log or none, with token lifetimes 10 s..2 weeks and Retry lifetimes 3..60 s; a fresh client connection then presents: the token unchanged, with 1-2 bits flipped, truncated, extended, spliced with another genuine token, random bytes of the same length, or a genuine token of another server; from the same address, the same IP with another port, or another IP; at issue time, shortly before expiry, at the edge, after expiry, long after; once or twice. Oracle: Incoming::remote_address_validated() of the first Incoming and the client's outcome against a reference predicate (validated only if unchanged, right address, in time, first use, log present; unusable NEW_TOKEN tokens are treated as absent and the attempt completes; a genuine Retry token from another port/IP or after its lifetime yields no Incoming and INVALID_TOKEN at the client; altered Retry tokens are treated as absent). (retry-integrity, plaintext and rustls lanes) every Retry packet (or the first 1/2) is altered in one field (tag, token, SCID, DCID, unused bits, truncated, extended) under duplication and reordering: tokens in the client's Initials on the wire show it never followed an altered Retry, followed a genuine one exactly once, and the handshake completes iff a genuine Retry arrived. (retry-late) a Retry that verifies is injected at various instants: followed only while no server packet had been authenticated and no Retry followed before. (cid-echo) original_destination_connection_id / initial_source_connection_id / retry_source_connection_id in the server's parameters flipped, removed, extended, shortened, swapped or spuriously added: the client never reports Connected and fails with TRANSPORT_PARAMETER_ERROR. (bloom-log) 3000-60000-step histories over BloomTokenLog (sizes 16 B..20 MiB, k 1..8, default) with time advancing by fractions and multiples of the lifetime: no nonce accepted twice. (token-cache) histories over TokenMemoryCache (1..256 names x 1..10 tokens): take() returns only tokens stored for that name and never the same one twice.".into(),
            assumptions: vec![
                "issue time is known to the harness only to within the handshake duration, so expiry is probed 3 s inside / outside the lifetime; the exact edge is exercised but only the 'must not validate' direction is judged there".into(),
                "false positives of the bloom log (fresh token rejected) are permitted by the TokenLog contract and only counted".into(),
            ],
            min_evals: ctx.tier.pick(2000, 50_000),
            min_nontrivial: ctx.tier.pick(1000, 20_000),
            required: vec![
                "c14.genuine_tokens_captured",
                "c14.presentations",
                "c14.validated_by_token",
                "c14.not_validated",
                "c14.invalid_token_seen",
                "c14.retry_packets_mutated",
                "c14.genuine_retry_followed_once",
                "c14.all_retries_altered",
                "c14.late_retry_ignored",
                "c14.late_retry_followed",
                "c14.cid_echo_rejected",
                "c14.bloom_reuse_rejected",
                "c14.bloom_fresh_accepted",
                "c14.cache_take_some",
            ],
            exhaustive: false,
        },
        t.elapsed().as_secs_f64(),
    )
}
