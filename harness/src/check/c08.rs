//! C08 — every connection terminates cleanly and exactly once.

use std::time::Instant;

use serde_json::json;

use super::{common::*, finish, run_group, CaseOut, Ctx, Finish, Group, Report};
use crate::{
    app::{EndMode, StreamPlan},
    cfg::CcKind,
    scen::{Honest, Knobs},
    util::Rng,
    world::{IncomingPolicy, Lane, Op, RunEnd, World},
};

#[derive(Debug, Clone, Copy, PartialEq)]
enum Ending {
    CloseClient,
    CloseServer,
    CloseBoth,
    VanishClient,
    VanishServer,
    IdleBoth,
}

fn describe_conn(w: &World, ei: usize, ch: usize) -> String {
    let c = &w.eps[ei].conns[&ch];
    let p = c.c.verif_probe();
    format!("[{ei}/{ch} {} lost={:?} drained_events={} local_close={:?}]", p.state, c.app.lost, c.drained_events, c.local_close_at)
}

pub fn case(seed: u64, lane: Lane, trace: bool) -> CaseOut {
    let mut r = Rng::new(seed ^ 0xC08);
    let mut k = Knobs::default();
    k.lane = lane;
    k.max_stream_len = 200_000;
    k.max_streams = 4;
    k.ops = false;
    k.mtu_changes = false;
    k.faults = r.chance(40);
    k.early = r.chance(30);
    k.fault_window_ns = Some(3_000_000_000);
    let mut h = Honest::random(seed, &k);
    // idle / keep-alive matrix
    let idles = [None, Some(50u32), Some(1000), Some(30_000)];
    h.srv_t.idle_ms = *r.pick(&idles);
    h.cli_t[0].idle_ms = *r.pick(&idles);
    let negotiated = match (h.srv_t.idle_ms, h.cli_t[0].idle_ms) {
        (Some(a), Some(b)) => Some(a.min(b)),
        (a, b) => a.or(b),
    };
    for t in [&mut h.srv_t, &mut h.cli_t[0]] {
        t.keep_alive_ms = match (negotiated, r.below(3)) {
            (Some(i), 0) => Some((i as u64 / 3).max(1)),
            _ => None,
        };
        t.pad_to_mtu = false;
        // window-limited closers: close() with plenty queued behind a tiny window / pacing cap
        if r.chance(40) {
            t.cc = CcKind::Fixed(*r.pick(&[2401, 3000, 6000]));
        }
        if r.chance(15) {
            t.max_bps = Some(20_000);
        }
    }
    if r.chance(50) {
        // lots of data queued at close time
        for a in h.cli_app.iter_mut().chain([&mut h.srv_app]) {
            a.plans.push(StreamPlan { bidi: false, len: 150_000, chunk: 65536, use_write_chunks: false, end: EndMode::Finish, prio: 0 });
        }
        h.srv_t.max_uni = h.srv_t.max_uni.max(2);
        h.cli_t[0].max_uni = h.cli_t[0].max_uni.max(2);
    }
    h.policy = *r.pick(&[IncomingPolicy::Accept, IncomingPolicy::Accept, IncomingPolicy::RetryFirst]);
    {
        // (own generator: the draws above and below stay what they were)
        let mut r2 = Rng::new(seed ^ 0xC1D);
        if r2.chance(30) {
            h.cid_lifetime_ms = Some(*r2.pick(&[30, 100, 400]));
        }
    }
    let ending = *r.pick(&[Ending::CloseClient, Ending::CloseServer, Ending::CloseBoth, Ending::VanishClient, Ending::VanishServer, Ending::IdleBoth]);
    let mut w = h.build();
    w.mon.log_transmits = true;
    if trace {
        w.trace = Some(vec![]);
    }
    // run a random prefix of the exchange
    let prefix_steps = *r.pick(&[0u64, 1, 2, 3, 4, 5, 6, 8, 10, 15, 30, 80, 300]);
    let _ = w.run(prefix_steps, 60_000_000_000, |_| false);
    let close_at = w.now;
    // error codes of every varint size; reasons short, around one packet, and far beyond
    let code = match r.below(4) {
        0 => r.below(64),
        1 => 64 + r.below(16320),
        2 => 16384 + r.below(1 << 20),
        _ => (1 << 30) + r.below(1 << 30),
    } as u32;
    let rl = match r.below(8) {
        0 => 1000 + r.usize(600),
        1 => 2000 + r.usize(3000),
        2 => 100 + r.usize(400),
        _ => r.usize(20),
    };
    let reason: Vec<u8> = r.bytes(rl);
    let stop_faults_at_close = r.chance(70);
    if stop_faults_at_close {
        w.netcfg.fault_until_ns = w.netcfg.fault_until_ns.min(w.now);
    }
    // the datagram(s) announcing the close are lost, then the path delivers again: the closer
    // must repeat the announcement when the peer's packets keep arriving
    let lose_first_close = stop_faults_at_close && matches!(ending, Ending::CloseClient | Ending::CloseServer) && r.chance(30);
    if lose_first_close {
        let dir = if ending == Ending::CloseClient { 0 } else { 1 };
        let next = w.net.dir_count[dir];
        w.netcfg.drop_idx[dir].insert(next);
    }
    match ending {
        Ending::CloseClient => w.apply_op(Op::Close { ep: 1, code, reason: reason.clone() }),
        Ending::CloseServer => w.apply_op(Op::Close { ep: 0, code, reason: reason.clone() }),
        Ending::CloseBoth => {
            w.apply_op(Op::Close { ep: 1, code, reason: reason.clone() });
            w.apply_op(Op::Close { ep: 0, code: code ^ 1, reason: reason.clone() });
        }
        Ending::VanishClient => w.apply_op(Op::Vanish { ep: 1 }),
        Ending::VanishServer => w.apply_op(Op::Vanish { ep: 0 }),
        Ending::IdleBoth => {}
    }
    // run until nothing can happen any more (or a long time passes)
    let limit = w.now + 400_000_000_000;
    let end = w.run(60_000, limit, |w| {
        w.steps % 16 == 0 && w.eps.iter().enumerate().all(|(ei, e)| w.vanished.contains(&ei) || e.conns.values().all(|c| c.c.is_drained()))
    });
    let delivering = stop_faults_at_close || w.netcfg.is_clean_fifo() || !k.faults;
    let mut msgs: Vec<String> = vec![];
    let mut cnt = crate::app::Counters::default();
    // ---- per-connection verdicts
    for (ei, e) in w.eps.iter().enumerate() {
        if w.vanished.contains(&ei) {
            continue;
        }
        for (ch, c) in &e.conns {
            let cm = w.mon.conns.get(&(ei, *ch));
            let me = describe_conn(&w, ei, *ch);
            let closed_locally = c.local_close_at.is_some();
            let peer_ep = if ei == 0 { 1 } else { 0 };
            let peer_closed_at = w.eps[peer_ep].conns.values().find(|p| p.pair == c.pair).and_then(|p| p.local_close_at);
            let peer_vanished = w.vanished.contains(&peer_ep);
            // (1) exactly-once reporting
            if c.app.lost_count > 1 {
                msgs.push(format!("{me}: ConnectionLost reported {} times", c.app.lost_count));
            }
            if closed_locally && c.app.lost_count > 0 {
                // legal only if the loss was reported before the local close
                let lost_ns = cm.and_then(|m| m.lost_ns).unwrap_or(0);
                if lost_ns > c.local_close_at.unwrap() && c.app.lost.last().map_or(true, |l| l != "Reset") {
                    msgs.push(format!("{me}: ConnectionLost reported after a local close()"));
                }
            }
            // (2) every connection ends drained exactly once when its timers could run
            if matches!(end, RunEnd::Done | RunEnd::Quiescent) {
                // a peer's close that was lost on the way (the closer only repeats it while it is
                // closing) ends this side through its idle timeout, if it has one
                let has_idle = c.c.verif_probe().idle_timeout.is_some() || c.tcfg.idle_ms.is_some() || w.eps[peer_ep].spec.server.as_ref().map_or(false, |s| s.tcfg.idle_ms.is_some());
                let must_end = closed_locally || c.app.lost_count > 0 || ((peer_closed_at.is_some() || peer_vanished) && has_idle);
                // (connections created after the ending was applied are zombies born from delayed
                // duplicates of the client's first Initial)
                if must_end && c.created_ns <= close_at && !c.c.is_drained() {
                    let p = c.c.verif_probe();
                    msgs.push(format!("{me}: never drained although the connection was closed / its peer vanished with an idle timeout (idle config local {:?}, negotiated {:?}, timers {:?}, path validated {}, sent {} recvd {})", c.tcfg.idle_ms, p.idle_timeout, p.timers.iter().map(|t| t.0).collect::<Vec<_>>(), p.path_validated, p.path_total_sent, p.path_total_recvd));
                }
                if c.c.is_drained() {
                    cnt.inc("c08.drained_conns");
                    if c.drained_events != 1 {
                        msgs.push(format!("{me}: drained but Drained endpoint event count is {}", c.drained_events));
                    }
                    // (a KeyDiscard timer left over from a key update seen while closing only drops
                    // old keys when it fires and produces no output: tolerated)
                    let timers: Vec<&str> = c.c.verif_probe().timers.iter().map(|t| t.0).filter(|t| *t != "KeyDiscard").collect();
                    if !timers.is_empty() {
                        msgs.push(format!("{me}: drained connection still has a timer armed: {timers:?}"));
                    }
                }
            }
            // (3) the peer of a local close learns the closer's code and reason (delivering path)
            if let (Some(pc), false, true) = (peer_closed_at, closed_locally, delivering) {
                // when the first announcement was dropped on purpose, the peer can only learn of
                // the close if one of its own packets reached the closer while it was still closing
                let closer_mon = w.eps[peer_ep].conns.iter().find(|(_, p)| p.pair == c.pair).and_then(|(pch, _)| w.mon.conns.get(&(peer_ep, *pch)));
                let closer_drained = closer_mon.and_then(|m| m.drained_ns);
                // (packets the closer can no longer decrypt - e.g. Handshake packets after it dropped
                // those keys - do not make it speak again)
                let closer_frames_now = w.eps[peer_ep].conns.values().find(|p| p.pair == c.pair).map(|p| crate::mon::frame_rx_total(&p.c.stats().frame_rx));
                let closer_heard_any = match (closer_mon.and_then(|m| m.frames_rx_at_close), closer_frames_now) {
                    (Some(a), Some(b)) => b > a,
                    _ => false,
                };
                // ... and heard it early enough for the repeated announcement to come back while
                // this side was still there
                let back_slack = w.netcfg.latency_ns + w.netcfg.jitter_ns + w.drv.timer_late_ns + 2_000_000;
                let my_lost_ns = cm.and_then(|m| m.lost_ns);
                let closer_heard = closer_heard_any && closer_mon.map_or(false, |m| m.heard_after_close_ns.iter().any(|&h| my_lost_ns.map_or(true, |l| l > h + back_slack)));
                let rtt_slack = 2 * (w.netcfg.latency_ns + w.netcfg.jitter_ns) + w.drv.timer_late_ns + 2_000_000;
                let spoke_in_time = cm.map_or(false, |m| {
                    m.tx_log.iter().any(|&(t, _, _)| {
                        t > pc + w.netcfg.latency_ns
                            && closer_drained.map_or(false, |d| t + w.netcfg.latency_ns + w.netcfg.jitter_ns + 1_000_000 < d)
                            // ... and it was still there when the repeated announcement came back
                            && m.lost_ns.map_or(true, |l| l > t + rtt_slack)
                    })
                });
                if lose_first_close {
                    if std::env::var("QV_C08_DEBUG").is_ok() {
                        eprintln!("C08DBG seed={seed} me={me} pc={pc} spoke={spoke_in_time} heard={closer_heard} closer_drained={closer_drained:?} closer_frames={:?} tx_after={:?} lost_ns={:?}", (closer_mon.and_then(|m| m.frames_rx_at_close), closer_frames_now), cm.map(|m| m.tx_log.iter().filter(|x| x.0 > pc).map(|x| x.0).take(4).collect::<Vec<_>>()), cm.and_then(|m| m.lost_ns));
                    }
                    cnt.inc("c08.first_close_lost");
                    if spoke_in_time && closer_heard {
                        cnt.inc("c08.first_close_lost_peer_spoke");
                    }
                }
                if ending != Ending::CloseBoth && (!lose_first_close || (spoke_in_time && closer_heard)) {
                    cnt.inc("c08.peer_reason_checks");
                    let peer_cm = w.eps[peer_ep].conns.iter().find(|(_, p)| p.pair == c.pair).and_then(|(pch, _)| w.mon.conns.get(&(peer_ep, *pch)));
                    // a side that had already lost the connection (e.g. tiny idle timeout) before the
                    // close could reach it is not expected to learn the close reason
                    // a delayed duplicate of the client's first Initial can create a fresh (zombie)
                    // server connection after the real one is gone: not the closer's peer
                    if c.created_ns > pc {
                        continue;
                    }
                    if w.mon.pair_creations.get(&(0, c.pair)).copied().unwrap_or(0) > 1 {
                        cnt.inc("c08.peer_reason_skipped_zombie");
                        continue;
                    }
                    let my_lost = cm.and_then(|m| m.lost_ns);
                    if my_lost.map_or(false, |t| t < pc + w.netcfg.latency_ns) {
                        continue;
                    }
                    let early = peer_cm.map_or(false, |m| m.closer_had_early_keys);
                    if peer_cm.map_or(false, |m| m.close_amp_blocked) {
                        // the closing server was not allowed to send anything (3x limit) and drained
                        // before the client spoke again: nothing could be announced
                        cnt.inc("c08.peer_reason_excused_amp");
                        continue;
                    }
                    let (exp_code, exp_reason) = peer_cm.and_then(|m| m.local_close.clone()).map(|(_, c, r)| (c, r)).unwrap_or((0, vec![]));
                    let exact = format!("ApplicationClosed(ApplicationClose {{ error_code: {exp_code}, reason: {:?} }})", bytes::Bytes::from(exp_reason.clone()));
                    let got = c.app.lost.first().cloned();
                    // a reason that does not fit the closing packet is cut: the receiver must see a
                    // prefix of it (at least 900 bytes: every path here carries 1200-byte datagrams)
                    let cut_ok = |g: &str| -> bool {
                        let head = format!("ApplicationClosed(ApplicationClose {{ error_code: {exp_code}, reason: b\"");
                        let full = format!("{:?}", bytes::Bytes::from(exp_reason.clone()));
                        let full_inner = &full[2..full.len() - 1];
                        exp_reason.len() > 900
                            && g.starts_with(&head)
                            && g.ends_with("\" })")
                            && g.len() >= head.len() + 4
                            && full_inner.starts_with(&g[head.len()..g.len() - 4])
                            && g.len() - head.len() - 4 >= 900
                    };
                    let ok = match &got {
                        Some(g) if *g == exact => true,
                        Some(g) if cut_ok(g) => {
                            cnt.inc("c08.long_reason_truncated");
                            true
                        }
                        // the closer had to use an Initial/Handshake packet: generic APPLICATION_ERROR
                        Some(g) if early && g.contains("ConnectionClosed") && g.contains("APPLICATION_ERROR") => true,
                        // the connection never existed on this side (close before the server accepted): nothing to report
                        None if !c.app.connected && early => true,
                        _ => false,
                    };
                    if !ok {
                        msgs.push(format!("{me}: peer closed with code {exp_code} reason {exp_reason:?} (closer had early keys: {early}) over a delivering path, but this side saw {got:?}"));
                    }
                }
            }
            // (4) idle timeout bounds
            if let Some(m) = cm {
                if m.timed_out {
                    cnt.inc("c08.timeout_checks");
                    // before the peer's transport parameters are known only the local setting applies
                    // (a server normally learns the client's parameters with the very first packet; a
                    // zombie born from a later copy of an Initial that carries no ClientHello never does)
                    let effective = if c.app.connected || c.app.hs_data_ready { negotiated } else { c.tcfg.idle_ms };
                    let idle_ns = effective.map(|i| i as u64 * 1_000_000);
                    if c.app.connected {
                        cnt.inc("c08.negotiation_checks");
                        let q = c.c.verif_probe().idle_timeout.map(|d| d.as_nanos() as u64);
                        if q != idle_ns {
                            msgs.push(format!("{me}: negotiated idle timeout is {q:?} ns, min of both settings is {idle_ns:?} ns"));
                        }
                    }
                    let t = m.lost_ns.unwrap_or(0);
                    match idle_ns {
                        None => msgs.push(format!("{me}: TimedOut although no idle timeout was negotiated")),
                        Some(idle) => {
                            if t < m.last_rx_ns + idle {
                                msgs.push(format!("{me}: TimedOut at {t} ns, only {} ns after the last packet was received (idle timeout {idle} ns)", t - m.last_rx_ns));
                            }
                            let restart = m.last_rx_ns.max(m.last_tx_ns.min(t));
                            // the deadline was computed with the PTO current when the timer was
                            // (re)started; the largest PTO ever observed bounds it from above
                            let pto3 = 3 * m.max_pto_ns.max(m.pto_at_last_event_ns).max(1);
                            // (a late wake-up can delay both the event that restarted the timer
                            // and the servicing of the timer itself)
                            let late = 4 * h.drv.timer_late_ns + 2_000_000;
                            if t > restart + idle.max(pto3) + late {
                                msgs.push(format!(
                                    "{me}: TimedOut at {t} ns, {} ns after the last event that restarts the idle timer; bound max(idle {idle}, 3xPTO {pto3}) + {late}",
                                    t - restart
                                ));
                            }
                        }
                    }
                    // keep-alives / traffic must prevent timeouts while the peer is alive and the path delivers
                    let ka = c.tcfg.keep_alive_ms.is_some() || w.eps[peer_ep].conns.values().any(|p| p.pair == c.pair && p.tcfg.keep_alive_ms.is_some());
                    let idle_ns = negotiated.map_or(0, |i| i as u64 * 1_000_000);
                    let roomy = idle_ns >= 8 * w.netcfg.latency_ns + 100_000_000;
                    if ka && c.app.connected && roomy && !peer_vanished && peer_closed_at.is_none() && !k.faults && ending == Ending::IdleBoth {
                        msgs.push(format!("{me}: TimedOut although keep-alives were configured, the peer was alive and the path loss-free"));
                    }
                }
            }
        }
    }
    for m in msgs {
        w.mon.violate("C08", format!("{m} | ending={ending:?} prefix_steps={prefix_steps} close_at={close_at} {}", h.summary()));
    }
    w.mon.cnt.merge(&cnt);
    // identifiers of a forgotten connection stop routing: that includes the reset tokens of CIDs
    // its peer rotated away while it lived
    super::c09::retired_token_phase(&mut w, &mut Rng::new(seed ^ 0x70C), lane);
    let mut ran = Ran { w, end };
    let mut out = base_out(&h, &mut ran, trace);
    out.nontrivial = true;
    out.fp = super::fingerprint(&[&format!("{ending:?}"), &format!("{:?}", ran.end)], &[prefix_steps, out.fp]);
    if let Some(s) = &mut out.sample {
        s["ending"] = json!(format!("{ending:?}"));
        s["prefix_steps"] = json!(prefix_steps);
    }
    out
}

pub fn run(ctx: &Ctx) -> i32 {
    let t = Instant::now();
    let mut rep = Report::default();
    let g = Group { name: "term-null", cases: ctx.tier.pick(3000, 200_000), budget_s: ctx.tier.pick(45.0, 720.0), exhaustive: false };
    run_group(ctx, &mut rep, &g, |_, seed, trace| case(seed, Lane::Null, trace));
    #[cfg(feature = "real")]
    {
        let g = Group { name: "term-real", cases: ctx.tier.pick(200, 10_000), budget_s: ctx.tier.pick(25.0, 240.0), exhaustive: false };
        run_group(ctx, &mut rep, &g, |_, seed, trace| case(seed, Lane::Real, trace));
    }
    finish(
        ctx,
        &rep,
        Finish {
            level: "fault_enumeration",
            rule: "seeded scripted exchanges cut after a prefix of {0,1,2,3,4,5,6,8,10,15,30,80,300} driver steps, then: close() by the client, the server or both (random code and reason), or either peer vanishing, or both going idle; idle timeouts {off, 50 ms, 1 s, 30 s} x keep-alive {off, idle/3} on both peers; tiny fixed windows / pacing caps and 150 kB queued at close time; loss/dup/reorder before (and sometimes after) the close; accept and retry policies; both crypto lanes. Trace oracles: ConnectionLost at most once and never after a local close; the first transmit after close() carries CONNECTION_CLOSE (plaintext lane) and close() is never followed by silence; only the Close timer remains armed and drain happens within 3 x PTO; exactly one Drained endpoint event, after which open_connections() drops by one, nothing is routed to the handle and poll_transmit is silent; over a delivering path the peer reports exactly the closer's code and reason (generic APPLICATION_ERROR if the closer still held Initial/Handshake keys); TimedOut no earlier than idle after the last received packet and no later than max(idle, 3 x PTO) after the last restart; no TimedOut with keep-alives on a loss-free path.".into(),
            assumptions: vec!["negotiated idle timeout computed from both configurations (min of the non-zero values)".into(), "driver timer lateness is added to every upper bound".into()],
            min_evals: ctx.tier.pick(300, 10_000),
            min_nontrivial: ctx.tier.pick(200, 3000),
            required: vec!["c08.local_closes", "c08.immediacy_checks", "c08.drain_deadline_checks", "c08.forget_checks", "c08.peer_reason_checks", "c08.timeout_checks", "c08.drained_conns", "c08.drained_event"],
            exhaustive: false,
        },
        t.elapsed().as_secs_f64(),
    )
}
