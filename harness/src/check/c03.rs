//! C03 — peer-controlled input never crashes or hangs an endpoint.
//!
//! Four groups, all with a bystander connection on the victim endpoint that must stay healthy:
//!  * frame-class: one well-understood illegal frame (correctly protected, injected through the
//!    frame hook) -> the victim closes with the code QUIC prescribes, or ignores it where QUIC
//!    says so;
//!  * frame-fuzz: scripts of random / boundary-valued / mutated frames in every packet-number
//!    space -> no panic, no hang, transport errors only;
//!  * flood: thousands of state-touching frames -> bounded retained memory and bounded work;
//!  * params: hostile transport-parameter encodings (TLV mutations of the genuine ones);
//!  * garbage: unauthenticated datagrams (random and structure-aware mutations of genuine ones)
//!    thrown at endpoints in every connection state.
//!
//! A panic inside quinn is caught by `run_group` and reported as a violation.

use std::{sync::Arc, time::Instant};

use proto::Dir;
use serde_json::json;

use super::{common::leak_prefixed, finish, fingerprint, run_group, CaseOut, Ctx, Finish, Group, Report};
use crate::{
    app::{AppCfg, EndMode, StreamPlan, Violation},
    cfg::TcfgP,
    util::Rng,
    wire::{put_var, put_var_len, Frame},
    world::{addr_of, DriverCfg, EpSpec, Lane, NetCfg, ServerSpec, World},
};

const VMAX: u64 = (1 << 62) - 1;

fn bv(r: &mut Rng) -> u64 {
    match r.below(4) {
        0 => r.below(8),
        1 => *r.pick(&[0, 1, 63, 64, 16383, 16384, (1 << 30) - 1, 1 << 30, 1 << 60, (1 << 60) + 1, VMAX - 1, VMAX]),
        2 => r.below(100_000),
        _ => r.u64() & VMAX,
    }
}

fn rb(r: &mut Rng, n: usize, min: usize) -> Vec<u8> {
    let k = min + r.usize(n);
    r.bytes(k)
}

fn small_id(r: &mut Rng) -> u64 {
    if r.chance(85) {
        r.below(48)
    } else {
        bv(r)
    }
}

/// Raw ACK frame; nothing about it needs to be consistent.
fn ack_raw(out: &mut Vec<u8>, largest: u64, delay: u64, first: u64, more: &[(u64, u64)], ecn: Option<(u64, u64, u64)>) {
    out.push(if ecn.is_some() { 0x03 } else { 0x02 });
    put_var(out, largest);
    put_var(out, delay);
    put_var(out, more.len() as u64);
    put_var(out, first);
    for (g, l) in more {
        put_var(out, *g);
        put_var(out, *l);
    }
    if let Some((a, b, c)) = ecn {
        put_var(out, a);
        put_var(out, b);
        put_var(out, c);
    }
}

/// One random frame (well-formed encoding, arbitrary content), appended to `out`.
fn gen_frame(r: &mut Rng, out: &mut Vec<u8>) -> &'static str {
    let f = match r.below(26) {
        0 => Frame::Padding(1 + r.usize(5)),
        1 => Frame::Ping,
        2 => {
            let more: Vec<(u64, u64)> = (0..r.below(4)).map(|_| (r.below(5), r.below(5))).collect();
            let largest = if r.chance(70) { r.below(40) } else { bv(r) };
            let ecn = if r.bool() { Some((bv(r), bv(r), bv(r))) } else { None };
            ack_raw(out, largest, bv(r), if r.chance(70) { r.below(4) } else { bv(r) }, &more, ecn);
            return "ACK";
        }
        3 => Frame::ResetStream { id: small_id(r), code: bv(r), final_size: bv(r) },
        4 => Frame::StopSending { id: small_id(r), code: bv(r) },
        5 => Frame::Crypto { off: bv(r).min(VMAX - 64), data: rb(r, 40, 0) },
        6 => Frame::NewToken { token: rb(r, 60, 0) },
        7 | 8 | 9 => Frame::Stream {
            id: small_id(r),
            off: if r.chance(70) { r.below(3000) } else { bv(r).min(VMAX - 64) },
            fin: r.chance(30),
            data: rb(r, 60, 0),
            explicit_len: true,
            explicit_off: r.bool(),
        },
        10 => Frame::MaxData(bv(r)),
        11 => Frame::MaxStreamData { id: small_id(r), max: bv(r) },
        12 => Frame::MaxStreams { bidi: r.bool(), max: bv(r) },
        13 => Frame::DataBlocked(bv(r)),
        14 => Frame::StreamDataBlocked { id: small_id(r), limit: bv(r) },
        15 => Frame::StreamsBlocked { bidi: r.bool(), limit: bv(r) },
        16 | 17 => {
            let seq = if r.chance(80) { r.below(12) } else { bv(r) };
            // (retire_prior_to anywhere below, right at, or above the sequence number)
            let rpt = match r.below(4) {
                0 | 1 => r.below(seq + 1),
                2 => seq - r.below(4).min(seq),
                _ => bv(r),
            };
            let len = *r.pick(&[0usize, 1, 4, 8, 8, 8, 20, 21, 255]);
            let mut tok = [0u8; 16];
            r.fill(&mut tok);
            // hand-encoded: the length byte may lie
            out.push(0x18);
            put_var(out, seq);
            put_var(out, rpt);
            out.push(len as u8);
            out.extend(r.bytes(len.min(40)));
            out.extend_from_slice(&tok);
            return "NEW_CONNECTION_ID";
        }
        18 => Frame::RetireConnectionId { seq: if r.chance(80) { r.below(12) } else { bv(r) } },
        19 => Frame::PathChallenge(r.u64()),
        20 => Frame::PathResponse(r.u64()),
        21 => {
            if r.chance(15) {
                Frame::ConnectionClose { code: bv(r), frame_type: bv(r), reason: rb(r, 20, 0) }
            } else {
                Frame::HandshakeDone
            }
        }
        22 => Frame::Datagram { data: rb(r, 80, 0), explicit_len: true },
        23 => Frame::AckFrequency { seq: bv(r), threshold: bv(r), max_ack_delay: bv(r), reordering: bv(r) },
        24 => Frame::ImmediateAck,
        _ => {
            if r.chance(10) {
                Frame::ApplicationClose { code: bv(r), reason: rb(r, 20, 0) }
            } else {
                Frame::Ping
            }
        }
    };
    f.encode(out);
    f.name()
}

/// Bytes that are not a well-formed frame sequence.
fn gen_malformed(r: &mut Rng, out: &mut Vec<u8>) -> &'static str {
    match r.below(6) {
        0 => {
            // truncated frame
            let mut b = vec![];
            gen_frame(r, &mut b);
            let keep = r.usize(b.len().max(1));
            out.extend_from_slice(&b[..keep.max(1).min(b.len())]);
            "truncated"
        }
        1 => {
            // bit flips
            let mut b = vec![];
            gen_frame(r, &mut b);
            for _ in 0..1 + r.below(3) {
                let i = r.usize(b.len());
                b[i] ^= 1 << r.below(8);
            }
            out.extend(b);
            "flipped"
        }
        2 => {
            // unknown frame type
            let ty = *r.pick(&[0x20, 0x21, 0x2f, 0x32, 0x3f, 0x40, 0xae, 0xb0, 0x1234, 0xff04de1a, VMAX]);
            put_var(out, ty);
            out.extend(rb(r, 10, 0));
            "unknown-type"
        }
        3 => {
            // frame type with a non-minimal encoding
            let ty = *r.pick(&[0x01u64, 0x06, 0x08, 0x10, 0x1e]);
            put_var_len(out, ty, *r.pick(&[2usize, 4, 8]));
            out.extend(rb(r, 10, 0));
            "non-minimal-type"
        }
        4 => {
            // length field larger than the packet
            out.push(*r.pick(&[0x06, 0x07, 0x0a, 0x0e, 0x31]));
            if out[out.len() - 1] != 0x07 && out[out.len() - 1] != 0x31 {
                put_var(out, r.below(10));
            }
            put_var(out, bv(r).max(2000));
            out.extend(rb(r, 10, 0));
            "overlong-length"
        }
        _ => {
            out.extend(rb(r, 40, 1));
            "random-bytes"
        }
    }
}

#[derive(Clone)]
struct VictimCfg {
    is_server: bool,
    t: TcfgP,
    cid_len: usize,
    attacker_cid_len: usize,
}

fn victim_cfg(r: &mut Rng) -> VictimCfg {
    let mut t = TcfgP::default();
    t.idle_ms = None;
    t.mtud = None;
    t.initial_rtt_ms = 10;
    if r.chance(40) {
        t.ack_freq = Some((*r.pick(&[1, 2, 10]), *r.pick(&[None, Some(5), Some(100)]), *r.pick(&[1, 3])));
    }
    if r.chance(30) {
        t.dgram_recv_buf = *r.pick(&[None, Some(0), Some(100)]);
    }
    if r.chance(40) {
        t.stream_rwnd = *r.pick(&[1, 100, 5000]);
        t.rwnd = *r.pick(&[1, 100, 20_000]);
        t.max_bidi = *r.pick(&[0, 1, 3]);
        t.max_uni = *r.pick(&[0, 1, 3]);
    }
    VictimCfg { is_server: r.chance(60), t, cid_len: *r.pick(&[0, 8, 8, 20]), attacker_cid_len: *r.pick(&[0, 8, 8, 20]) }
}

fn quiet_tcfg() -> TcfgP {
    let mut t = TcfgP::default();
    t.idle_ms = None;
    t.mtud = None;
    t.initial_rtt_ms = 10;
    t
}

/// The attacker's stack: never congestion-blocked, so that what the harness injects goes out even
/// when the victim's acknowledgements no longer reach it.
fn attacker_tcfg() -> TcfgP {
    let mut t = quiet_tcfg();
    t.cc = crate::cfg::CcKind::Fixed(1 << 30);
    t
}

fn bystander_plans(r: &mut Rng, peer: &TcfgP) -> Vec<StreamPlan> {
    let mut v = vec![];
    for _ in 0..1 + r.usize(3) {
        let bidi = if peer.max_bidi == 0 { false } else if peer.max_uni == 0 { true } else { r.bool() };
        if (bidi && peer.max_bidi == 0) || (!bidi && peer.max_uni == 0) {
            continue;
        }
        let cap = peer.stream_rwnd.saturating_mul(60).min(peer.rwnd.saturating_mul(60)).min(30_000);
        v.push(StreamPlan { bidi, len: r.below(cap + 1), chunk: *r.pick(&[100, 1200, 4096]), use_write_chunks: r.chance(30), end: EndMode::Finish, prio: 0 });
    }
    v
}

struct Sys {
    w: World,
    victim: (usize, usize),
    attacker: (usize, usize),
    bystander: (usize, usize),
    by_pair: u64,
}

/// Endpoint layout. Victim server: ep0 victim (server), ep1 attacker (client), ep2 bystander
/// (client). Victim client: ep0 attacker (server), ep1 victim (client endpoint with a second
/// connection to) ep2 honest server.
fn build(seed: u64, vc: &VictimCfg, r: &mut Rng, pre_inject: &[(usize, Vec<u8>)], net: NetCfg, attacker_rewrite: Option<crate::nullcrypto::ParamRewrite>) -> Option<Sys> {
    let honest_app = |plans: Vec<StreamPlan>| AppCfg { plans, respond_max: 200, dgram_read: false, ..AppCfg::default() };
    let inert = AppCfg { inert: true, ..AppCfg::default() };
    let mut specs = vec![];
    if vc.is_server {
        let mut srv = ServerSpec::default();
        srv.tcfg = vc.t.clone();
        srv.tokens_sent = 1;
        srv.app = honest_app(vec![]);
        let mut e0 = EpSpec::new(0, Some(srv));
        e0.cid_len = vc.cid_len;
        let mut e1 = EpSpec::new(1, None);
        e1.cid_len = vc.attacker_cid_len;
        specs.push(e0);
        specs.push(e1);
        specs.push(EpSpec::new(2, None));
    } else {
        let mut srv = ServerSpec::default();
        srv.tcfg = attacker_tcfg();
        srv.tokens_sent = 1;
        srv.app = inert.clone();
        let mut e0 = EpSpec::new(0, Some(srv));
        e0.cid_len = vc.attacker_cid_len;
        let mut e1 = EpSpec::new(1, None);
        e1.cid_len = vc.cid_len;
        let mut hs = ServerSpec::default();
        hs.tcfg = quiet_tcfg();
        hs.app = honest_app(vec![]);
        specs.push(e0);
        specs.push(e1);
        specs.push(EpSpec::new(2, Some(hs)));
    }
    let mut w = World::new(seed, Lane::Null, specs, net, DriverCfg::default());
    w.max_jump_ns = 3_600_000_000_000;
    w.mon.honest = false;
    w.mon.enable_c05 = false;
    w.mon.enable_c12 = false;
    w.mon.enable_c07 = false;
    // hostile transport parameters must be in place before the attacker's session is created
    *w.eps[if vc.is_server { 1 } else { 0 }].null_shared.rewrite.lock().unwrap() = attacker_rewrite;
    let (victim_ep, attacker_ep, by_ep);
    if vc.is_server {
        // a zero-length-CID server routes by address: fine, every client has its own address
        victim_ep = 0;
        attacker_ep = 1;
        by_ep = 2;
        let ach = w.connect(1, 0, attacker_tcfg(), inert).ok()?;
        for (s, b) in pre_inject {
            w.eps[1].conns.get_mut(&ach).unwrap().c.verif_inject_frames(*s, b.clone());
        }
        let plans = bystander_plans(r, &vc.t);
        w.connect(2, 0, quiet_tcfg(), honest_app(plans)).ok()?;
    } else {
        victim_ep = 1;
        attacker_ep = 0;
        by_ep = 1;
        w.on_accept_inject.insert(0, pre_inject.to_vec());
        w.connect(1, 0, vc.t.clone(), honest_app(vec![])).ok()?;
        let plans = bystander_plans(r, &quiet_tcfg());
        w.connect(1, 2, vc.t.clone(), honest_app(plans)).ok()?;
    }
    let _ = attacker_ep;
    // identify handles lazily after the first settle (server-side connections do not exist yet)
    Some(Sys { w, victim: (victim_ep, usize::MAX), attacker: (attacker_ep, usize::MAX), bystander: (by_ep, usize::MAX), by_pair: 2 })
}

/// Run until nothing is in flight and no timer is due within a second. `false` means the world
/// stayed busy for `max_rounds` events *without virtual time moving on by more than 20 s*: a
/// peer that has gone silent legitimately keeps a connection probing with exponential back-off,
/// which spreads those events over a long time; a storm does not.
fn settle(w: &mut World, max_rounds: usize) -> bool {
    let t0 = w.now;
    if !settle_rounds(w, max_rounds) {
        return w.now - t0 > 20_000_000_000;
    }
    true
}

fn settle_rounds(w: &mut World, max_rounds: usize) -> bool {
    // `step` advances the clock to the next event when it is done; do not let it leap to timers
    // that are far away (probe timeouts of a connection whose peer stopped answering)
    let saved = w.max_jump_ns;
    w.max_jump_ns = 2_000_000_000;
    let r = settle_rounds_inner(w, max_rounds);
    w.max_jump_ns = saved;
    r
}

fn settle_rounds_inner(w: &mut World, max_rounds: usize) -> bool {
    for _ in 0..max_rounds {
        w.flush_now();
        let horizon = w.now + 1_000_000_000;
        let busy = !w.net.q.is_empty()
            || w.eps.iter().any(|e| e.conns.values().any(|c| !c.c.is_drained() && c.c.poll_timeout().map_or(false, |t| w.rel(t) <= horizon)));
        if !busy {
            return true;
        }
        if !w.step() {
            return true;
        }
    }
    false
}

impl Sys {
    /// Resolve connection handles by pair id: pair 1 is the attacked connection, pair 2 the
    /// bystander's (creation order in `build`).
    fn resolve(&mut self, vc: &VictimCfg) {
        let find = |w: &World, ep: usize, pair: u64| w.eps[ep].conns.iter().find(|(_, c)| c.pair == pair).map(|(h, _)| *h);
        let first_pair = self.w.eps.iter().flat_map(|e| e.conns.values().map(|c| c.pair)).min().unwrap_or(1);
        let (ap, bp) = (first_pair, first_pair + 1);
        self.by_pair = bp;
        if vc.is_server {
            self.victim.1 = find(&self.w, 0, ap).unwrap_or(usize::MAX);
            self.attacker.1 = find(&self.w, 1, ap).unwrap_or(usize::MAX);
            self.bystander.1 = find(&self.w, 2, bp).unwrap_or(usize::MAX);
        } else {
            self.victim.1 = find(&self.w, 1, ap).unwrap_or(usize::MAX);
            self.attacker.1 = find(&self.w, 0, ap).unwrap_or(usize::MAX);
            self.bystander.1 = find(&self.w, 1, bp).unwrap_or(usize::MAX);
        }
    }
    fn victim_lost(&self) -> Vec<String> {
        self.w.eps[self.victim.0].conns.get(&self.victim.1).map_or(vec![], |c| c.app.lost.clone())
    }
    fn attacker_lost(&self) -> Vec<String> {
        self.w.eps[self.attacker.0].conns.get(&self.attacker.1).map_or(vec![], |c| c.app.lost.clone())
    }
    fn inject(&mut self, space: usize, bytes: Vec<u8>) -> bool {
        match self.w.eps[self.attacker.0].conns.get_mut(&self.attacker.1) {
            Some(c) if !c.c.is_closed() && !c.c.is_drained() => {
                c.c.verif_inject_frames(space, bytes);
                true
            }
            _ => false,
        }
    }
    /// The bystander's workload completes, it is never lost, and its data is intact.
    fn finish_bystander(&mut self, out: &mut Vec<String>) {
        let (be, bh) = self.bystander;
        let bp = self.by_pair;
        let done = |w: &World| {
            w.eps[be].conns.get(&bh).map_or(false, |c| c.app.connected && c.app.jobs_done())
                && w.led.flows.iter().filter(|((p, _, _), _)| *p == bp).all(|(_, f)| !f.must_complete() || f.complete())
        };
        let mut rounds = 0;
        while !done(&self.w) && rounds < 4000 {
            if !self.w.step() {
                break;
            }
            rounds += 1;
        }
        let Some(c) = self.w.eps[be].conns.get(&bh) else {
            out.push("bystander connection does not exist".into());
            return;
        };
        if !c.app.lost.is_empty() {
            out.push(format!("bystander connection on the attacked endpoint was lost: {:?}", c.app.lost));
        } else if !done(&self.w) {
            let f: Vec<String> = self.w.led.flows.iter().filter(|((p, _, _), f)| *p == bp && f.must_complete() && !f.complete()).map(|(k, f)| format!("{k:?} written={} delivered={}", f.written, f.delivered.total())).collect();
            out.push(format!("bystander connection on the attacked endpoint did not finish its transfer (connected={} jobs_done={} incomplete flows {f:?})", c.app.connected, c.app.jobs_done()));
        }
        // the other side of the bystander connection must be healthy too
        for e in &self.w.eps {
            for c in e.conns.values() {
                if c.pair == bp && !c.app.lost.is_empty() {
                    out.push(format!("peer of the bystander connection was lost: {:?}", c.app.lost));
                }
            }
        }
    }
}

fn timers_desc(w: &World) -> Vec<String> {
    let now = w.instant();
    w.eps
        .iter()
        .enumerate()
        .flat_map(|(ei, e)| {
            e.conns.iter().map(move |(h, c)| {
                let p = c.c.verif_probe();
                let t: Vec<String> = p.timers.iter().map(|(n, t)| format!("{n}@{}", t.checked_duration_since(now).map(|d| d.as_nanos() as i128).unwrap_or_else(|| -(now.duration_since(*t).as_nanos() as i128)))).collect();
                format!("{ei}/{h} {} {t:?}", p.state)
            })
        })
        .collect()
}

const STD_CODES: &[&str] = &[
    "FLOW_CONTROL_ERROR",
    "STREAM_LIMIT_ERROR",
    "STREAM_STATE_ERROR",
    "FINAL_SIZE_ERROR",
    "FRAME_ENCODING_ERROR",
    "TRANSPORT_PARAMETER_ERROR",
    "CONNECTION_ID_LIMIT_ERROR",
    "PROTOCOL_VIOLATION",
    "CRYPTO_BUFFER_EXCEEDED",
    "KEY_UPDATE_ERROR",
    "AEAD_LIMIT_REACHED",
    "INVALID_TOKEN",
    "Code::crypto",
];

/// Classify a ConnectionLost reason (Debug form). Ok(code) for a local transport error with a
/// standard code, Ok("peer") when the peer closed, Err for anything else.
fn classify(reason: &str) -> Result<&'static str, String> {
    if reason.starts_with("ConnectionClosed(") || reason.starts_with("ApplicationClosed(") {
        return Ok("peer");
    }
    if reason == "Reset" {
        // a stateless reset is something the peer's endpoint sent (typically because hostile
        // connection-ID frames made the victim use a CID the attacker's own stack cannot route)
        return Ok("peer");
    }
    if reason.starts_with("TransportError(") {
        for c in STD_CODES {
            if reason.contains(&format!("code: {c}")) {
                return Ok(c);
            }
        }
        if reason.contains("code: INTERNAL_ERROR") && reason.contains("too many gaps") {
            return Ok("INTERNAL_ERROR(gaps)");
        }
        return Err(format!("transport error outside the classes QUIC prescribes for peer input: {reason}"));
    }
    Err(format!("connection ended with {reason}, not with a transport error"))
}

fn tail_checks(s: &mut Sys, out: &mut CaseOut, viol: &mut Vec<String>) {
    s.finish_bystander(viol);
    for v in s.w.all_violations() {
        // monitors that stay meaningful with a hostile peer: timer settling, routing, drained
        // silence, bystander data integrity
        if matches!(v.prop, "C20" | "C09" | "C03") || (v.prop == "C01" && v.msg.contains(&format!("pair {:x}", s.by_pair))) {
            viol.push(format!("[{}] {}", v.prop, v.msg));
        }
    }
    out.cnt.inc("c03.bystander_checks");
}

// ---------------------------------------------------------------------------------------------
// frame-class
// ---------------------------------------------------------------------------------------------

struct ClassProbe {
    name: &'static str,
    bytes: Vec<u8>,
    /// admissible codes; empty = must be ignored
    codes: Vec<&'static str>,
    /// ignoring it is admissible too
    lenient: bool,
    /// frames to send (in an earlier packet) first
    prelude: Vec<u8>,
}

impl ClassProbe {
    /// Probes that hand the victim bogus connection IDs (or take its own away) break the path
    /// back to the attacker's quinn: what that one then observes says nothing about the victim.
    fn path_intact(&self) -> bool {
        !self.name.contains("CONNECTION_ID")
    }
}

fn class_probe(r: &mut Rng, vc: &VictimCfg) -> ClassProbe {
    let a_bit = if vc.is_server { 0u64 } else { 1 }; // attacker-initiated streams
    let v_bit = 1 - a_bit;
    let mut b = vec![];
    let mut prelude = vec![];
    let mk = |name, bytes, codes: &[&'static str], lenient, prelude| ClassProbe { name, bytes, codes: codes.to_vec(), lenient, prelude };
    let n = 30;
    match r.below(n) {
        0 => {
            put_var(&mut b, *r.pick(&[0x20, 0x21, 0x2f, 0x32, 0x3f]));
            mk("unknown frame type", b, &["FRAME_ENCODING_ERROR"], false, prelude)
        }
        1 => {
            put_var(&mut b, *r.pick(&[0x40, 0x1234, 0xff04de1a, VMAX]));
            mk("unknown multi-byte frame type", b, &["FRAME_ENCODING_ERROR"], false, prelude)
        }
        2 => {
            b.push(0x0a);
            put_var(&mut b, a_bit);
            put_var(&mut b, 100);
            b.extend_from_slice(&[1, 2, 3]);
            mk("STREAM shorter than its length", b, &["FRAME_ENCODING_ERROR"], false, prelude)
        }
        3 => {
            b.push(0x10);
            b.push(0xc0);
            mk("truncated varint", b, &["FRAME_ENCODING_ERROR"], false, prelude)
        }
        4 => {
            ack_raw(&mut b, 1_000_000 + r.below(1000), 0, 0, &[], None);
            mk("ACK of a packet never sent", b, &["PROTOCOL_VIOLATION"], false, prelude)
        }
        5 => {
            ack_raw(&mut b, 3, 0, 4 + r.below(100), &[], None);
            mk("ACK first range larger than largest", b, &["FRAME_ENCODING_ERROR"], false, prelude)
        }
        6 => {
            ack_raw(&mut b, 10, 0, 1, &[(20, 0)], None);
            mk("ACK gap below zero", b, &["FRAME_ENCODING_ERROR"], false, prelude)
        }
        7 => {
            Frame::Stream { id: (r.below(3) << 2) | 2 | v_bit, off: 0, fin: false, data: vec![1], explicit_len: true, explicit_off: false }.encode(&mut b);
            mk("STREAM on the victim's send-only stream", b, &["STREAM_STATE_ERROR"], false, prelude)
        }
        8 => {
            Frame::Stream { id: ((5 + r.below(3)) << 2) | v_bit, off: 0, fin: false, data: vec![1], explicit_len: true, explicit_off: false }.encode(&mut b);
            mk("STREAM on a bidirectional stream the victim has not opened", b, &["STREAM_STATE_ERROR"], false, prelude)
        }
        9 => {
            Frame::MaxStreamData { id: (r.below(3) << 2) | 2 | a_bit, max: bv(r) }.encode(&mut b);
            mk("MAX_STREAM_DATA on the victim's receive-only stream", b, &["STREAM_STATE_ERROR"], false, prelude)
        }
        10 => {
            Frame::MaxStreamData { id: ((5 + r.below(3)) << 2) | (r.below(2) << 1) | v_bit, max: bv(r) }.encode(&mut b);
            mk("MAX_STREAM_DATA on a stream the victim has not opened", b, &["STREAM_STATE_ERROR"], false, prelude)
        }
        11 => {
            Frame::StopSending { id: (r.below(3) << 2) | 2 | a_bit, code: bv(r) }.encode(&mut b);
            mk("STOP_SENDING on the victim's receive-only stream", b, &["STREAM_STATE_ERROR"], false, prelude)
        }
        12 => {
            Frame::StopSending { id: ((5 + r.below(3)) << 2) | (r.below(2) << 1) | v_bit, code: bv(r) }.encode(&mut b);
            mk("STOP_SENDING on a stream the victim has not opened", b, &["STREAM_STATE_ERROR"], false, prelude)
        }
        13 => {
            Frame::ResetStream { id: (r.below(3) << 2) | 2 | v_bit, code: 1, final_size: 0 }.encode(&mut b);
            mk("RESET_STREAM on the victim's send-only stream", b, &["STREAM_STATE_ERROR"], false, prelude)
        }
        14 => {
            Frame::MaxStreams { bidi: r.bool(), max: (1 << 60) + 1 + r.below(1000) }.encode(&mut b);
            mk("MAX_STREAMS above 2^60", b, &["FRAME_ENCODING_ERROR", "STREAM_LIMIT_ERROR"], false, prelude)
        }
        15 => {
            Frame::StreamsBlocked { bidi: r.bool(), limit: (1 << 60) + 1 + r.below(1000) }.encode(&mut b);
            mk("STREAMS_BLOCKED above 2^60", b, &["FRAME_ENCODING_ERROR", "STREAM_LIMIT_ERROR"], false, prelude)
        }
        16 if vc.cid_len > 0 || true => {
            let seq = 1 + r.below(5);
            Frame::NewConnectionId { seq, retire_prior_to: seq + 1 + r.below(3), cid: r.bytes(8), token: [7; 16] }.encode(&mut b);
            mk("NEW_CONNECTION_ID retiring beyond its own sequence number", b, &["FRAME_ENCODING_ERROR", "PROTOCOL_VIOLATION"], false, prelude)
        }
        17 => {
            b.push(0x18);
            put_var(&mut b, 1);
            put_var(&mut b, 0);
            let len = *r.pick(&[0u8, 21, 200]);
            b.push(len);
            b.extend(std::iter::repeat(9).take(len as usize + 16));
            mk("NEW_CONNECTION_ID with an illegal CID length", b, &["FRAME_ENCODING_ERROR", "PROTOCOL_VIOLATION"], false, prelude)
        }
        18 => {
            // more CIDs than the victim's active_connection_id_limit (quinn advertises 5)
            for seq in 1..=(6 + r.below(6)) {
                Frame::NewConnectionId { seq, retire_prior_to: 0, cid: { let mut c = r.bytes(8); c[0] = seq as u8; c }, token: { let mut t = [0u8; 16]; t[0] = seq as u8; t } }.encode(&mut b);
            }
            // a victim that sends with zero-length destination CIDs must reject the frame anyway
            mk("NEW_CONNECTION_ID beyond active_connection_id_limit", b, &["CONNECTION_ID_LIMIT_ERROR", "PROTOCOL_VIOLATION"], false, prelude)
        }
        19 => {
            Frame::RetireConnectionId { seq: 1000 + r.below(1000) }.encode(&mut b);
            mk("RETIRE_CONNECTION_ID for a sequence number never issued", b, &["PROTOCOL_VIOLATION"], false, prelude)
        }
        20 => {
            Frame::HandshakeDone.encode(&mut b);
            if vc.is_server {
                mk("HANDSHAKE_DONE sent to a server", b, &["PROTOCOL_VIOLATION"], false, prelude)
            } else {
                mk("repeated HANDSHAKE_DONE sent to a client", b, &[], false, prelude)
            }
        }
        21 => {
            if vc.is_server {
                Frame::NewToken { token: rb(r, 30, 1) }.encode(&mut b);
                mk("NEW_TOKEN sent to a server", b, &["PROTOCOL_VIOLATION"], false, prelude)
            } else {
                Frame::NewToken { token: vec![] }.encode(&mut b);
                mk("empty NEW_TOKEN", b, &["FRAME_ENCODING_ERROR"], false, prelude)
            }
        }
        22 => {
            Frame::PathResponse(r.u64()).encode(&mut b);
            mk("unsolicited PATH_RESPONSE", b, &["PROTOCOL_VIOLATION"], true, prelude)
        }
        23 => {
            Frame::Stream { id: a_bit, off: VMAX - 3, fin: false, data: vec![1; 10], explicit_len: true, explicit_off: true }.encode(&mut b);
            mk("STREAM whose end offset exceeds 2^62-1", b, &["FRAME_ENCODING_ERROR", "FLOW_CONTROL_ERROR", "STREAM_LIMIT_ERROR"], false, prelude)
        }
        24 => {
            for _ in 0..1 + r.below(200) {
                b.push(if r.bool() { 0 } else { 1 });
            }
            mk("PADDING / PING only", b, &[], false, prelude)
        }
        25 => {
            put_var_len(&mut b, 0x01, *r.pick(&[2usize, 4, 8]));
            mk("PING with a non-minimal frame type encoding", b, &["PROTOCOL_VIOLATION", "FRAME_ENCODING_ERROR"], true, prelude)
        }
        26 => {
            // RETIRE_CONNECTION_ID is meaningless towards an endpoint that issued zero-length CIDs
            Frame::RetireConnectionId { seq: 0 }.encode(&mut b);
            if vc.cid_len == 0 {
                mk("RETIRE_CONNECTION_ID towards a zero-length-CID endpoint", b, &["PROTOCOL_VIOLATION"], false, prelude)
            } else {
                b.clear();
                Frame::RetireConnectionId { seq: 50 + r.below(50) }.encode(&mut b);
                mk("RETIRE_CONNECTION_ID for a sequence number never issued", b, &["PROTOCOL_VIOLATION"], false, prelude)
            }
        }
        27 => {
            // NEW_CONNECTION_ID that re-uses a sequence number with a different CID
            Frame::NewConnectionId { seq: 1, retire_prior_to: 0, cid: vec![1; 8], token: [1; 16] }.encode(&mut prelude);
            Frame::NewConnectionId { seq: 1, retire_prior_to: 0, cid: vec![2; 8], token: [1; 16] }.encode(&mut b);
            mk("NEW_CONNECTION_ID changing the CID of a known sequence number", b, &["PROTOCOL_VIOLATION"], true, prelude)
        }
        28 => {
            Frame::AckFrequency { seq: 0, threshold: bv(r), max_ack_delay: 0, reordering: bv(r) }.encode(&mut b);
            // max_ack_delay below the victim's min_ack_delay
            mk("ACK_FREQUENCY with a max_ack_delay below min_ack_delay", b, &["PROTOCOL_VIOLATION", "FRAME_ENCODING_ERROR"], false, prelude)
        }
        _ => {
            Frame::Crypto { off: VMAX - 3, data: vec![1; 10] }.encode(&mut b);
            mk("CRYPTO whose end offset exceeds 2^62-1", b, &["FRAME_ENCODING_ERROR", "CRYPTO_BUFFER_EXCEEDED"], false, prelude)
        }
    }
}

fn class_case(seed: u64, trace: bool) -> CaseOut {
    let mut r = Rng::new(seed ^ 0xC03A);
    let mut out = CaseOut::default();
    let vc = victim_cfg(&mut r);
    let probe = class_probe(&mut r, &vc);
    let mut net = NetCfg::default();
    net.latency_ns = 1_000_000;
    let Some(mut s) = build(seed, &vc, &mut r, &[], net, None) else {
        out.inconclusive = Some("world could not be built".into());
        return out;
    };
    if trace {
        s.w.trace = Some(vec![]);
    }
    settle(&mut s.w, 800);
    s.resolve(&vc);
    let mut viol = vec![];
    let pre_v = s.victim_lost();
    let pre_a = s.attacker_lost();
    if s.victim.1 == usize::MAX || s.attacker.1 == usize::MAX || !pre_v.is_empty() || !pre_a.is_empty() || !s.w.all_connected() {
        // nothing hostile was sent yet: a handshake that fails here is not this group's business
        out.inconclusive = Some(format!("handshake did not complete cleanly (victim {pre_v:?} attacker {pre_a:?})"));
        return out;
    }
    if !probe.prelude.is_empty() {
        s.inject(2, probe.prelude.clone());
        settle(&mut s.w, 800);
    }
    let mid_v = s.victim_lost();
    if mid_v.is_empty() {
        s.inject(2, probe.bytes.clone());
        let quiet = settle(&mut s.w, 1500);
        out.cnt.inc("c03.class_probes");
        out.cnt.inc(leak_prefixed("c03.class.", probe.name));
        let lost = s.victim_lost();
        let alost = s.attacker_lost();
        if !quiet {
            viol.push("the world did not become quiet within 1500 rounds after one hostile packet".into());
        }
        if lost.len() > 1 {
            viol.push(format!("ConnectionLost reported {} times: {lost:?}", lost.len()));
        }
        match lost.first().map(|l| classify(l)) {
            None => {
                if !probe.codes.is_empty() && !probe.lenient {
                    viol.push(format!("victim ignored the frame; QUIC prescribes {:?}", probe.codes));
                } else {
                    out.cnt.inc("c03.class_ignored_as_prescribed");
                    if probe.path_intact() && !alost.is_empty() {
                        viol.push(format!("victim stayed up but its peer was closed: {alost:?}"));
                    }
                }
            }
            Some(Ok("peer")) => {
                // the attacker's own quinn objected to something the victim sent in response
                out.cnt.inc("c03.class_peer_closed_first");
            }
            Some(Ok(code)) => {
                if probe.codes.is_empty() {
                    viol.push(format!("victim closed with {code} on input it should ignore: {lost:?}"));
                } else if !probe.codes.contains(&code) {
                    viol.push(format!("victim closed with {code}; QUIC prescribes {:?}: {lost:?}", probe.codes));
                } else {
                    out.cnt.inc("c03.class_closed_as_prescribed");
                    if probe.path_intact() && !(alost.len() == 1 && alost[0].contains(code)) {
                        viol.push(format!("victim closed with {code} but its peer was told {alost:?}"));
                    }
                }
            }
            Some(Err(e)) => viol.push(e),
        }
    } else {
        out.inconclusive = Some(format!("prelude already closed the connection: {mid_v:?}"));
    }
    tail_checks(&mut s, &mut out, &mut viol);
    let desc = format!("victim={} cid_len={} attacker_cid_len={} ack_freq={:?} dgram={:?} probe={}", if vc.is_server { "server" } else { "client" }, vc.cid_len, vc.attacker_cid_len, vc.t.ack_freq, vc.t.dgram_recv_buf, probe.name);
    for m in viol {
        out.viol.push(Violation { prop: "C03", msg: format!("[{}] {m} | {desc} bytes={}", probe.name, crate::util::hex(&probe.bytes[..probe.bytes.len().min(48)])) });
    }
    out.nontrivial = out.cnt.get("c03.class_probes") > 0;
    out.fp = fingerprint(&[probe.name, &crate::util::hex(&probe.bytes[..probe.bytes.len().min(24)])], &[vc.is_server as u64, vc.cid_len as u64]);
    out.sample = Some(json!({ "config": desc }));
    if trace {
        out.trace = s.w.trace.take();
    }
    out
}

// ---------------------------------------------------------------------------------------------
// frame-fuzz
// ---------------------------------------------------------------------------------------------

fn fuzz_packet(r: &mut Rng, desc: &mut Vec<String>) -> Vec<u8> {
    let mut b = vec![];
    for _ in 0..1 + r.below(4) {
        let n = if r.chance(75) { gen_frame(r, &mut b) } else { gen_malformed(r, &mut b) };
        desc.push(n.to_string());
        if b.len() > 900 {
            break;
        }
    }
    b.truncate(1000);
    b
}

fn fuzz_case(seed: u64, trace: bool) -> CaseOut {
    let mut r = Rng::new(seed ^ 0xC03B);
    let mut out = CaseOut::default();
    let vc = victim_cfg(&mut r);
    let mut desc = vec![];
    // frames for the Initial / Handshake spaces are queued before the first flight
    let mut pre = vec![];
    let early = r.chance(35);
    if early {
        for _ in 0..1 + r.below(2) {
            let space = r.usize(2);
            desc.push(format!("space{space}:"));
            pre.push((space, fuzz_packet(&mut r, &mut desc)));
        }
    }
    let mut net = NetCfg::default();
    net.latency_ns = 1_000_000;
    if r.chance(30) {
        net.loss_pm = 30;
        net.dup_pm = 30;
        net.reorder_pm = 100;
        net.fault_until_ns = 2_000_000_000;
    }
    let Some(mut s) = build(seed, &vc, &mut r, &pre, net, None) else {
        out.inconclusive = Some("world could not be built".into());
        return out;
    };
    if trace {
        s.w.trace = Some(vec![]);
    }
    let mut viol = vec![];
    settle(&mut s.w, 1500);
    s.resolve(&vc);
    if early {
        out.cnt.inc("c03.fuzz_handshake_space_cases");
    }
    let n = r.below(12);
    for _ in 0..n {
        if s.victim.1 == usize::MAX || !s.victim_lost().is_empty() {
            break;
        }
        desc.push("space2:".into());
        let pkt = fuzz_packet(&mut r, &mut desc);
        if trace {
            eprintln!("FUZZ packet {} ({})", crate::util::hex(&pkt), desc.join(","));
        }
        if !s.inject(2, pkt) {
            break;
        }
        out.cnt.inc("c03.fuzz_packets");
        if !settle(&mut s.w, 1500) {
            let now = s.w.instant();
            let timers: Vec<String> = s.w.eps.iter().enumerate().flat_map(|(ei, e)| e.conns.iter().map(move |(h, c)| format!("{ei}/{h} {} {:?}", c.c.verif_probe().state, c.c.verif_probe().timers.iter().map(|(n, t)| format!("{n}@{:?}", t.checked_duration_since(now).map(|d| d.as_nanos() as i128).unwrap_or_else(|| -(now.duration_since(*t).as_nanos() as i128)))).collect::<Vec<_>>()))).collect();
            viol.push(format!("the world did not become quiet within 1500 rounds after one hostile packet; timers relative to now: {timers:?}"));
            break;
        }
    }
    let lost = s.victim_lost();
    if lost.len() > 1 {
        viol.push(format!("ConnectionLost reported {} times: {lost:?}", lost.len()));
    }
    match lost.first().map(|l| classify(l)) {
        None => out.cnt.inc("c03.fuzz_survived"),
        Some(Ok(c)) => out.cnt.inc(leak_prefixed("c03.fuzz_closed.", c)),
        Some(Err(e)) => viol.push(e),
    }
    tail_checks(&mut s, &mut out, &mut viol);
    let cfg = format!("victim={} cid_len={} attacker_cid_len={} ack_freq={:?} dgram={:?} limits=({},{},{},{})", if vc.is_server { "server" } else { "client" }, vc.cid_len, vc.attacker_cid_len, vc.t.ack_freq, vc.t.dgram_recv_buf, vc.t.stream_rwnd, vc.t.rwnd, vc.t.max_bidi, vc.t.max_uni);
    for m in viol {
        out.viol.push(Violation { prop: "C03", msg: format!("{m} | {cfg} frames={}", desc.join(",")) });
    }
    out.nontrivial = out.cnt.get("c03.fuzz_packets") > 0 || early;
    out.fp = fingerprint(&[&desc.join(",")], &[vc.is_server as u64, seed]);
    out.sample = Some(json!({ "config": cfg, "frames": desc.join(",") }));
    if trace {
        out.trace = s.w.trace.take();
    }
    out
}

// ---------------------------------------------------------------------------------------------
// flood: bounded memory, bounded work
// ---------------------------------------------------------------------------------------------

fn flood_packet(r: &mut Rng, kind: u64, i: u64, a_bit: u64, sel: u64, out: &mut Vec<u8>) {
    match kind {
        0 => {
            // CID churn: every frame retires everything before it
            for k in 0..4 {
                let seq = 1 + i * 4 + k;
                let mut cid = r.bytes(8);
                cid[..4].copy_from_slice(&(seq as u32).to_be_bytes());
                let mut tok = [0u8; 16];
                tok[..8].copy_from_slice(&seq.to_be_bytes());
                Frame::NewConnectionId { seq, retire_prior_to: seq, cid, token: tok }.encode(out);
            }
        }
        1 => {
            for _ in 0..40 {
                Frame::PathChallenge(r.u64()).encode(out);
            }
        }
        2 => {
            // one-byte chunks with gaps on few streams
            for _ in 0..60 {
                Frame::Stream { id: (r.below(3) << 2) | a_bit, off: r.below(900) * 2, fin: false, data: vec![7], explicit_len: true, explicit_off: true }.encode(out);
            }
        }
        3 => {
            for _ in 0..40 {
                match r.below(5) {
                    0 => Frame::MaxStreams { bidi: r.bool(), max: r.below(1 << 40) }.encode(out),
                    1 => Frame::MaxData(r.below(1 << 40)).encode(out),
                    2 => Frame::DataBlocked(r.below(1 << 40)).encode(out),
                    3 => Frame::StreamsBlocked { bidi: r.bool(), limit: r.below(1 << 20) }.encode(out),
                    _ => Frame::StreamDataBlocked { id: (r.below(3) << 2) | a_bit, limit: r.below(1 << 20) }.encode(out),
                }
            }
        }
        4 => {
            // open, finish and abandon streams as fast as the limits allow (ids advance with i)
            for k in 0..8 {
                let idx = i * 8 + k;
                Frame::Stream { id: (idx << 2) | (r.below(2) << 1) | a_bit, off: 0, fin: true, data: vec![1, 2, 3], explicit_len: true, explicit_off: false }.encode(out);
            }
        }
        5 => {
            // many small datagrams per packet; the payload size is fixed per case and may be zero
            let len = dgram_flood_len(sel);
            for _ in 0..(1000 / (len + 3)).min(400) {
                Frame::Datagram { data: r.bytes(len), explicit_len: true }.encode(out);
            }
        }
        6 => {
            // ACKs with many ranges over packets that exist
            let more: Vec<(u64, u64)> = (0..30).map(|_| (0, 0)).collect();
            ack_raw(out, 70 + i.min(10), r.below(1000), 0, &more, None);
            Frame::Ping.encode(out);
        }
        7 => {
            for _ in 0..20 {
                Frame::ResetStream { id: (r.below(3) << 2) | a_bit, code: r.below(10), final_size: 0 }.encode(out);
                Frame::StopSending { id: (r.below(3) << 2) | a_bit, code: r.below(10) }.encode(out);
            }
        }
        8 => {
            for _ in 0..10 {
                Frame::NewToken { token: r.bytes(40) }.encode(out);
            }
        }
        9 => {
            for _ in 0..20 {
                Frame::Crypto { off: 5000 + r.below(5000), data: vec![1] }.encode(out);
                Frame::ImmediateAck.encode(out);
            }
        }
        _ => {
            // (ack-withhold: the network loses everything the victim sends to this peer)
            Frame::Ping.encode(out);
            Frame::ImmediateAck.encode(out);
        }
    }
}

fn dgram_flood_len(sel: u64) -> usize {
    [0, 1, 20, 20, 200][(sel % 5) as usize]
}

const FLOOD_KINDS: &[&str] = &["cid-churn", "path-challenge", "stream-gaps", "credit-frames", "stream-cycling", "datagrams", "ack-ranges", "reset-stop", "new-token", "crypto-gaps", "ack-withhold"];

fn flood_case(seed: u64, trace: bool, packets: u64) -> CaseOut {
    let (mut out, growth_over) = flood_case_inner(seed, trace, packets, std::env::var("QV_ALLOC_SITES").is_ok());
    if growth_over {
        // attribute the growth: the case is a pure function of its seed, so run it again with the
        // allocator remembering where every live allocation was made
        let (again, _) = flood_case_inner(seed, false, packets, true);
        let top = again.sample.as_ref().and_then(|s| s.get("top_sites").cloned()).unwrap_or(json!([]));
        let first = top.get(0).and_then(|t| t.as_str()).and_then(|t| t.split(": ").nth(1)).and_then(|t| t.split(" <- ").next()).unwrap_or("?").to_string();
        for v in out.viol.iter_mut().filter(|v| v.msg.contains("the thread retains")) {
            v.msg = format!("[most retained by {first}] {} | largest retained allocations made in: {top}", v.msg);
        }
    }
    out
}

/// Returns the case's outcome and whether the memory bound was exceeded. With `sites` the
/// allocator records a backtrace per allocation (slow) and the outcome's sample lists the sites
/// that retain the most.
fn flood_case_inner(seed: u64, trace: bool, packets: u64, sites: bool) -> (CaseOut, bool) {
    let mut r = Rng::new(seed ^ 0xC03C);
    let mut out = CaseOut::default();
    let mut vc = victim_cfg(&mut r);
    let mut kind = r.below(FLOOD_KINDS.len() as u64);
    if let Some(k) = std::env::var("QV_FLOOD_KIND").ok().and_then(|v| v.parse().ok()) {
        kind = k; // debugging aid
    }
    let packets = std::env::var("QV_FLOOD_PACKETS").ok().and_then(|v| v.parse().ok()).unwrap_or(packets);
    if kind == 8 {
        vc.is_server = false; // NEW_TOKEN is only legal towards a client
    }
    if kind == 0 {
        vc.attacker_cid_len = 8;
    }
    let mut net = NetCfg::default();
    net.latency_ns = 200_000;
    let Some(mut s) = build(seed, &vc, &mut r, &[], net, None) else {
        out.inconclusive = Some("world could not be built".into());
        return (out, false);
    };
    // (no event trace in this group: it would be counted as retained memory)
    if trace && std::env::var("QV_FLOOD_TRACE").is_ok() {
        s.w.trace = Some(vec![]);
    }
    settle(&mut s.w, 800);
    s.resolve(&vc);
    let mut viol = vec![];
    if s.victim.1 == usize::MAX || !s.victim_lost().is_empty() || !s.w.all_connected() {
        out.inconclusive = Some("handshake did not complete".into());
        return (out, false);
    }
    let a_bit = if vc.is_server { 0 } else { 1 };
    let sel = r.below(5);
    if kind == 10 {
        let a = s.w.eps[s.attacker.0].addr;
        s.w.netcfg.blackhole_dst.push(a);
    }
    // let the bystander finish first so that its buffers do not blur the measurement
    let mut tmp = vec![];
    s.finish_bystander(&mut tmp);
    viol.extend(tmp);
    settle(&mut s.w, 800);
    // warm-up: a tenth of the flood, so that lazily created state exists
    let run = |s: &mut Sys, r: &mut Rng, from: u64, n: u64, out: &mut CaseOut, viol: &mut Vec<String>| -> u64 {
        let mut sent = 0;
        for i in from..from + n {
            if !s.victim_lost().is_empty() {
                break;
            }
            let mut b = vec![];
            flood_packet(r, kind, i, a_bit, sel, &mut b);
            b.truncate(1100);
            if !s.inject(2, b) {
                break;
            }
            let tx0 = s.w.eps[s.victim.0].conns[&s.victim.1].c.stats().udp_tx.datagrams;
            let atx0 = s.w.eps[s.attacker.0].conns[&s.attacker.1].c.stats().udp_tx.datagrams;
            let t_before = s.w.now;
            let quiet = settle(&mut s.w, 400);
            if std::env::var("QV_FLOOD_TRACE").is_ok() && i < 3 {
                eprintln!("FLOOD packet {i}: quiet={quiet} dt={} timers {:?} q={}", s.w.now - t_before, timers_desc(&s.w), s.w.net.q.peek().map(|d| format!("at+{} {}->{} len {} first {:02x}", d.at as i128 - s.w.now as i128, d.src, d.dst, d.data.len(), d.data[0])).unwrap_or_default());
            }
            // the hostile frames must actually have left the attacker's stack
            let queued = |s: &Sys| s.w.eps[s.attacker.0].conns.get(&s.attacker.1).map_or(0, |c| c.c.verif_probe().inject_queued);
            let mut extra = 0;
            while queued(s) > 0 && extra < 2000 && s.w.step() {
                extra += 1;
            }
            if queued(s) > 0 {
                out.cnt.inc("c03.flood_stalled_attacker");
                break;
            }
            let tx1 = s.w.eps[s.victim.0].conns.get(&s.victim.1).map_or(tx0, |c| c.c.stats().udp_tx.datagrams);
            // the attacker's own stack keeps talking (acks, probes) while the world settles
            let atx = s.w.eps[s.attacker.0].conns.get(&s.attacker.1).map_or(atx0, |c| c.c.stats().udp_tx.datagrams) - atx0;
            out.cnt.inc("c03.flood_packets");
            sent += 1;
            if !quiet {
                viol.push(format!("flood packet {i}: the world did not become quiet within 400 rounds"));
                break;
            }
            if tx1 - tx0 > 64 + 4 * atx {
                viol.push(format!("flood packet {i}: the victim sent {} datagrams while its peer sent {atx} (one of them hostile)", tx1 - tx0));
                break;
            }
        }
        sent
    };
    let warm = (packets / 10).max(5);
    let w_sent = run(&mut s, &mut r, 0, warm, &mut out, &mut viol);
    // the harness's own bookkeeping (monitor tables, traces, ledgers) grows with every datagram;
    // measure what the *victim connection and endpoint* retain by dropping harness logs first
    s.w.recent.clear();
    s.w.counted.clear();
    s.w.mon.dgram_arrivals.clear();
    let live0 = crate::alloc::live();
    let total0 = crate::alloc::total();
    let p0 = s.w.eps[s.victim.0].conns.get(&s.victim.1).map(|c| c.c.verif_probe());
    if sites {
        crate::alloc::sites_begin();
    }
    let f_sent = run(&mut s, &mut r, warm, packets, &mut out, &mut viol);
    s.w.recent.clear();
    s.w.counted.clear();
    s.w.mon.dgram_arrivals.clear();
    let mut top_sites = vec![];
    if sites {
        for (b, n, site) in crate::alloc::sites_report(12) {
            if std::env::var("QV_ALLOC_SITES").is_ok() {
                eprintln!("ALLOCSITE {b} bytes in {n} allocations: {site}");
            }
            if top_sites.len() < 2 {
                top_sites.push(format!("{b} bytes / {n} allocations: {}", site.split(" <- ").take(2).collect::<Vec<_>>().join(" <- ")));
            }
        }
    }
    let mut growth_over = false;
    let live1 = crate::alloc::live();
    let total1 = crate::alloc::total();
    let p1 = s.w.eps[s.victim.0].conns.get(&s.victim.1).map(|c| c.c.verif_probe());
    let lost = s.victim_lost();
    out.cnt.inc(leak_prefixed("c03.flood.", FLOOD_KINDS[kind as usize]));
    if total1 == total0 {
        out.inconclusive = Some("counting allocator not installed: memory growth unobservable".into());
    } else if lost.is_empty() && f_sent == packets {
        out.cnt.inc("c03.flood_memory_checks");
        let growth = live1 - live0;
        out.cnt.add("c03.flood_growth_bytes_max", 0);
        // the harness's per-datagram logs were dropped above and what remains of its bookkeeping
        // is keyed by address / connection: measured growth of a silent flood is 0 to a few bytes.
        // Allow 64 KiB plus 16 bytes per flood packet, plus what the victim may legitimately
        // buffer (its windows, its datagram buffer)
        // a buffered datagram costs its payload plus bookkeeping (a `Bytes` handle and its share of
        // the packet buffer it points into): up to `buffer / payload` datagrams can be held
        let dgram_slots = if kind == 5 { vc.t.dgram_recv_buf.unwrap_or(0).min(2 << 20) as i64 / dgram_flood_len(sel).max(1) as i64 } else { 0 };
        let legit = 96 * dgram_slots + vc.t.rwnd.min(vc.t.stream_rwnd.saturating_mul(vc.t.max_bidi + vc.t.max_uni)).min(4 << 20) as i64 * 3 + vc.t.dgram_recv_buf.unwrap_or(0).min(2 << 20) as i64 * 2 + 32768 * (vc.t.max_bidi + vc.t.max_uni).min(64) as i64;
        let bound = 65536 + 16 * packets as i64 + legit;
        if growth > bound {
            growth_over = !sites;
            viol.push(format!("after {packets} more flood packets ({}) the thread retains {growth} more bytes (bound {bound}); probe before {:?} after {:?}", FLOOD_KINDS[kind as usize], p0.as_ref().map(|p| (&p.streams.map_sizes, p.streams.recv_allocated, p.dgram_incoming)), p1.as_ref().map(|p| (&p.streams.map_sizes, p.streams.recv_allocated, p.dgram_incoming))));
        }
    } else if let Some(l) = lost.first() {
        match classify(l) {
            Ok(c) => out.cnt.inc(leak_prefixed("c03.flood_closed.", c)),
            Err(e) => viol.push(e),
        }
    }
    let _ = w_sent;
    tail_checks(&mut s, &mut out, &mut viol);
    let kind_name = if kind == 5 { format!("datagrams[{}]", dgram_flood_len(sel)) } else { FLOOD_KINDS[kind as usize].to_string() };
    let cfg = format!("flood={} victim={} cid_len={} limits=({},{},{},{}) dgram={:?}", kind_name, if vc.is_server { "server" } else { "client" }, vc.cid_len, vc.t.stream_rwnd, vc.t.rwnd, vc.t.max_bidi, vc.t.max_uni, vc.t.dgram_recv_buf);
    for m in viol {
        out.viol.push(Violation { prop: "C03", msg: format!("{m} | {cfg}") });
    }
    out.nontrivial = out.cnt.get("c03.flood_packets") > 0;
    out.fp = fingerprint(&[&cfg], &[seed]);
    out.sample = Some(json!({ "config": cfg, "retained_growth_bytes": live1 - live0, "lost": lost, "top_sites": top_sites }));
    if std::env::var("QV_FLOOD_KIND").is_ok() {
        eprintln!("FLOODDBG {cfg} packets={packets} growth={} sent_packets={:?}", live1 - live0, p1.as_ref().map(|p| p.sent_packets));
    }
    out.trace = s.w.trace.take();
    (out, growth_over)
}

// ---------------------------------------------------------------------------------------------
// hostile transport parameters
// ---------------------------------------------------------------------------------------------

fn parse_tlvs(b: &[u8]) -> Vec<(u64, Vec<u8>)> {
    let mut rd = crate::wire::Rd::new(b);
    let mut v = vec![];
    while rd.left() > 0 {
        let Ok(id) = rd.var() else { break };
        let Ok(len) = rd.var() else { break };
        let Ok(val) = rd.take(len as usize) else { break };
        v.push((id, val.to_vec()));
    }
    v
}

fn enc_tlvs(v: &[(u64, Vec<u8>)]) -> Vec<u8> {
    let mut out = vec![];
    for (id, val) in v {
        put_var(&mut out, *id);
        put_var(&mut out, val.len() as u64);
        out.extend_from_slice(val);
    }
    out
}

fn var_bytes(v: u64) -> Vec<u8> {
    let mut o = vec![];
    put_var(&mut o, v);
    o
}

const INT_PARAMS: &[u64] = &[0x01, 0x03, 0x04, 0x05, 0x06, 0x07, 0x08, 0x09, 0x0a, 0x0b, 0x0e, 0x20, 0xff04de1b];

fn param_value(r: &mut Rng, id: u64) -> u64 {
    let special: &[u64] = match id {
        0x01 => &[0, 1, 2, 1000, 1 << 40, VMAX],
        0x03 => &[0, 1199, 1200, 1201, 1472, 65527, 65528, VMAX],
        0x08 | 0x09 => &[0, 1, 1 << 60, (1 << 60) + 1, VMAX],
        0x0a => &[0, 3, 19, 20, 21, 63, VMAX],
        0x0b => &[0, 1, 25, (1 << 14) - 1, 1 << 14, VMAX],
        0x0e => &[0, 1, 2, 3, 8, 1000, VMAX],
        0x20 => &[0, 1, 2, 100, 65535, 65536, VMAX],
        0xff04de1b => &[0, 1, 999, 1000, 24_999, 25_000, 25_001, 1_000_000, 16_383_000, 16_384_000, (1 << 24) - 1, 1 << 24, 1 << 40, VMAX],
        _ => &[0, 1, 100, 1 << 20, VMAX],
    };
    if r.chance(80) {
        *r.pick(special)
    } else {
        bv(r)
    }
}

fn mutate_params(r: &mut Rng, genuine: &[u8], desc: &mut Vec<String>) -> Vec<u8> {
    let mut t = parse_tlvs(genuine);
    if let Ok(forced) = std::env::var("QV_C03_PARAMS") {
        // debugging aid: "0xb=100,0xff04de1b=50000"
        for kv in forced.split(',') {
            let (k, v) = kv.split_once('=').unwrap();
            let id = u64::from_str_radix(k.trim_start_matches("0x"), 16).unwrap();
            let v: u64 = v.parse().unwrap();
            desc.push(format!("{id:#x}={v}"));
            let val = var_bytes(v);
            if let Some(e) = t.iter_mut().find(|e| e.0 == id) {
                e.1 = val;
            } else {
                t.push((id, val));
            }
        }
        return enc_tlvs(&t);
    }
    for _ in 0..1 + r.below(3) {
        match r.below(10) {
            0 | 1 | 2 | 3 => {
                // set (or add) an integer parameter to a boundary value
                let id = *r.pick(INT_PARAMS);
                let v = param_value(r, id);
                desc.push(format!("{id:#x}={v}"));
                let val = var_bytes(v);
                if let Some(e) = t.iter_mut().find(|e| e.0 == id) {
                    e.1 = val;
                } else {
                    t.push((id, val));
                }
            }
            4 => {
                // delete a parameter
                if !t.is_empty() {
                    let i = r.usize(t.len());
                    desc.push(format!("del {:#x}", t[i].0));
                    t.remove(i);
                }
            }
            5 => {
                // duplicate a parameter
                if !t.is_empty() {
                    let i = r.usize(t.len());
                    desc.push(format!("dup {:#x}", t[i].0));
                    let e = t[i].clone();
                    t.push(e);
                }
            }
            6 => {
                // wrong length for a known parameter
                let id = *r.pick(&[0x00u64, 0x02, 0x0c, 0x0d, 0x0f, 0x10, 0x2ab2, 0x01, 0x0b]);
                let len = *r.pick(&[0usize, 1, 3, 15, 16, 17, 21, 40]);
                desc.push(format!("{id:#x} len {len}"));
                let val = r.bytes(len);
                if let Some(e) = t.iter_mut().find(|e| e.0 == id) {
                    e.1 = val;
                } else {
                    t.push((id, val));
                }
            }
            7 => {
                // unknown / reserved parameter
                let id = *r.pick(&[27u64, 27 + 31, 0x11, 0x1f, 0x3fff, 0x7fff_ffff, VMAX]);
                desc.push(format!("unknown {id:#x}"));
                t.push((id, rb(r, 20, 0)));
            }
            8 => {
                // corrupt a CID-echo parameter
                let id = *r.pick(&[0x00u64, 0x0f, 0x10]);
                desc.push(format!("cid {id:#x} altered"));
                if let Some(e) = t.iter_mut().find(|e| e.0 == id) {
                    if e.1.is_empty() {
                        e.1 = vec![1];
                    } else {
                        e.1[0] ^= 1;
                    }
                } else {
                    t.push((id, r.bytes(8)));
                }
            }
            9 if r.bool() => {
                // a consistent (max_ack_delay, min_ack_delay) pair: min <= max, both anywhere
                let mad = *r.pick(&[1u64, 5, 25, 26, 100, 1000, (1 << 14) - 1]);
                let min = match r.below(4) {
                    0 => mad * 1000,
                    1 => mad * 1000 - r.below(mad * 1000).min(999),
                    2 => r.below(mad * 1000 + 1),
                    _ => 1 + r.below(30_000).min(mad * 1000 - 1),
                };
                desc.push(format!("0xb={mad}"));
                desc.push(format!("0xff04de1b={min}"));
                for (id, v) in [(0x0bu64, mad), (0xff04de1b, min)] {
                    let val = var_bytes(v);
                    if let Some(e) = t.iter_mut().find(|e| e.0 == id) {
                        e.1 = val;
                    } else {
                        t.push((id, val));
                    }
                }
            }
            _ => {
                if t.len() > 1 {
                    let j = r.usize(t.len());
                    t.swap(0, j);
                }
                desc.push("reorder".into());
            }
        }
    }
    let mut out = enc_tlvs(&t);
    match r.below(12) {
        0 => {
            let k = r.usize(out.len().max(1));
            out.truncate(k);
            desc.push(format!("truncate {k}"));
        }
        1 => {
            out.extend(rb(r, 5, 1));
            desc.push("trailing bytes".into());
        }
        2 => {
            out = rb(r, 60, 0);
            desc.push("random bytes".into());
        }
        _ => {}
    }
    out
}

fn params_case(seed: u64, trace: bool) -> CaseOut {
    let mut r = Rng::new(seed ^ 0xC03D);
    let mut out = CaseOut::default();
    let vc = victim_cfg(&mut r);
    let mut net = NetCfg::default();
    net.latency_ns = 1_000_000;
    // the attacker endpoint presents mutated parameters; the mutation is a function of the seed
    let desc = Arc::new(std::sync::Mutex::new(Vec::<String>::new()));
    let d2 = desc.clone();
    let mseed = r.u64();
    let rw: crate::nullcrypto::ParamRewrite = Arc::new(move |_side, genuine: Vec<u8>| {
        let mut r = Rng::new(mseed);
        let mut d = vec![];
        let m = mutate_params(&mut r, &genuine, &mut d);
        *d2.lock().unwrap() = d;
        m
    });
    let Some(mut s) = build(seed, &vc, &mut r, &[], net, Some(rw)) else {
        out.inconclusive = Some("world could not be built".into());
        return out;
    };
    if trace {
        s.w.trace = Some(vec![]);
    }
    let mut viol = vec![];
    let quiet = settle(&mut s.w, 2500);
    s.resolve(&vc);
    out.cnt.inc("c03.param_cases");
    if !quiet {
        viol.push("the world did not become quiet within 2500 rounds".into());
    }
    let lost = s.victim_lost();
    let d = desc.lock().unwrap().clone();
    if lost.len() > 1 {
        viol.push(format!("ConnectionLost reported {} times: {lost:?}", lost.len()));
    }
    let established = s.victim.1 != usize::MAX && lost.is_empty() && s.w.eps[s.victim.0].conns[&s.victim.1].app.connected;
    match lost.first().map(|l| classify(l)) {
        None => {
            if established {
                out.cnt.inc("c03.params_accepted");
                // exercise the arithmetic that uses the peer's values: traffic both ways, acks,
                // ack-frequency updates, idle timers
                for _ in 0..6u64 {
                    // honest traffic from the attacker's stack through its API (it respects the
                    // victim's limits by itself)
                    if let Some(c) = s.w.eps[s.attacker.0].conns.get_mut(&s.attacker.1) {
                        if !c.c.is_closed() {
                            c.c.ping();
                            if let Some(id) = c.c.streams().open(Dir::Uni) {
                                let _ = c.c.send_stream(id).write(&[3; 700]);
                                let _ = c.c.send_stream(id).finish();
                            }
                        }
                    }
                    if let Some(c) = s.w.eps[s.victim.0].conns.get_mut(&s.victim.1) {
                        if !c.c.is_closed() {
                            c.c.ping();
                            if let Some(id) = c.c.streams().open(Dir::Uni) {
                                let _ = c.c.send_stream(id).write(&[9; 3000]);
                            }
                        }
                    }
                    if !settle(&mut s.w, 1500) {
                        viol.push(format!("the world did not become quiet after traffic on a connection with hostile parameters; timers relative to now: {:?}", timers_desc(&s.w)));
                        break;
                    }
                }
                let lost = s.victim_lost();
                if let Some(l) = lost.first() {
                    match classify(l) {
                        Ok(c) => out.cnt.inc(leak_prefixed("c03.params_later_closed.", c)),
                        Err(_) if l == "TimedOut" && d.iter().any(|m| m.starts_with("0x1=") || m.starts_with("0x1 len")) => out.cnt.inc("c03.params_idle_timeout_honoured"),
                        Err(e) => viol.push(e),
                    }
                }
            } else {
                out.cnt.inc("c03.params_no_connection");
            }
        }
        Some(Err(_)) if lost[0] == "TimedOut" && d.iter().any(|m| m.starts_with("0x1=") || m.starts_with("0x1 len")) => {
            // the hostile parameters asked for a tiny idle timeout and got it
            out.cnt.inc("c03.params_idle_timeout_honoured");
        }
        Some(Ok(c)) => {
            out.cnt.inc(leak_prefixed("c03.params_closed.", c));
            if !matches!(c, "TRANSPORT_PARAMETER_ERROR" | "PROTOCOL_VIOLATION" | "peer" | "Code::crypto") {
                viol.push(format!("victim rejected hostile transport parameters with {c}; QUIC prescribes TRANSPORT_PARAMETER_ERROR: {lost:?}"));
            }
        }
        Some(Err(e)) => viol.push(e),
    }
    tail_checks(&mut s, &mut out, &mut viol);
    let cfg = format!("victim={} cid_len={} ack_freq={:?} mutations={d:?}", if vc.is_server { "server" } else { "client" }, vc.cid_len, vc.t.ack_freq);
    if trace {
        eprintln!("PARAMS {cfg} established={established} lost={:?} attacker_lost={:?}", s.victim_lost(), s.attacker_lost());
    }
    for m in viol {
        out.viol.push(Violation { prop: "C03", msg: format!("{m} | {cfg}") });
    }
    out.nontrivial = !d.is_empty();
    out.fp = fingerprint(&[&d.join(",")], &[vc.is_server as u64, vc.t.ack_freq.is_some() as u64]);
    out.sample = Some(json!({ "config": cfg }));
    if trace {
        out.trace = s.w.trace.take();
    }
    out
}

// ---------------------------------------------------------------------------------------------
// unauthenticated garbage
// ---------------------------------------------------------------------------------------------

/// Structure-aware mutation of a genuine datagram's first packet header.
/// Returns the mutated bytes and whether the mutation may make a server answer with a Version
/// Negotiation packet (which legitimately ends a client that has not heard from its server yet,
/// so such datagrams are only sent from foreign addresses).
fn mutate_header(r: &mut Rng, d: &[u8], to_client: bool) -> (Vec<u8>, bool) {
    let before = d.get(1..5).map(|x| x.to_vec());
    let b = mutate_header_inner(r, d, to_client);
    let version_touched = d.first().map_or(false, |f| f & 0x80 != 0) != b.first().map_or(false, |f| f & 0x80 != 0) || b.get(1..5).map(|x| x.to_vec()) != before;
    (b, version_touched)
}

fn mutate_header_inner(r: &mut Rng, d: &[u8], to_client: bool) -> Vec<u8> {
    let mut b = d.to_vec();
    if b.is_empty() {
        return vec![0xc0];
    }
    let long = b[0] & 0x80 != 0;
    match r.below(12) {
        0 => b[0] ^= 1 << r.below(8),
        1 if long && b.len() > 5 => {
            // version
            // (version 0 makes it a Version Negotiation packet, which may legitimately end a client
            // that has not heard from its server yet: only servers get those)
            let v: [u8; 4] = *r.pick(&[[0, 0, 0, 0], [0, 0, 0, 2], [0x0a, 0x1a, 0x2a, 0x3a], [0xff, 0, 0, 29], [0x6b, 0x33, 0x43, 0xcf]]);
            if !(to_client && v == [0, 0, 0, 0]) {
                b[1..5].copy_from_slice(&v);
            }
        }
        2 if long && b.len() > 6 => b[5] = *r.pick(&[0, 1, 20, 21, 255]), // dcid length
        3 if long && b.len() > 7 => {
            // scid length
            let dl = b[5] as usize;
            if 6 + dl < b.len() {
                b[6 + dl] = *r.pick(&[0, 1, 20, 21, 255]);
            }
        }
        4 if long => {
            // token length / payload length fields: overwrite a few bytes after the CIDs
            let dl = b[5] as usize;
            let sl = *b.get(6 + dl).unwrap_or(&0) as usize;
            let at = 7 + dl + sl;
            if at + 2 < b.len() {
                // (lengths just around what header protection needs - 4 bytes of packet number
                // plus a 16-byte sample - are the interesting small ones)
                let v = if r.bool() { r.below(48) } else { *r.pick(&[0u64, 1, 63, 16383, 1 << 20, VMAX]) };
                let enc = var_bytes(v);
                let n = enc.len().min(b.len() - at);
                b[at..at + n].copy_from_slice(&enc[..n]);
            }
        }
        5 => {
            // cut anywhere, or a few bytes after the header (too short for header protection)
            let k = if r.bool() { r.usize(b.len()) } else { (if long { 7 + b[5] as usize } else { 1 }) + r.usize(48) };
            b.truncate(k.clamp(1, b.len()));
        }
        6 => {
            // coalesce with garbage / with itself
            let mut tail = if r.bool() { rb(r, 60, 1) } else { d.to_vec() };
            b.append(&mut tail);
            b.truncate(1500);
        }
        7 => {
            for _ in 0..1 + r.below(6) {
                let i = r.usize(b.len().min(40));
                b[i] = r.below(256) as u8;
            }
        }
        8 if long => b[0] = (b[0] & 0xcf) | ((r.below(4) as u8) << 4), // long packet type
        9 => b[0] &= !0x40,                                            // fixed bit
        10 => {
            let n = 1 + r.usize(1400);
            b = r.bytes(n);
            b[0] = *r.pick(&[0xc0, 0xd0, 0xe0, 0xf0, 0x40, 0x00, 0x80, 0xff]);
        }
        _ => {
            // swap the first packet's body with random bytes, keep the header prefix
            let keep = r.usize(b.len().min(30)) + 1;
            let n = b.len();
            let tail = r.bytes(n - keep.min(n));
            b.truncate(keep.min(n));
            b.extend(tail);
        }
    }
    b
}

/// The scenario's own connections (every client-side connection and the flows of its pair) are
/// done. Replayed or mutated Initials from foreign addresses legitimately create half-open
/// server-side connections; those are not part of the workload.
fn genuine_done(w: &World) -> bool {
    let mut pairs = vec![];
    for e in &w.eps {
        for c in e.conns.values() {
            if c.side == proto::Side::Client {
                if !(c.app.connected && c.app.jobs_done()) && c.app.lost.is_empty() {
                    return false;
                }
                pairs.push(c.pair);
            }
        }
    }
    // server halves of genuine pairs must have finished their own jobs too
    for e in &w.eps {
        for c in e.conns.values() {
            if c.side == proto::Side::Server && pairs.contains(&c.pair) && c.app.connected && !c.app.jobs_done() && c.app.lost.is_empty() {
                return false;
            }
        }
    }
    // (a pair one of whose ends was lost - on this lane only possible through an exposed reset
    // token - has nothing left to complete)
    let lost: Vec<u64> = w.eps.iter().flat_map(|e| e.conns.values().filter(|c| !c.app.lost.is_empty()).map(|c| c.pair)).collect();
    w.led.flows.iter().all(|((p, _, _), f)| !pairs.contains(p) || lost.contains(p) || !f.must_complete() || f.complete())
}

fn garbage_case(seed: u64, lane: Lane, trace: bool) -> CaseOut {
    use crate::scen::{Honest, Knobs};
    let mut r = Rng::new(seed ^ 0xC03E);
    let mut k = Knobs::default();
    k.lane = lane;
    k.max_stream_len = 20_000;
    k.n_clients = 1 + r.usize(2);
    k.datagrams = r.bool();
    k.ops = false;
    k.mtu_changes = false;
    // the base world is fault-free and has no idle timeout: whatever goes wrong is then caused by
    // the injected garbage
    k.faults = false;
    k.idle_off = true;
    let mut h = Honest::random(seed, &k);
    h.net.inject_forged_pm = 0;
    h.net.corrupt_pm = 0;
    for t in h.cli_t.iter_mut().chain([&mut h.srv_t]) {
        // (a pad_to_mtu sender can wedge on its own: recorded under C02)
        t.pad_to_mtu = false;
    }
    let lat = h.net.latency_ns + h.net.jitter_ns;
    let mut w = h.build();
    w.mon.enable_c12 = false;
    if trace {
        w.trace = Some(vec![]);
    }
    let mut out = CaseOut::default();
    // deliver garbage between steps: mutated copies of recent genuine datagrams (to their own
    // destination, from the genuine or a foreign source) and pure noise
    let mut injected = 0u64;
    let mut steps = 0u64;
    let mut inject_budget = 200 + r.below(4000);
    if std::env::var("QV_NO_GARBAGE").is_ok() {
        inject_budget = 0; // debugging aid: the same world without the hostile datagrams
    }
    let live0 = crate::alloc::live();
    let end = loop {
        if steps > 3 && genuine_done(&w) {
            break "complete";
        }
        if steps >= 60_000 {
            break "step limit";
        }
        let n_inj = if injected < inject_budget { r.below(3) } else { 0 };
        for _ in 0..n_inj {
            let (src, dst, data) = if !w.recent.is_empty() && r.chance(80) {
                let g = &w.recent[r.usize(w.recent.len())];
                let to_client = !w.eps.iter().any(|e| e.spec.server.is_some() && e.addrs.contains(&g.dst));
                let (gsrc, gdst, gdata) = (g.src, g.dst, g.data.clone());
                let (data, version_touched) = mutate_header(&mut r, &gdata, to_client);
                // Initial packets are protected with keys anybody can derive: a forged Initial
                // from the genuine address can legitimately end a handshake, so those come from
                // foreign addresses only
                let is_initial = gdata.first().map_or(false, |f| f & 0xb0 == 0x80);
                let src = if r.chance(70) && !version_touched && !is_initial { gsrc } else { addr_of(7, r.below(200) as u16) };
                (src, gdst, data)
            } else {
                let ep = r.usize(w.eps.len());
                let n = r.usize(1300);
                (addr_of(7, r.below(200) as u16), w.eps[ep].addr, r.bytes(n))
            };
            // never faster than the genuine datagram it was derived from: an attacker who wins the
            // race for a connection's very first packet owns the handshake, which QUIC does not
            // claim to prevent
            let at = w.now + lat + 1_000 + r.below(2_000_000);
            w.inject(at, src, dst, None, data, 0, true);
            injected += 1;
        }
        if !w.step() {
            break "stuck";
        }
        steps += 1;
    };
    out.cnt.add("c03.garbage_datagrams", injected);
    out.cnt.inc("c03.garbage_cases");
    let mut viol = vec![];
    let end = if genuine_done(&w) { "complete" } else { end };
    if end == "step limit" {
        // slow configurations (tiny windows, millisecond keep-alives): the cap decides nothing
        out.inconclusive = Some(format!("step cap reached after {injected} garbage datagrams"));
    } else if end != "complete" {
        // forged datagrams that are structurally valid Initials may legitimately consume server
        // resources (Incoming buffers), but honest traffic must still get through
        let conns: Vec<String> = w.eps.iter().enumerate().flat_map(|(ei, e)| e.conns.iter().map(move |(h, c)| format!("{ei}/{h} {:?} pair={} connected={} jobs_done={} lost={:?} state={}", c.side, c.pair, c.app.connected, c.app.jobs_done(), c.app.lost, c.c.verif_probe().state))).collect();
        let flows: Vec<String> = w.led.flows.iter().filter(|(_, f)| f.must_complete() && !f.complete()).map(|(k, f)| format!("{k:?} written={} fin={:?} delivered={} eos={} finished_evt={}", f.written, f.fin_at, f.delivered.total(), f.eos, f.finished_evt)).collect();
        viol.push(format!("honest transfers did not complete while {injected} garbage datagrams were injected ({end}, {steps} steps); connections {conns:?}; incomplete flows {flows:?}; timers {:?};{}", timers_desc(&w), super::c02::diag(&w)));
    }
    for e in &w.eps {
        for c in e.conns.values() {
            // (plaintext exposes stateless reset tokens: a truncated NEW_CONNECTION_ID packet is a
            // valid reset on this lane; resets are C04's business on the real lane)
            if !c.app.lost.is_empty() && c.app.lost != ["Reset".to_string()] {
                viol.push(format!("honest connection lost while garbage was injected: {:?}", c.app.lost));
            }
        }
    }
    for v in w.all_violations() {
        if matches!(v.prop, "C01" | "C16" | "C20" | "C09" | "C03") {
            viol.push(format!("[{}] {}", v.prop, v.msg));
        }
    }
    let growth = crate::alloc::live() - live0;
    let _ = growth;
    for m in viol {
        out.viol.push(Violation { prop: "C03", msg: format!("{m} | {}", h.summary()) });
    }
    out.nontrivial = injected > 0;
    out.fp = fingerprint(&[&h.summary()], &[injected, steps]);
    if trace {
        out.trace = w.trace.take();
    }
    out
}

pub fn run(ctx: &Ctx) -> i32 {
    let t = Instant::now();
    let mut rep = Report::default();
    let g = Group { name: "frame-class", cases: ctx.tier.pick(40_000, 1_500_000), budget_s: ctx.tier.pick(15.0, 140.0), exhaustive: false };
    run_group(ctx, &mut rep, &g, |_, seed, trace| class_case(seed, trace));
    let g = Group { name: "frame-fuzz", cases: ctx.tier.pick(60_000, 3_000_000), budget_s: ctx.tier.pick(20.0, 250.0), exhaustive: false };
    run_group(ctx, &mut rep, &g, |_, seed, trace| fuzz_case(seed, trace));
    let packets = ctx.tier.pick(400, 4000);
    let g = Group { name: "flood", cases: ctx.tier.pick(800, 10_000), budget_s: ctx.tier.pick(15.0, 170.0), exhaustive: false };
    run_group(ctx, &mut rep, &g, |_, seed, trace| flood_case(seed, trace, packets));
    let g = Group { name: "params", cases: ctx.tier.pick(40_000, 2_000_000), budget_s: ctx.tier.pick(15.0, 140.0), exhaustive: false };
    run_group(ctx, &mut rep, &g, |_, seed, trace| params_case(seed, trace));
    let g = Group { name: "garbage", cases: ctx.tier.pick(2500, 100_000), budget_s: ctx.tier.pick(15.0, 140.0), exhaustive: false };
    run_group(ctx, &mut rep, &g, |_, seed, trace| garbage_case(seed, Lane::Null, trace));
    #[cfg(feature = "real")]
    {
        let g = Group { name: "garbage-rustls", cases: ctx.tier.pick(600, 30_000), budget_s: ctx.tier.pick(15.0, 140.0), exhaustive: false };
        run_group(ctx, &mut rep, &g, |_, seed, trace| garbage_case(seed, Lane::Real, trace));
    }
    finish(
        ctx,
        &rep,
        Finish {
            level: "exploration",
            rule: "Victims are unmodified quinn endpoints (server or client; ack-frequency on/off; CID lengths 0/8/20 on both sides; datagrams on/off/tiny; tiny windows and stream counts); a bystander connection with its own transfer shares the victim endpoint and must complete undisturbed in every case. (frame-class) 30 kinds of well-understood illegal frames, correctly protected (frame-injection hook on an honest quinn peer): the victim must close with a code from the set QUIC prescribes for that violation (and tell its peer the same code) or ignore it where QUIC says so. (frame-fuzz) scripts of up to 12 packets of 1-4 random frames - every frame type with boundary-valued fields (0,1,63,64,2^14,2^30,2^60+1,2^62-1), hand-built ACKs and NEW_CONNECTION_IDs, truncated / bit-flipped / unknown-type / non-minimal / over-long encodings - in the Initial, Handshake and 1-RTT spaces, optionally under loss/duplication/reordering: no panic (caught and reported), the world becomes quiet after each packet, ConnectionLost at most once and only as a transport error of a standard code or because the peer closed. (flood) hundreds to thousands of packets of state-touching frames of ten kinds (CID churn, PATH_CHALLENGE, one-byte STREAM chunks with gaps, credit frames, stream cycling, DATAGRAMs, many-range ACKs, RESET/STOP, NEW_TOKEN, CRYPTO gaps): at most 64 + 4 x (datagrams the peer sent) datagrams from the victim per hostile packet, quiet after each, and the bytes retained by the case's thread (counting allocator) grow by no more than the victim's windows plus a small per-packet allowance. (params) the attacker presents transport parameters produced by TLV-level mutation of the genuine encoding (boundary values for every integer parameter incl. min_ack_delay, deletions, duplicates, wrong lengths, unknown ids, altered CID echoes, truncation, noise): reject with TRANSPORT_PARAMETER_ERROR / PROTOCOL_VIOLATION or accept and survive traffic in both directions. (garbage, plaintext and rustls lanes) honest worlds while 0-3 unauthenticated datagrams per step are handed to Endpoint::handle: structure-aware mutations of recent genuine datagrams (first byte, version, CID lengths, token/length fields, truncation, coalescing, packet type, fixed bit) from the genuine or a foreign address, and noise: no panic, no honest connection lost, every transfer completes.".into(),
            assumptions: vec![
                "panics are observed through catch_unwind around each case; aborts would kill the run (and be reported by the wrapper as a harness error)".into(),
                "memory is observed as bytes retained by the case's thread, which includes harness bookkeeping; the bound leaves room for it".into(),
            ],
            min_evals: ctx.tier.pick(3000, 60_000),
            min_nontrivial: ctx.tier.pick(2000, 40_000),
            required: vec![
                "c03.class_probes",
                "c03.class_closed_as_prescribed",
                "c03.class_ignored_as_prescribed",
                "c03.fuzz_packets",
                "c03.fuzz_handshake_space_cases",
                "c03.fuzz_survived",
                "c03.flood_packets",
                "c03.flood_memory_checks",
                "c03.param_cases",
                "c03.params_accepted",
                "c03.params_closed.TRANSPORT_PARAMETER_ERROR",
                "c03.garbage_datagrams",
                "c03.bystander_checks",
            ],
            exhaustive: false,
        },
        t.elapsed().as_secs_f64(),
    )
}
