//! C04 — only authentic packets are acted on, each at most once.

use std::time::Instant;

use proto::{ConnectionId, FrameStats};
use serde_json::json;

use super::{common::*, finish, run_group, CaseOut, Ctx, Finish, Group, Report};
use crate::{
    nullcrypto::NullHmacKey,
    scen::{Honest, Knobs},
    util::{hash64, Rng},
    world::{Lane, World},
};
use proto::crypto::HmacKey;

fn counters(s: &FrameStats) -> Vec<(&'static str, u64)> {
    vec![
        ("acks", s.acks),
        ("ack_frequency", s.ack_frequency),
        ("crypto", s.crypto),
        ("datagram", s.datagram),
        ("immediate_ack", s.immediate_ack),
        ("max_data", s.max_data),
        ("max_stream_data", s.max_stream_data),
        ("max_streams_bidi", s.max_streams_bidi),
        ("max_streams_uni", s.max_streams_uni),
        ("new_connection_id", s.new_connection_id),
        ("new_token", s.new_token),
        ("path_challenge", s.path_challenge),
        ("path_response", s.path_response),
        ("ping", s.ping),
        ("reset_stream", s.reset_stream),
        ("retire_connection_id", s.retire_connection_id),
        ("stop_sending", s.stop_sending),
        ("stream", s.stream),
        ("streams_blocked_bidi", s.streams_blocked_bidi),
        ("streams_blocked_uni", s.streams_blocked_uni),
    ]
}

/// rx <= tx for every frame type, for every pair that has exactly one connection per side.
fn conservation(w: &mut World) {
    let mut msgs = vec![];
    let mut checks = 0;
    for (ei, e) in w.eps.iter().enumerate() {
        for (ch, c) in &e.conns {
            for (pi, pe) in w.eps.iter().enumerate() {
                if pi == ei {
                    continue;
                }
                for (pch, p) in &pe.conns {
                    if p.pair != c.pair {
                        continue;
                    }
                    if w.mon.pair_creations.get(&(0, c.pair)).copied().unwrap_or(0) > 1 || w.mon.pair_creations.get(&(ei.max(pi), c.pair)).copied().unwrap_or(0) > 1 {
                        continue;
                    }
                    let rx = counters(&c.c.stats().frame_rx);
                    let tx = counters(&p.c.stats().frame_tx);
                    for ((name, r), (_, t)) in rx.iter().zip(tx.iter()) {
                        checks += 1;
                        if r > t {
                            msgs.push(format!("conn {ei}/{ch} received {r} {name} frames but its peer {pi}/{pch} only ever sent {t}"));
                        }
                    }
                }
            }
        }
    }
    w.mon.cnt.add("c04.conservation_checks", checks);
    for m in msgs {
        w.mon.violate("C04", m);
    }
}


/// In these worlds both peers are honest and the only interference is duplication, replay and
/// forged datagrams: a connection closed with a transport error was closed by one of those.
fn attribute_honest_rule(out: &mut CaseOut) {
    for v in out.viol.iter_mut() {
        if v.prop != "C04" && v.msg.contains("honest peers but connection lost with transport error") {
            v.prop = "C04";
            v.msg = format!("connection closed although only duplicated, replayed and forged datagrams interfered: {}", v.msg);
        }
    }
}

fn knobs(seed: u64, lane: Lane) -> Knobs {
    let mut k = Knobs::default();
    k.lane = lane;
    k.max_stream_len = 30_000;
    k.max_streams = 4;
    k.n_clients = 1 + (seed % 3 == 0) as usize;
    k.fault_window_ns = Some(10_000_000_000);
    k.migration = false;
    k
}

fn dup_case(seed: u64, lane: Lane, trace: bool) -> CaseOut {
    let mut r = Rng::new(seed ^ 0xC04);
    let mut h = Honest::random(seed, &knobs(seed, lane));
    // duplication / replay heavy, including the connection-creating Initial
    h.net.dup_pm = *r.pick(&[100, 300, 600]);
    h.net.replay_pm = *r.pick(&[0, 50, 200]);
    h.net.inject_forged_pm = *r.pick(&[0, 100, 300]);
    if r.chance(60) {
        h.net.dup_idx[0].insert(0);
    }
    if r.chance(30) {
        h.net.dup_idx[1].insert(0);
    }
    for t in h.cli_t.iter_mut().chain([&mut h.srv_t]) {
        t.pad_to_mtu = false;
    }
    let mut ran = run_honest(&h, trace, 30_000, 600_000_000_000);
    conservation(&mut ran.w);
    let mut out = base_out(&h, &mut ran, trace);
    attribute_honest_rule(&mut out);
    out.nontrivial = out.cnt.get("c04.duplicate_delta_checks") + out.cnt.get("c04.forged_delivered") > 0;
    out
}

/// Same seed with and without injected forgeries: application-visible histories must agree.
fn insensitivity_case(seed: u64, trace: bool) -> CaseOut {
    // the base network is loss-free so that both executions are comparable: any difference in
    // what the applications end up with is then caused by the injected forgeries alone
    let mut kn = knobs(seed, Lane::Null);
    kn.ops = false;
    kn.faults = false;
    kn.aborts = false;
    kn.idle_off = true;
    kn.mtu_changes = false;
    let mut h = Honest::random(seed, &kn);
    h.net.corrupt_pm = 0;
    h.drv.timer_late_ns = 0;
    for t in h.cli_t.iter_mut().chain([&mut h.srv_t]) {
        t.pad_to_mtu = false;
    }
    let run = |h: &Honest, tr: bool| {
        let mut w = h.build();
        for e in &mut w.eps {
            for c in e.conns.values_mut() {
                c.app.record_history = true;
            }
        }
        w.record_history_default = true;
        if tr {
            w.trace = Some(vec![]);
        }
        let end = w.run(30_000, 600_000_000_000, |w| w.steps > 3 && w.all_connected() && w.workload_complete());
        Ran { w, end }
    };
    let clean = run(&h, false);
    let mut hf = h.clone();
    hf.net.inject_forged_pm = 400;
    let mut dirty = run(&hf, trace);
    // Outcome projection: what each stream ended as and whether each connection survived. (Event
    // order and write sizes legitimately shift when extra datagrams wake the driver.)
    let outcome = |w: &World| -> Vec<String> {
        let mut v: Vec<String> = vec![];
        for (ei, e) in w.eps.iter().enumerate() {
            for (ch, c) in &e.conns {
                v.push(format!("conn {ei}/{ch} connected={} lost={:?}", c.app.connected, c.app.lost));
            }
        }
        let flows: Vec<String> = w
            .led
            .flows
            .iter()
            .map(|(k, f)| {
                format!(
                    "{k:?} fin={:?} reset={:?} finished_evt={} stopped={:?} eos={} recv_reset={:?} recv_stop={:?} delivered_all={}",
                    f.fin_at,
                    f.reset,
                    f.finished_evt,
                    f.stopped_seen,
                    f.eos,
                    f.recv_reset,
                    f.recv_stop,
                    f.fin_at.map_or(false, |l| f.delivered.is_exactly(0, l))
                )
            })
            .collect();
        v.extend(flows);
        v
    };
    let a = outcome(&clean.w);
    let b = outcome(&dirty.w);
    dirty.w.mon.cnt.inc("c04.insensitivity_pairs");
    if matches!(clean.end, crate::world::RunEnd::StepCap | crate::world::RunEnd::TimeCap) || matches!(dirty.end, crate::world::RunEnd::StepCap | crate::world::RunEnd::TimeCap) {
        // the extra datagrams cost driver steps: a capped run decides nothing
        dirty.w.mon.cnt.inc("c04.insensitivity_capped");
    } else if clean.end != dirty.end {
        dirty.w.mon.violate("C04", format!("injected forgeries changed how the run ended: {:?} vs {:?} | {}", clean.end, dirty.end, h.summary()));
    } else if a != b {
        let i = a.iter().zip(b.iter()).position(|(p, q)| p != q).unwrap_or(a.len().min(b.len()));
        dirty.w.mon.violate(
            "C04",
            format!("application-visible outcome differs once forged datagrams are injected: {:?} vs {:?} | {}", a.get(i), b.get(i), h.summary()),
        );
    }
    let forged = dirty.w.net.fired.get("forge_flip") + dirty.w.net.fired.get("forge_truncate") + dirty.w.net.fired.get("forge_splice") + dirty.w.net.fired.get("forge_garbage") + dirty.w.net.fired.get("forge_tag") + dirty.w.net.fired.get("forge_type");
    let mut out = base_out(&hf, &mut dirty, trace);
    attribute_honest_rule(&mut out);
    out.cnt.add("c04.forged_injected", forged);
    out.nontrivial = forged > 0;
    out
}

/// Stateless reset tokens: only the exact token issued for the CID in use resets a connection.
/// The destination CID the victim currently puts into its packets (learnt from a packet it is made
/// to send now).
fn dcid_in_use(w: &mut crate::world::World, vep: usize, dcid_len: usize) -> Option<Vec<u8>> {
    // nothing may be on its way that could make it switch
    for _ in 0..2000 {
        if w.net.q.is_empty() {
            break;
        }
        if !w.step() {
            break;
        }
    }
    let t0 = w.now;
    w.apply_op(crate::world::Op::Ping { ep: vep });
    let _ = w.run(3, w.now + 1, |_| false);
    // (a victim that cannot send right now - congestion, pacing - tells nothing)
    let pair = w.eps[vep].conns.values().next().map(|c| c.pair)?;
    if w.mon.nci_seen.get(&(vep, pair)).map_or(true, |n| n.last_dcid_sent_ns < t0) {
        return None;
    }
    last_dcid(w, vep, dcid_len)
}

/// Destination CID of the last short-header packet the victim sent, as decoded by the wire monitor.
fn last_dcid(w: &crate::world::World, vep: usize, dcid_len: usize) -> Option<Vec<u8>> {
    let pair = w.eps[vep].conns.values().next().map(|c| c.pair)?;
    w.mon.nci_seen.get(&(vep, pair)).and_then(|n| n.last_dcid_sent.clone()).filter(|c| c.len() == dcid_len)
}

fn reset_case(seed: u64, trace: bool) -> CaseOut {
    let mut r = Rng::new(seed ^ 0x7E5E7);
    let mut kn = knobs(seed, Lane::Null);
    kn.faults = false;
    kn.ops = false;
    kn.n_clients = 1;
    kn.idle_off = true;
    let mut h = Honest::random(seed, &kn);
    h.cid_len = [*r.pick(&[4, 8, 16, 20]), *r.pick(&[4, 8, 20])];
    // sometimes the issuer rotates its CIDs (NEW_CONNECTION_ID with retire_prior_to): the victim
    // then moves on to a CID it already holds, and only that CID's token may reset it
    h.cid_lifetime_ms = *r.pick(&[None, None, Some(150), Some(600)]);
    let mut w = h.build();
    if trace {
        w.trace = Some(vec![]);
    }
    let _ = w.run(20_000, 600_000_000_000, |w| w.steps > 3 && w.all_connected() && w.workload_complete());
    if let Some(l) = h.cid_lifetime_ms {
        // let a few rotations happen, then stop at a quiet moment
        let until = w.now + (2 + r.below(4)) * l * 1_000_000 + r.below(l * 1_000_000);
        let _ = w.run(20_000, until, |_| false);
    }
    let mut out = CaseOut::default();
    if !w.all_connected() || any_lost(&w) {
        out.inconclusive = Some("handshake did not complete".into());
        return out;
    }
    // victim: the client; the CID it uses as destination was issued by the server (endpoint 0)
    let victim_is_client = r.bool();
    let (vep, pep) = if victim_is_client { (1usize, 0usize) } else { (0usize, 1usize) };
    // the peer falls silent from here on (no further rotation: what the victim holds is final);
    // what is still on the wire is delivered first
    w.vanished.insert(pep);
    for _ in 0..5000 {
        if w.net.q.is_empty() || !w.step() {
            break;
        }
    }
    // learn the destination CID in use from the victim's next packet
    let dcid_len = w.eps[pep].spec.cid_len;
    let Some(sample) = dcid_in_use(&mut w, vep, dcid_len) else {
        out.inconclusive = Some("no short-header packet captured".into());
        return out;
    };
    let dcid = ConnectionId::new(&sample);
    let key = NullHmacKey(hash64(h.seed, &[b"reset", &[pep as u8]]));
    let mut sig = vec![0u8; 32];
    key.sign(&dcid, &mut sig);
    let token = &sig[..16];
    let peer_addr = w.eps[pep].addr;
    let victim_addr = w.eps[vep].addr;
    let lost_before: u32 = w.eps[vep].conns.values().map(|c| c.app.lost_count).sum();
    // wrong tokens first: the tokens of every other CID the peer has issued to this connection
    // (retired ones and ones not yet in use), ...
    let mut wrong = 0;
    let pair = w.eps[vep].conns.values().next().map(|c| c.pair).unwrap_or(0);
    let others: Vec<Vec<u8>> = w.mon.nci_seen.get(&(vep, pair)).map(|n| n.cids.values().filter(|c| c[..] != dcid[..]).cloned().collect()).unwrap_or_default();
    if std::env::var("QV_C04_DEBUG").is_ok() {
        let n = w.mon.nci_seen.get(&(vep, pair));
        eprintln!("C04DEBUG in use {} = seq {:?}; known seqs {:?}; retired_sent {:?}", crate::util::hex(&dcid), n.and_then(|n| n.cids.iter().find(|(_, c)| c[..] == dcid[..]).map(|x| *x.0)), n.map(|n| n.cids.keys().copied().collect::<Vec<_>>()), n.map(|n| n.retired_sent.iter().copied().collect::<Vec<_>>()));
    }
    if std::env::var("QV_C04_DEBUG").is_ok() {
        let n = w.mon.nci_seen.get(&(vep, pair)).cloned().unwrap_or_default();
        for (seq, c) in &n.cids {
            let mut sig2 = vec![0u8; 32];
            key.sign(&ConnectionId::new(c), &mut sig2);
            eprintln!("C04DEBUG seq {seq} cid {} computed token {} frame token {}", crate::util::hex(c), crate::util::hex(&sig2[..16]), n.tokens.get(seq).map(|t| crate::util::hex(t)).unwrap_or_default());
        }
        let p = w.eps[vep].conns.values().next().map(|c| c.c.verif_probe());
        eprintln!("C04DEBUG victim remote cid state: {:?}", p.map(|p| p.state));
    }
    for (i, c) in others.iter().enumerate() {
        let mut sig2 = vec![0u8; 32];
        key.sign(&ConnectionId::new(c), &mut sig2);
        let dl = 40 + r.usize(100);
        let mut d = r.bytes(dl);
        d[0] = 0x40 | (d[0] & 0x3f);
        let n = d.len();
        d[n - 16..].copy_from_slice(&sig2[..16]);
        w.inject(w.now + 500 * (i as u64 + 1), peer_addr, victim_addr, None, d, 0, true);
        wrong += 1;
        out.cnt.inc("c04.other_cid_reset_tokens");
    }
    // ... random suffixes and single-bit variations of the right one
    for i in 0..(20 + r.below(40)) {
        let dl = 40 + r.usize(200);
        let mut d = r.bytes(dl);
        d[0] = 0x40 | (d[0] & 0x3f);
        let n = d.len();
        if i % 2 == 0 {
            d[n - 16..].copy_from_slice(token);
            let bit = r.usize(128);
            d[n - 16 + bit / 8] ^= 1 << (bit % 8);
        }
        let at = w.now + 1_000 * (i + 1);
        w.inject(at, peer_addr, victim_addr, None, d, 0, true);
        wrong += 1;
    }
    let limit = w.now + 2_000_000;
    let _ = w.run(2000, limit, |_| false);
    let lost_mid: u32 = w.eps[vep].conns.values().map(|c| c.app.lost_count).sum();
    if last_dcid(&w, vep, dcid_len).map_or(true, |c| c[..] != dcid[..]) || (lost_mid == lost_before && dcid_in_use(&mut w, vep, dcid_len).map_or(true, |c| c[..] != dcid[..])) {
        // (the victim moved on to another CID in the meantime: a rotation was under way)
        out.inconclusive = Some("the CID in use changed during the probe".into());
        return out;
    }
    out.cnt.add("c04.wrong_reset_tokens", wrong);
    if lost_mid != lost_before {
        let reasons: Vec<String> = w.eps[vep].conns.values().flat_map(|c| c.app.lost.clone()).collect();
        out.viol.push(crate::app::Violation { prop: "C04", msg: format!("connection ended by a datagram whose trailing 16 bytes are not the issued reset token: {reasons:?} | {}", h.summary()) });
    }
    // the exact token
    let dl = 40 + r.usize(100);
    let mut d = r.bytes(dl);
    d[0] = 0x40 | (d[0] & 0x3f);
    let n = d.len();
    d[n - 16..].copy_from_slice(token);
    w.inject(w.now + 1_000, peer_addr, victim_addr, None, d, 0, true);
    let limit = w.now + 500_000_000;
    let _ = w.run(500, limit, |_| false);
    let reasons: Vec<String> = w.eps[vep].conns.values().flat_map(|c| c.app.lost.clone()).collect();
    out.cnt.inc("c04.exact_reset_tokens");
    if lost_mid == lost_before && !reasons.iter().any(|x| x == "Reset") {
        out.viol.push(crate::app::Violation {
            prop: "C04",
            msg: format!("a datagram ending in the exact reset token the peer issued for CID {dcid} did not reset the connection (reasons {reasons:?}) | {}", h.summary()),
        });
    }
    for v in w.all_violations() {
        out.viol.push(v);
    }
    out.nontrivial = true;
    out.fp = hash64(3, &[&seed.to_le_bytes()]);
    out.sample = Some(json!({"victim": if victim_is_client { "client" } else { "server" }, "cid": format!("{dcid}"), "wrong_tokens": wrong}));
    if trace {
        out.trace = w.trace.take();
    }
    out
}

pub fn run(ctx: &Ctx) -> i32 {
    let t = Instant::now();
    let mut rep = Report::default();
    #[cfg(feature = "real")]
    {
        let g = Group { name: "dup-real", cases: ctx.tier.pick(250, 15_000), budget_s: ctx.tier.pick(30.0, 330.0), exhaustive: false };
        run_group(ctx, &mut rep, &g, |_, seed, trace| dup_case(seed, Lane::Real, trace));
    }
    let g = Group { name: "dup-null", cases: ctx.tier.pick(500, 30_000), budget_s: ctx.tier.pick(25.0, 280.0), exhaustive: false };
    run_group(ctx, &mut rep, &g, |_, seed, trace| dup_case(seed, Lane::Null, trace));
    let g = Group { name: "insensitivity", cases: ctx.tier.pick(300, 15_000), budget_s: ctx.tier.pick(25.0, 220.0), exhaustive: false };
    run_group(ctx, &mut rep, &g, |_, seed, trace| insensitivity_case(seed, trace));
    let g = Group { name: "reset-token", cases: ctx.tier.pick(300, 10_000), budget_s: ctx.tier.pick(15.0, 110.0), exhaustive: false };
    run_group(ctx, &mut rep, &g, |_, seed, trace| reset_case(seed, trace));
    finish(
        ctx,
        &rep,
        Finish {
            level: "exploration",
            rule: "(dup) worlds on the rustls and plaintext lanes with 10-60 % duplication, verbatim replays up to 3 s later, the connection-creating Initial duplicated, and forged variants of single-packet datagrams (1-8 bit flips, truncation, cross-connection header splice, same-length garbage, altered tag) injected next to the genuine ones. Oracles: a datagram already fully authenticated once changes no frame_rx counter when delivered again; a forged datagram authenticates no packet and changes no counter; at the end receiver frame_rx <= sender frame_tx for every frame type. (insensitivity) the same seed with and without 40 % forged injections yields identical application-visible histories and end states. (reset-token) random 16-byte suffixes and every-bit-flipped versions of the issued token do not end a connection; the exact token for the CID in use does.".into(),
            assumptions: vec![
                "forging is sampled, not excluded: the claim is that none of the injected variants was accepted".into(),
                "reset tokens are computed with the harness-owned reset key; the rustls lane uses real AEAD and header protection".into(),
            ],
            min_evals: ctx.tier.pick(200, 5000),
            min_nontrivial: ctx.tier.pick(100, 2000),
            required: vec!["c04.duplicate_delta_checks", "c04.forged_delivered", "c04.conservation_checks", "c04.insensitivity_pairs", "c04.forged_injected", "c04.wrong_reset_tokens", "c04.exact_reset_tokens", "net.replay", "net.enum_dup"],
            exhaustive: false,
        },
        t.elapsed().as_secs_f64(),
    )
}
