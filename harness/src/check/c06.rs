//! C06 — a receiver enforces its own limits and buffers a bounded amount.
//!
//! The hostile peer is an otherwise honest quinn connection whose packets carry raw frames
//! injected through the `verif_inject_frames` hook, so every probe is correctly protected.
//! The limits the oracle uses are the ones the victim put on the wire (transport parameters,
//! MAX_DATA, MAX_STREAM_DATA, MAX_STREAMS as decoded by the monitor from the victim's packets),
//! not the victim's internal state.

use std::{collections::BTreeMap, time::Instant};

use serde_json::json;

use super::{common::leak_prefixed, finish, fingerprint, run_group, CaseOut, Ctx, Finish, Group, Report};
use crate::{
    app::{App, AppCfg, Violation},
    cfg::TcfgP,
    util::{payload_fill, Rng},
    wire::Frame,
    world::{DriverCfg, EpSpec, Lane, NetCfg, Op, ServerSpec, World},
};

const VMAX: u64 = (1 << 62) - 1;

/// What the attacker has used so far (reference model of the sender's consumption).
#[derive(Default)]
struct Model {
    /// per stream: highest end offset sent, final size if fixed, whether a reset fixed it
    hi: BTreeMap<u64, u64>,
    fin: BTreeMap<u64, (u64, bool)>,
    reset_seen: std::collections::BTreeSet<u64>,
    /// streams the victim's application stopped (it may forget them as soon as their final size
    /// is known)
    stopped: std::collections::BTreeSet<u64>,
    total: u64,
}

/// Limits as advertised on the wire by the victim.
#[derive(Debug, Clone, Copy)]
struct Adv {
    conn: u64,
    stream: u64,
    bidi: u64,
    uni: u64,
}

#[derive(Debug, Clone, PartialEq)]
struct Expect {
    /// acceptable close codes; empty = the frame is within every limit and must be accepted
    codes: Vec<&'static str>,
    /// the stream may already have been forgotten by the victim (closed and read), or the
    /// relation is one QUIC leaves to the receiver: accepting silently is fine too
    lenient: bool,
}

impl Expect {
    fn accept() -> Self {
        Self { codes: vec![], lenient: false }
    }
}

impl Model {
    fn stream_like(&mut self, a: Adv, id: u64, end: u64, fin: bool, is_reset: bool, victim_reads: bool) -> Expect {
        let bidi = id & 2 == 0;
        let idx = id >> 2;
        let mut codes = vec![];
        let over_stream_limit = idx >= if bidi { a.bidi } else { a.uni };
        if over_stream_limit {
            codes.push("STREAM_LIMIT_ERROR");
        }
        let hi = self.hi.get(&id).copied().unwrap_or(0);
        let mut lenient = false;
        if let Some(&(f, _)) = self.fin.get(&id) {
            let by_reset = self.reset_seen.contains(&id);
            // once the final size is known a reading victim may have consumed and forgotten the
            // stream; a reset stream drops late STREAM frames without looking at them
            lenient = victim_reads || (by_reset && !is_reset) || self.stopped.contains(&id);
            let bad = if is_reset { end != f } else { end > f || (fin && end != f) };
            if bad {
                codes.push("FINAL_SIZE_ERROR");
            }
        } else if (fin || is_reset) && end < hi {
            codes.push("FINAL_SIZE_ERROR");
        }
        let new = end.saturating_sub(hi);
        if end > a.stream || self.total.saturating_add(new) > a.conn {
            codes.push("FLOW_CONTROL_ERROR");
        }
        if over_stream_limit {
            // (when the frame breaks other rules as well, any of their codes is acceptable)
            return Expect { codes, lenient: false };
        }
        if codes.is_empty() {
            self.total += new;
            self.hi.insert(id, hi.max(end));
            if (fin || is_reset) && !self.fin.contains_key(&id) {
                self.fin.insert(id, (end, is_reset));
            }
            if is_reset {
                self.reset_seen.insert(id);
            }
        }
        Expect { codes, lenient }
    }
}

fn victim_tcfg(r: &mut Rng) -> TcfgP {
    let mut t = TcfgP::default();
    t.idle_ms = None;
    t.mtud = None;
    t.stream_rwnd = *r.pick(&[1, 63, 64, 1000, 16383, 16384, 100_000]);
    t.rwnd = *r.pick(&[1, 64, 1000, 16384, 300_000, VMAX]);
    t.max_bidi = *r.pick(&[0, 1, 2, 5]);
    t.max_uni = *r.pick(&[0, 1, 2, 5]);
    t.dgram_recv_buf = *r.pick(&[None, Some(0), Some(10), Some(500), Some(65535)]);
    t.crypto_buffer = *r.pick(&[400, 1000, 16384]);
    t.initial_rtt_ms = 10;
    t
}

fn attacker_tcfg() -> TcfgP {
    let mut t = TcfgP::default();
    t.idle_ms = None;
    t.mtud = None;
    t.initial_rtt_ms = 10;
    t.initial_mtu = 1452;
    t
}

struct Setup {
    w: World,
    victim: (usize, usize),
    attacker: (usize, usize),
    pair: u64,
}

fn setup(seed: u64, victim_is_server: bool, vt: &TcfgP, victim_app: AppCfg) -> Option<Setup> {
    let at = attacker_tcfg();
    let (srv_t, cli_t) = if victim_is_server { (vt.clone(), at) } else { (at, vt.clone()) };
    let attacker_app = AppCfg { inert: true, ..AppCfg::default() };
    let mut srv = ServerSpec::default();
    srv.tcfg = srv_t;
    srv.tokens_sent = 0;
    srv.app = if victim_is_server { victim_app.clone() } else { attacker_app.clone() };
    let specs = vec![EpSpec::new(0, Some(srv)), EpSpec::new(1, None)];
    let mut net = NetCfg::default();
    net.latency_ns = 1_000_000;
    let mut w = World::new(seed, Lane::Null, specs, net, DriverCfg::default());
    // the attacker is not an honest peer: transport errors are the expected outcome
    w.mon.honest = false;
    w.mon.enable_c05 = false;
    w.mon.enable_c12 = false;
    w.connect(1, 0, cli_t, if victim_is_server { attacker_app } else { victim_app }).ok()?;
    settle(&mut w);
    if !w.all_connected() || w.eps.iter().any(|e| e.conns.is_empty()) {
        return None;
    }
    let (v, a) = if victim_is_server { (0usize, 1usize) } else { (1usize, 0usize) };
    let vch = *w.eps[v].conns.keys().next()?;
    let ach = *w.eps[a].conns.keys().next()?;
    let pair = w.eps[v].conns[&vch].pair;
    Some(Setup { w, victim: (v, vch), attacker: (a, ach), pair })
}

fn settle(w: &mut World) {
    for _ in 0..20_000 {
        w.flush_now();
        let horizon = w.now + 1_000_000_000;
        // (an application reading with a budget per poll is not done when the wire is quiet: the
        // limits it will advertise for what it already holds must be out before the next probe)
        let busy = !w.net.q.is_empty()
            || w.wake_pending()
            || w.eps.iter().any(|e| e.conns.values().any(|c| !c.c.is_drained() && c.c.poll_timeout().map_or(false, |t| w.rel(t) <= horizon)));
        if !busy {
            break;
        }
        if !w.step() {
            break;
        }
    }
}

fn adv(w: &World, attacker: (usize, usize)) -> Adv {
    let cm = &w.mon.conns[&attacker];
    Adv { conn: cm.led_max_data, stream: cm.led_stream_default, bidi: cm.led_max_streams[0], uni: cm.led_max_streams[1] }
}

fn adv_stream(w: &World, attacker: (usize, usize), id: u64) -> u64 {
    let cm = &w.mon.conns[&attacker];
    *cm.led_stream.get(&id).unwrap_or(&cm.led_stream_default)
}

fn near(r: &mut Rng, v: u64) -> u64 {
    (*r.pick(&[v.saturating_sub(1), v, v.saturating_add(1)])).min(VMAX - 1)
}

fn case(seed: u64, trace: bool) -> CaseOut {
    let mut r = Rng::new(seed ^ 0xC06);
    let victim_is_server = r.chance(70);
    let victim_reads = r.chance(50);
    let vt = victim_tcfg(&mut r);
    let mut out = CaseOut::default();
    let victim_app = AppCfg {
        read_enabled: victim_reads,
        dgram_read: victim_reads,
        unordered_pct: 30,
        stop_pct: if victim_reads { *r.pick(&[0, 0, 30]) } else { 0 },
        policy_seed: seed,
        ..AppCfg::default()
    };
    let Some(mut s) = setup(seed, victim_is_server, &vt, victim_app) else {
        out.inconclusive = Some("could not establish the connection".into());
        return out;
    };
    if trace {
        s.w.trace = Some(vec![]);
    }
    let mut m = Model::default();
    let writer_client = victim_is_server;
    let init_bit = if victim_is_server { 0 } else { 1 }; // attacker-initiated stream ids
    let mut script: Vec<String> = vec![];
    let n_probes = 1 + r.below(8);
    let mut violations = vec![];
    let mut rwnd_max = vt.rwnd;
    let mut stopped = std::collections::BTreeSet::new();
    let (ve, vch) = s.victim;
    let (ae, ach) = s.attacker;
    for step in 0..n_probes {
        // local operations of the victim's application between probes
        if r.chance(15) {
            let v = *r.pick(&[1u64, 500, 20_000, 1_000_000]);
            rwnd_max = rwnd_max.max(v);
            s.w.apply_op(Op::SetRecvWindow { ep: ve, v });
            script.push(format!("victim.set_receive_window({v})"));
            settle(&mut s.w);
        }
        if !victim_reads && r.chance(25) && !m.hi.is_empty() {
            // the victim's application gives up on a stream it never read (whatever arrived on it -
            // data, a FIN, a reset - is discarded unread)
            let ids: Vec<u64> = m.hi.keys().copied().collect();
            let id = *r.pick(&ids);
            if !stopped.contains(&id) {
                let sid = proto::StreamId::from(proto::VarInt::from_u64(id).unwrap());
                let res = s.w.eps[ve].conns.get_mut(&vch).unwrap().c.recv_stream(sid).stop(proto::VarInt::from_u32(9));
                script.push(format!("victim.stop({id}) -> {}", if res.is_ok() { "ok" } else { "closed" }));
                stopped.insert(id);
                m.stopped.insert(id);
                out.cnt.inc("c06.victim_stops");
                settle(&mut s.w);
            }
        }
        let a0 = adv(&s.w, s.attacker);
        // choose a probe; values sit at limit-1 / limit / limit+1 of the rule it targets
        let kind = r.below(8);
        let bidi = r.bool();
        let lim_streams = if bidi { a0.bidi } else { a0.uni };
        let mut idx = if lim_streams == 0 { 0 } else { r.below(lim_streams) };
        if kind == 1 {
            idx = near(&mut r, lim_streams);
        }
        let id = (idx << 2) | (if bidi { 0 } else { 2 }) | init_bit;
        let a = Adv { stream: adv_stream(&s.w, s.attacker, id), ..a0 };
        let hi = m.hi.get(&id).copied().unwrap_or(0);
        // the attacker's own quinn must know the stream (the victim may answer on it)
        // (by the victim's own count, which may run ahead of what it advertised)
        let victim_max = s.w.eps[ve].conns[&vch].c.verif_probe().streams.max_remote[if bidi { 0 } else { 1 }];
        if idx < lim_streams.max(victim_max) {
            let dir = if bidi { proto::Dir::Bi } else { proto::Dir::Uni };
            let ac = &mut s.w.eps[ae].conns.get_mut(&ach).unwrap().c;
            while ac.verif_probe().streams.next[dir as usize] <= idx {
                if ac.streams().open(dir).is_none() {
                    break;
                }
            }
        }
        let (frame, expect, space): (Frame, Expect, usize) = match kind {
            0 | 1 | 2 => {
                let end = match kind {
                    // stream-level limit, or plain data
                    0 | 1 => *r.pick(&[a.stream.saturating_sub(1), a.stream, a.stream.saturating_add(1), hi + 1, hi + 10, hi]),
                    // connection-level limit
                    _ => hi.saturating_add(near(&mut r, a.conn.saturating_sub(m.total))),
                }
                .min(VMAX - 1);
                let len = r.below(61).min(end).min(1100);
                let off = end - len;
                let fin = r.chance(20);
                let key = s.w.led.flow(s.pair, writer_client, id).key;
                let mut data = vec![0u8; len as usize];
                payload_fill(key, off, &mut data);
                let e = m.stream_like(a, id, end, fin, false, victim_reads);
                (Frame::Stream { id, off, fin, data, explicit_len: true, explicit_off: true }, e, 2)
            }
            7 => {
                // a full-size frame (and, below, the same frame many times over)
                let room_conn = a.conn.saturating_sub(m.total);
                let len = 1100u64.min(a.stream.saturating_sub(hi)).min(room_conn);
                let off = hi;
                let key = s.w.led.flow(s.pair, writer_client, id).key;
                let mut data = vec![0u8; len as usize];
                payload_fill(key, off, &mut data);
                let e = m.stream_like(a, id, off + len, false, false, victim_reads);
                (Frame::Stream { id, off, fin: false, data, explicit_len: true, explicit_off: true }, e, 2)
            }
            3 | 4 => {
                // final size consistency
                let fs = match m.fin.get(&id) {
                    Some(&(f, _)) => near(&mut r, f),
                    None => *r.pick(&[hi, hi + 1, hi.saturating_sub(1), a.stream, a.stream.saturating_add(1)]),
                }
                .min(VMAX - 1);
                if kind == 3 {
                    let e = m.stream_like(a, id, fs, true, true, victim_reads);
                    (Frame::ResetStream { id, code: 77, final_size: fs }, e, 2)
                } else {
                    let len = r.below(20).min(fs);
                    let off = fs - len;
                    let key = s.w.led.flow(s.pair, writer_client, id).key;
                    let mut data = vec![0u8; len as usize];
                    payload_fill(key, off, &mut data);
                    let e = m.stream_like(a, id, fs, true, false, victim_reads);
                    (Frame::Stream { id, off, fin: true, data, explicit_len: true, explicit_off: true }, e, 2)
                }
            }
            5 => {
                let b = vt.dgram_recv_buf.unwrap_or(20);
                let len = (*r.pick(&[b.saturating_sub(4), b.saturating_sub(1), b, b + 1, 0, 1, 8, 9])).min(1150);
                // quinn advertises max_datagram_frame_size = min(buffer, 65535) and bounds the
                // payload by the buffer size. Payloads above the buffer are oversized under any
                // reading; payloads whose frame (type + length + payload) exceeds the advertised
                // frame size but which fit the buffer are left to the receiver here.
                let e = match vt.dgram_recv_buf {
                    None => Expect { codes: vec!["PROTOCOL_VIOLATION"], lenient: false },
                    Some(b) if len > b => Expect { codes: vec!["PROTOCOL_VIOLATION"], lenient: false },
                    Some(b) if len + 3 > b.min(65535) => Expect { codes: vec!["PROTOCOL_VIOLATION"], lenient: true },
                    Some(_) => Expect::accept(),
                };
                let key = s.w.led.dgram(s.pair, writer_client).key;
                let seq = 1000 + step as u32;
                let data = App::make_dgram(key, seq, len);
                if e.codes.is_empty() || e.lenient {
                    s.w.led.dgram(s.pair, writer_client).sent.push((seq, len as u32));
                }
                (Frame::Datagram { data, explicit_len: true }, e, 2)
            }
            _ => {
                // handshake data far ahead of what was consumed. The consumed offset in the 1-RTT
                // space is small (session tickets) but not known exactly: ends up to the buffer
                // size are certainly fine, ends beyond buffer + 600 certainly too far.
                let c = vt.crypto_buffer as u64;
                let end = *r.pick(&[c.saturating_sub(1), c, c + 601, c + 5000]);
                let e = if end > c { Expect { codes: vec!["CRYPTO_BUFFER_EXCEEDED"], lenient: false } } else { Expect::accept() };
                (Frame::Crypto { off: end - 1, data: vec![1] }, e, 2)
            }
        };
        // register what the data is, so that the victim's reading application can verify it
        let will_accept = expect.codes.is_empty();
        match &frame {
            Frame::Stream { id, off, data, fin, .. } if will_accept => {
                let f = s.w.led.flow(s.pair, writer_client, *id);
                f.written = f.written.max(off + data.len() as u64);
                if *fin {
                    f.fin_at = Some(off + data.len() as u64);
                }
            }
            Frame::ResetStream { id, code, final_size } if will_accept => {
                let f = s.w.led.flow(s.pair, writer_client, *id);
                f.reset = Some(*code);
                f.written = f.written.max(*final_size);
            }
            _ => {}
        }
        // a stream index at or above the advertised limit but below the limit the victim already
        // computed for its next MAX_STREAMS frame (see known findings)
        let pending_tag = if matches!(frame, Frame::Stream { .. } | Frame::ResetStream { .. }) && idx >= lim_streams && idx < victim_max { " [index below the victim's pending, not yet advertised, stream limit]" } else { "" };
        script.push(format!("{frame:?} adv={a:?} => {expect:?}"));
        let mut bytes = vec![];
        frame.encode(&mut bytes);
        s.w.eps[ae].conns.get_mut(&ach).unwrap().c.verif_inject_frames(space, bytes.clone());
        settle(&mut s.w);
        if kind == 7 && will_accept && bytes.len() > 600 && s.w.eps[ve].conns[&vch].app.lost.is_empty() {
            // retransmission storm: the same frame again and again consumes no credit at all;
            // what the victim holds must stay bounded all the same
            let copies = 20 + r.below(180);
            for _ in 0..copies {
                s.w.eps[ae].conns.get_mut(&ach).unwrap().c.verif_inject_frames(space, bytes.clone());
            }
            script.push(format!("(the same frame {copies} more times)"));
            out.cnt.inc("c06.duplicate_storms");
            settle(&mut s.w);
        }
        out.cnt.inc("c06.probes");
        let lost = s.w.eps[ve].conns[&vch].app.lost.clone();
        let alost = s.w.eps[ae].conns[&ach].app.lost.clone();
        if expect.codes.is_empty() {
            out.cnt.inc("c06.accept_expected");
            if !lost.is_empty() || !alost.is_empty() {
                violations.push(format!("victim closed on a frame within its advertised limits: victim {lost:?} peer {alost:?}"));
            }
        } else {
            out.cnt.inc(leak_prefixed("c06.close_expected.", expect.codes[0]));
            if expect.lenient {
                out.cnt.inc("c06.lenient_probes");
            }
            let named = |l: &Vec<String>| l.len() == 1 && expect.codes.iter().any(|c| l[0].contains(c));
            if lost.is_empty() && alost.is_empty() {
                if !expect.lenient {
                    violations.push(format!("victim accepted a frame that breaks its advertised limits; it should close with {:?}{pending_tag}", expect.codes));
                }
            } else if !named(&lost) && lost.len() == 1 && lost[0].starts_with("ConnectionClosed(") && alost.len() == 1 && alost[0].contains("operation on unopened stream") {
                // the victim accepted the frame and answered on that stream; the attacker's own
                // (honest) stack, which never opened it, then aborted
                violations.push(format!("victim accepted a frame that breaks its advertised limits; it should close with {:?}{pending_tag} (its answer made the peer's stack abort: {alost:?})", expect.codes));
            } else if !named(&lost) {
                violations.push(format!("victim should close with {:?}; it reported {lost:?}", expect.codes));
            } else if !named(&alost) {
                violations.push(format!("victim closed with {lost:?} but its peer was told {alost:?}"));
            } else {
                out.cnt.inc("c06.closed_with_prescribed_code");
            }
        }
        // credit is returned only for data that was consumed or discarded: the connection-level
        // limit never runs ahead of the window by more than what the peer actually used
        out.cnt.inc("c06.credit_bound_checks");
        // (bytes of a frame that was wrongly accepted are not in the model's consumption: that
        // acceptance has been reported, its arithmetic consequences are not a second finding)
        if violations.is_empty() {
            let p = s.w.eps[ve].conns[&vch].c.verif_probe();
            if rwnd_max < (1 << 40) && p.streams.local_max_data > rwnd_max.saturating_add(m.total) {
                violations.push(format!("the victim's connection-level limit is {}, more than its receive window {rwnd_max} plus the {} bytes its peer ever used", p.streams.local_max_data, m.total));
            }
        }
        // buffered-bytes bound (probe)
        let p = s.w.eps[ve].conns[&vch].c.verif_probe();
        out.cnt.inc("c06.buffer_checks");
        let a1 = adv(&s.w, s.attacker);
        // unique unread bytes are bounded by the windows; quinn's reassembly buffer may in
        // addition hold overlapping copies and slack of partly used packet buffers, which it
        // bounds per stream by max(32 KiB, 1.5 x unread) before it defragments
        let streams = a1.bidi + a1.uni;
        let unique = rwnd_max.min(vt.stream_rwnd.saturating_mul(streams));
        let used_streams = (m.hi.len() as u64).max(1);
        let bound = unique.saturating_add(unique / 2 * 3 + 2).saturating_add(32768 * used_streams);
        if p.streams.recv_allocated as u64 > bound || p.streams.recv_buffered > p.streams.recv_allocated {
            violations.push(format!("victim holds {} bytes ({} allocated) of unread stream data, its windows allow {unique} unique bytes and {bound} with reassembly slack", p.streams.recv_buffered, p.streams.recv_allocated));
        }
        if let Some(b) = vt.dgram_recv_buf {
            if p.dgram_incoming.1 > b {
                violations.push(format!("victim holds {} datagram bytes, datagram_receive_buffer_size is {b}", p.dgram_incoming.1));
            }
        } else if p.dgram_incoming.0 > 0 {
            violations.push("victim holds datagrams although it does not support them".into());
        }
        if !violations.is_empty() || !lost.is_empty() || !alost.is_empty() {
            break;
        }
    }
    // nothing beyond the advertised limits or beyond the final size was handed to the application
    let flows: Vec<(u64, u64)> = s.w.led.flows.iter().filter(|((p, wc, _), _)| *p == s.pair && *wc == writer_client).map(|((_, _, sid), f)| (*sid, f.delivered.max_end())).collect();
    for (sid, max_end) in flows {
        out.cnt.inc("c06.delivery_checks");
        let lim = adv_stream(&s.w, s.attacker, sid);
        if max_end > lim {
            violations.push(format!("stream {sid}: bytes up to offset {max_end} delivered, the advertised stream limit is {lim}"));
        }
        if let Some(&(f, _)) = m.fin.get(&sid) {
            if max_end > f {
                violations.push(format!("stream {sid}: bytes up to offset {max_end} delivered, beyond its final size {f}"));
            }
        }
    }
    // (a frame the victim should have refused was never registered with the ledger: what the ledger then
    // says about that stream - bytes beyond written, an end of stream it knows no final size for - is
    // the same event as the acceptance reported above, not a second violation)
    let wrongly_accepted = violations.iter().any(|v| v.starts_with("victim accepted a frame that breaks its advertised limits"));
    for v in s.w.all_violations() {
        if matches!(v.prop, "C01" | "C06" | "C11") && !(wrongly_accepted && matches!(v.prop, "C01" | "C11")) {
            violations.push(format!("[{}] {}", v.prop, v.msg));
        }
    }
    for msg in violations {
        out.viol.push(Violation {
            prop: "C06",
            msg: format!(
                "{msg} | victim={} reads={victim_reads} limits(stream={},conn={},bidi={},uni={},dgram={:?},crypto={}) script={script:?}",
                if victim_is_server { "server" } else { "client" },
                vt.stream_rwnd,
                vt.rwnd,
                vt.max_bidi,
                vt.max_uni,
                vt.dgram_recv_buf,
                vt.crypto_buffer
            ),
        });
    }
    out.nontrivial = out.cnt.get("c06.probes") > 0;
    out.fp = fingerprint(&[&script.join(";")], &[victim_is_server as u64, victim_reads as u64]);
    out.sample = Some(json!({"victim": if victim_is_server { "server" } else { "client" }, "victim_reads": victim_reads, "script": script}));
    if trace {
        out.trace = s.w.trace.take();
    }
    out
}

/// Credit monitor: MAX_DATA / MAX_STREAM_DATA a receiver puts on the wire never exceed what its
/// application has consumed or discarded plus the configured window (checked in the monitor at
/// the moment the frame is sent, against the application-side ledger).
fn credit_case(seed: u64, trace: bool) -> CaseOut {
    use crate::scen::{Honest, Knobs};
    let mut k = Knobs::default();
    k.max_stream_len = 200_000;
    k.fault_window_ns = Some(5_000_000_000);
    let mut h = Honest::random(seed, &k);
    let mut r = Rng::new(seed ^ 0xC06C);
    for t in h.cli_t.iter_mut().chain([&mut h.srv_t]) {
        t.rwnd = *r.pick(&[1500, 10_000, 60_000, 400_000]);
        t.stream_rwnd = *r.pick(&[800, 5_000, 40_000, 300_000]);
    }
    // plenty of aborts from both ends, so that stops meet resets (in either order) and unread data
    for a in h.cli_app.iter_mut().chain([&mut h.srv_app]) {
        a.stop_pct = *r.pick(&[10, 50, 90]);
        for p in a.plans.iter_mut() {
            if r.chance(40) {
                p.end = crate::app::EndMode::ResetAt { at: r.below(p.len + 1), code: r.below(1000) };
            }
        }
    }
    // the bound uses the configured window; run-time window changes are exercised by the probe
    // group above
    h.ops.retain(|(_, op)| !matches!(op, Op::SetRecvWindow { .. }));
    let mut w = h.build();
    w.mon.enable_credit = true;
    if trace {
        w.trace = Some(vec![]);
    }
    let end = w.run(40_000, 900_000_000_000, |w| w.steps > 3 && w.all_connected() && w.workload_complete());
    let mut ran = crate::check::common::Ran { w, end };
    let mut out = crate::check::common::base_out(&h, &mut ran, trace);
    out.viol.retain(|v| v.prop == "C06");
    out.nontrivial = out.cnt.get("c06.credit_checks") > 0;
    out
}

pub fn run(ctx: &Ctx) -> i32 {
    let t = Instant::now();
    let mut rep = Report::default();
    let g = Group { name: "limit-probes", cases: ctx.tier.pick(20_000, 600_000), budget_s: ctx.tier.pick(35.0, 540.0), exhaustive: false };
    run_group(ctx, &mut rep, &g, |_, seed, trace| case(seed, trace));
    let g = Group { name: "credit", cases: ctx.tier.pick(1200, 40_000), budget_s: ctx.tier.pick(25.0, 360.0), exhaustive: false };
    run_group(ctx, &mut rep, &g, |_, seed, trace| credit_case(seed, trace));
    finish(
        ctx,
        &rep,
        Finish {
            level: "exploration",
            rule: "(limit-probes) a victim (server 70 % / client 30 %; reading with ordered/unordered reads and stops, or not reading; with set_receive_window calls in between) whose limits are drawn from stream windows {1,63,64,1000,16383,16384,100000} x connection windows {1,64,1000,16384,300000,2^62-1} x stream counts {0,1,2,5}^2 x datagram buffers {off,0,10,500,65535} x crypto buffers {400,1000,16384} receives scripts of 1-8 correctly protected hostile frames, injected through the frame hook into an otherwise honest quinn peer: STREAM end offsets at limit-1/limit/limit+1 of the advertised stream limit and of the remaining connection limit, stream indices at limit-1/limit/limit+1, RESET_STREAM and FIN final sizes consistent and inconsistent with what was sent before, DATAGRAM payloads around the receive buffer size, CRYPTO data near and far beyond the buffer. The limits are those the victim put on the wire (transport parameters and MAX_* frames decoded from its packets). A reference model of the attacker's consumption predicts accept or the set of admissible close codes (FLOW_CONTROL_ERROR, STREAM_LIMIT_ERROR, FINAL_SIZE_ERROR, PROTOCOL_VIOLATION, CRYPTO_BUFFER_EXCEEDED); the victim's ConnectionLost and the code its peer receives must both agree; accepted bytes are verified byte-for-byte by the victim's reading application and never lie beyond the advertised stream limit or the final size; unread buffered bytes (probe) stay within the windows after every probe. (credit) honest worlds with small windows: every MAX_DATA / MAX_STREAM_DATA decoded from a receiver's packets <= bytes its application had consumed (or, for stopped/reset streams, the sender had written) at that moment + the configured window.".into(),
            assumptions: vec![
                "when a probe breaks several rules at once any of their codes is accepted".into(),
                "a frame for a stream whose final size is already known may be silently ignored if the victim's application is reading (the stream may have been consumed and forgotten) or if the stream was reset and the frame is a STREAM frame; a DATAGRAM whose payload fits the receive buffer but whose frame exceeds max_datagram_frame_size by its 1-3 header bytes may be accepted".into(),
            ],
            min_evals: ctx.tier.pick(1000, 20_000),
            min_nontrivial: ctx.tier.pick(500, 10_000),
            required: vec![
                "c06.probes",
                "c06.accept_expected",
                "c06.close_expected.FLOW_CONTROL_ERROR",
                "c06.close_expected.STREAM_LIMIT_ERROR",
                "c06.close_expected.FINAL_SIZE_ERROR",
                "c06.close_expected.PROTOCOL_VIOLATION",
                "c06.close_expected.CRYPTO_BUFFER_EXCEEDED",
                "c06.closed_with_prescribed_code",
                "c06.buffer_checks",
                "c06.credit_bound_checks",
                "c06.victim_stops",
                "c06.duplicate_storms",
                "c06.delivery_checks",
                "c06.credit_checks",
            ],
            exhaustive: false,
        },
        t.elapsed().as_secs_f64(),
    )
}
