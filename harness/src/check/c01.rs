//! C01 — stream data is delivered reliably, in order and exactly once.

use super::{common::*, finish, run_group, Ctx, Finish, Group, Report, Tier};
use crate::{
    scen::{Honest, Knobs},
    world::{Lane, RunEnd},
};

fn case(seed: u64, lane: Lane, trace: bool) -> super::CaseOut {
    let mut k = Knobs::default();
    k.lane = lane;
    k.n_clients = 1 + (seed % 3 == 0) as usize;
    k.migration = seed % 5 == 0;
    // faults confined to the first 20 s of virtual time so that "eventually delivers" holds
    k.fault_window_ns = Some(20_000_000_000);
    let h = Honest::random(seed, &k);
    let mut ran = run_honest(&h, trace, 30_000, 600_000_000_000);
    let lost = any_lost(&ran.w);
    // end-of-run completeness: nothing can ever happen again, both sides alive, yet a finished,
    // un-reset, un-stopped stream has not been fully delivered
    if ran.end == RunEnd::Quiescent && !lost {
        let missing: Vec<String> = ran
            .w
            .led
            .flows
            .iter()
            .filter(|(_, f)| f.must_complete() && !f.eos)
            .map(|(k, f)| format!("{k:?}: fin_at={:?} delivered={:?}", f.fin_at, f.delivered.as_slice()))
            .collect();
        if !missing.is_empty() {
            ran.w.led.violate("C01", format!("world quiescent with live connections but finished streams undelivered: {}", missing.join("; ")));
        }
    }
    let mut out = base_out(&h, &mut ran, trace);
    out.nontrivial = out.cnt.get("c01.bytes") > 0;
    if matches!(ran.end, RunEnd::StepCap | RunEnd::TimeCap) {
        out.inconclusive = Some(format!("{:?} before completion ({})", ran.end, h.summary()));
    }
    out
}

/// Stress the assembler: heavy duplication and reordering, slow partial readers that switch
/// from ordered to unordered reads.
fn dup_switch_case(seed: u64, trace: bool) -> super::CaseOut {
    let mut k = Knobs::default();
    k.ops = false;
    k.datagrams = false;
    k.aborts = false;
    k.max_streams = 3;
    k.max_stream_len = 30_000;
    k.fault_window_ns = Some(20_000_000_000);
    let mut h = Honest::random(seed, &k);
    h.net.dup_pm = 300;
    h.net.reorder_pm = 200;
    h.net.loss_pm = h.net.loss_pm.min(50);
    h.net.corrupt_pm = 0;
    for a in h.cli_app.iter_mut().chain([&mut h.srv_app]) {
        a.unordered_pct = 0;
        a.switch_pct = 100;
        a.budget_pct = 100;
        a.small_reads = true;
    }
    let mut ran = run_honest(&h, trace, 60_000, 600_000_000_000);
    let mut out = base_out(&h, &mut ran, trace);
    out.nontrivial = out.cnt.get("c01.ordered_to_unordered_switch") > 0;
    out
}

/// Late originals: every datagram that is reordered arrives well after its retransmission, so
/// receivers hold overlapping copies of the same ranges with different frame boundaries; readers
/// start late (nothing is read until the senders are done or a deadline passes), some unordered
/// from the first read, some switching to unordered after a few ordered reads.
fn late_originals_case(seed: u64, trace: bool) -> super::CaseOut {
    let mut r = crate::util::Rng::new(seed ^ 0xC01B);
    let mut k = Knobs::default();
    k.ops = false;
    k.datagrams = false;
    k.aborts = false;
    k.mtu_changes = false;
    k.max_streams = 3;
    k.max_stream_len = 40_000;
    k.fault_window_ns = Some(30_000_000_000);
    let mut h = Honest::random(seed, &k);
    h.net.latency_ns = *r.pick(&[200_000, 1_000_000, 5_000_000]);
    h.net.jitter_ns = 0;
    h.net.reorder_pm = *r.pick(&[150, 300, 500]);
    h.net.reorder_ns = h.net.latency_ns * *r.pick(&[6, 12, 40]);
    h.net.dup_pm = *r.pick(&[0, 100]);
    h.net.loss_pm = *r.pick(&[0, 0, 30]);
    h.net.corrupt_pm = 0;
    for t in h.cli_t.iter_mut().chain([&mut h.srv_t]) {
        t.pad_to_mtu = false;
        t.initial_rtt_ms = 1 + h.net.latency_ns / 500_000;
        // everything fits the windows, so that a held reader does not stall the sender
        t.stream_rwnd = t.stream_rwnd.max(100_000);
        t.rwnd = t.rwnd.max(1_000_000);
        t.send_window = t.send_window.max(1_000_000);
        t.max_bps = None;
    }
    let unordered_first = r.bool();
    for a in h.cli_app.iter_mut().chain([&mut h.srv_app]) {
        a.unordered_pct = if unordered_first { 100 } else { 0 };
        a.switch_pct = 100;
        a.budget_pct = *r.pick(&[0, 100]);
        a.small_reads = r.bool();
        a.stop_pct = 0;
    }
    let mut w = h.build();
    if trace {
        w.trace = Some(vec![]);
    }
    for e in w.eps.iter_mut() {
        for c in e.conns.values_mut() {
            c.app.hold_reads = true;
        }
    }
    // phase 1: senders push everything while nobody reads (server-side apps are created held
    // through the first loop iteration below)
    let release_at = 20 * h.net.reorder_ns + 200_000_000;
    let mut steps = 0u64;
    let mut released = false;
    let end = loop {
        if !released {
            for e in w.eps.iter_mut() {
                for c in e.conns.values_mut() {
                    c.app.hold_reads = true;
                }
            }
            let senders_done = w.steps > 3 && w.eps.iter().all(|e| e.conns.values().all(|c| c.app.connected && c.app.jobs_done()));
            if (senders_done && w.net.q.is_empty()) || w.now > release_at {
                released = true;
                for e in w.eps.iter_mut() {
                    for c in e.conns.values_mut() {
                        c.app.hold_reads = false;
                    }
                }
                w.mon.cnt.inc("c01.held_readers_released");
            }
        }
        if released && w.all_connected() && w.workload_complete() {
            break RunEnd::Done;
        }
        if steps > 60_000 {
            break RunEnd::StepCap;
        }
        if !w.step() {
            if !released {
                released = true;
                for e in w.eps.iter_mut() {
                    for c in e.conns.values_mut() {
                        c.app.hold_reads = false;
                    }
                }
                w.mon.cnt.inc("c01.held_readers_released");
                // one more round so that the released readers run
                w.flush_now();
                for e in w.eps.iter_mut() {
                    for c in e.conns.values_mut() {
                        let _ = c.app.poll_pending(&mut c.c, &mut w.led);
                    }
                }
                if w.step() {
                    continue;
                }
            }
            break if w.workload_complete() { RunEnd::Done } else { RunEnd::Quiescent };
        }
        steps += 1;
    };
    let mut ran = Ran { w, end };
    let mut out = base_out(&h, &mut ran, trace);
    out.nontrivial = out.cnt.get("c01.bytes") > 0 && out.cnt.get("c01.held_readers_released") > 0;
    if matches!(ran.end, RunEnd::StepCap | RunEnd::TimeCap) {
        out.inconclusive = Some(format!("{:?} before completion", ran.end));
    }
    out
}

/// Stream state recycling: tiny stream-count limits and many short streams one after the other,
/// half of them stopped or reset, so that every new stream inherits the freed state of an
/// earlier one.
pub(super) fn recycle_case(seed: u64, trace: bool, own: bool) -> super::CaseOut {
    let mut r = crate::util::Rng::new(seed ^ 0xC01C);
    let mut k = Knobs::default();
    k.ops = false;
    k.datagrams = false;
    k.mtu_changes = false;
    k.max_streams = 2;
    k.max_stream_len = 3000;
    k.idle_off = true;
    k.fault_window_ns = Some(5_000_000_000);
    let mut h = Honest::random(seed, &k);
    h.net.loss_pm = h.net.loss_pm.min(50);
    h.net.corrupt_pm = 0;
    for t in h.cli_t.iter_mut().chain([&mut h.srv_t]) {
        t.pad_to_mtu = false;
        t.max_bidi = *r.pick(&[1, 1, 2, 3]);
        t.max_uni = *r.pick(&[1, 1, 2, 3]);
        t.max_bps = None;
    }
    let n = 8 + r.usize(25);
    for a in h.cli_app.iter_mut().chain([&mut h.srv_app]) {
        a.stop_pct = *r.pick(&[30, 60]);
        a.respond_max = *r.pick(&[0, 10, 500]);
        a.plans.clear();
    }
    for _ in 0..n {
        let len = *r.pick(&[0u64, 1, 50, 700, 2500]);
        let end = if r.chance(25) { crate::app::EndMode::ResetAt { at: r.below(len + 1), code: r.below(50) } } else { crate::app::EndMode::Finish };
        let plan = crate::app::StreamPlan { bidi: r.bool(), len, chunk: *r.pick(&[100, 1200]), use_write_chunks: false, end, prio: 0 };
        if r.chance(70) {
            h.cli_app[0].plans.push(plan);
        } else {
            h.srv_app.plans.push(plan);
        }
    }
    let mut ran = run_honest(&h, trace, 80_000, 900_000_000_000);
    if matches!(ran.end, RunEnd::Quiescent) && !any_lost(&ran.w) {
        let missing: Vec<String> = ran.w.led.flows.iter().filter(|(_, f)| f.must_complete() && !f.complete()).map(|(k, f)| format!("{k:?} written={} delivered={} eos={}", f.written, f.delivered.total(), f.eos)).collect();
        if !missing.is_empty() {
            ran.w.led.violate("C01", format!("world quiescent with live connections but finished streams undelivered: {}", missing.join("; ")));
        }
    }
    let mut out = base_out(&h, &mut ran, trace);
    // a stream whose data can never be read although nobody stopped or reset it is a delivery
    // failure, whatever else it is
    for v in out.viol.iter_mut().filter(|_| own) {
        if v.prop == "C11" && v.msg.contains("read() -> ClosedStream before any terminal outcome") {
            v.prop = "C01";
            v.msg = format!("written data is unobtainable: {}", v.msg);
        }
    }
    out.nontrivial = out.cnt.get("c01.bytes") > 0 && out.cnt.get("app.stop") > 0;
    if matches!(ran.end, RunEnd::StepCap | RunEnd::TimeCap) {
        out.inconclusive = Some(format!("{:?} before completion", ran.end));
    }
    out
}

pub fn run(ctx: &Ctx) -> i32 {
    let t = std::time::Instant::now();
    let mut rep = Report::default();
    let g = Group { name: "honest-null", cases: ctx.tier.pick(600, 40_000), budget_s: ctx.tier.pick(40.0, 450.0), exhaustive: false };
    run_group(ctx, &mut rep, &g, |_, seed, trace| case(seed, Lane::Null, trace));
    let g = Group { name: "dup-switch", cases: ctx.tier.pick(300, 20_000), budget_s: ctx.tier.pick(20.0, 150.0), exhaustive: false };
    run_group(ctx, &mut rep, &g, |_, seed, trace| dup_switch_case(seed, trace));
    let g = Group { name: "late-originals", cases: ctx.tier.pick(1200, 60_000), budget_s: ctx.tier.pick(20.0, 200.0), exhaustive: false };
    run_group(ctx, &mut rep, &g, |_, seed, trace| late_originals_case(seed, trace));
    let g = Group { name: "recycle", cases: ctx.tier.pick(800, 40_000), budget_s: ctx.tier.pick(15.0, 150.0), exhaustive: false };
    run_group(ctx, &mut rep, &g, |_, seed, trace| recycle_case(seed, trace, true));
    // data written before the handshake completes (0-RTT, across Retry and rejection): the C17
    // worlds, where a byte the ledger never sees delivered, or sees twice, is a C01 failure too
    let g = Group { name: "early-data", cases: ctx.tier.pick(1500, 100_000), budget_s: ctx.tier.pick(10.0, 120.0), exhaustive: false };
    run_group(ctx, &mut rep, &g, |_, seed, trace| {
        let mut out = super::c17::case(seed, Lane::Null, trace, None);
        for v in out.viol.iter_mut().filter(|v| v.prop == "C17") {
            v.prop = "C01";
            v.msg = format!("[early data] {}", v.msg);
        }
        out
    });
    #[cfg(feature = "real")]
    {
        let g = Group { name: "honest-real", cases: ctx.tier.pick(100, 4_000), budget_s: ctx.tier.pick(25.0, 150.0), exhaustive: false };
        run_group(ctx, &mut rep, &g, |_, seed, trace| case(seed, Lane::Real, trace));
    }
    finish(
        ctx,
        &rep,
        Finish {
            level: "exploration",
            rule: "seeded random honest-peer worlds (1-2 clients, random transport configs, stream plans with random chunking / write vs write_chunks / finish / reset, ordered and unordered readers with max_length in {1,7,333,1200,MAX}, stops, key updates, window changes, rebinding; loss/dup/reorder/corruption/ECN-CE/MTU faults; random driver schedules) on the plaintext and rustls lanes. (early-data) the 0-RTT worlds of C17 under the same ledger. A case is non-trivial if at least one stream byte was delivered and verified; distinct = distinct coverage fingerprint (set of fault kinds fired x set of application/monitor counters touched x volume buckets x end state).".into(),
            assumptions: vec![
                "payload bytes are a pure function of (connection pair, writer, stream id, offset), so every delivered byte identifies the write it came from".into(),
                "null crypto lane replaces TLS by a keyed-hash session behind quinn's public crypto traits; the rustls lane runs the production path".into(),
            ],
            min_evals: ctx.tier.pick(60, 2000),
            min_nontrivial: ctx.tier.pick(20, 200),
            required: vec!["c01.chunks", "c01.eos", "net.loss", "net.dup", "net.reorder", "c01.ordered_to_unordered_switch", "c01.partial_reads", "c01.held_readers_released"],
            exhaustive: false,
        },
        t.elapsed().as_secs_f64(),
    )
}

#[allow(dead_code)]
fn _unused(_: Tier) {}
