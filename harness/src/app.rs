//! Event-driven applications and the shared ledger that joins sender- and receiver-side
//! observations (C01, C11, C16 oracles live here because they sit at the API boundary).

use std::collections::{BTreeMap, VecDeque};

use bytes::Bytes;
use proto::{
    Connection, Dir, Event, FinishError, ReadError, ReadableError, SendDatagramError, Side,
    StreamEvent, StreamId, VarInt, WriteError,
};

use crate::util::{hash64, payload_check, payload_fill, Ranges, Rng};

#[derive(Debug, Clone)]
pub struct Violation {
    pub prop: &'static str,
    pub msg: String,
}

#[derive(Default, Debug)]
pub struct Counters {
    pub m: BTreeMap<&'static str, u64>,
}

impl Counters {
    pub fn add(&mut self, k: &'static str, n: u64) {
        *self.m.entry(k).or_insert(0) += n;
    }
    pub fn inc(&mut self, k: &'static str) {
        self.add(k, 1)
    }
    pub fn get(&self, k: &str) -> u64 {
        self.m.get(k).copied().unwrap_or(0)
    }
    pub fn merge(&mut self, o: &Counters) {
        for (k, v) in &o.m {
            *self.m.entry(k).or_insert(0) += v;
        }
    }
}

// ---------------------------------------------------------------------------------------------
// Ledger
// ---------------------------------------------------------------------------------------------

#[derive(Debug, Default, Clone)]
pub struct Flow {
    pub key: u64,
    // sender side
    pub written: u64,
    pub fin_at: Option<u64>,
    pub reset: Option<u64>,
    pub finished_evt: u32,
    pub stopped_seen: Option<u64>,
    pub early: bool,
    /// bytes written before the handshake completed (0-RTT candidates)
    pub early_written: u64,
    // receiver side
    pub delivered: Ranges,
    pub ordered_next: u64,
    pub eos: bool,
    pub recv_reset: Option<u64>,
    pub recv_stop: Option<u64>,
    pub unordered: bool,
}

impl Flow {
    /// Sender finished normally and the receiver never stopped it: must be fully delivered.
    pub fn must_complete(&self) -> bool {
        self.fin_at.is_some() && self.reset.is_none() && self.recv_stop.is_none() && self.stopped_seen.is_none()
    }
    pub fn complete(&self) -> bool {
        self.eos && self.finished_evt > 0
    }
}

#[derive(Debug, Default, Clone)]
pub struct DgramFlow {
    pub key: u64,
    /// (seq, len) accepted by `send`
    pub sent: Vec<(u32, u32)>,
    /// seqs delivered by `recv` in order
    pub received: Vec<u32>,
    pub anonymous_received: u64,
}

pub type FlowKey = (u64, bool, u64); // (pair, writer is client, stream id)

#[derive(Default)]
pub struct Ledger {
    pub flows: BTreeMap<FlowKey, Flow>,
    pub dgrams: BTreeMap<(u64, bool), DgramFlow>,
    pub viol: Vec<Violation>,
    pub cnt: Counters,
    /// bumped when a pair's 0-RTT data is rejected: flows written afterwards carry different
    /// bytes than the rejected attempt did
    pub epoch: BTreeMap<u64, u32>,
}

impl Ledger {
    pub fn flow(&mut self, pair: u64, writer_client: bool, sid: u64) -> &mut Flow {
        let ep = self.epoch.get(&pair).copied().unwrap_or(0);
        self.flows.entry((pair, writer_client, sid)).or_insert_with(|| Flow {
            key: hash64(pair, &[b"flow", &[writer_client as u8], &sid.to_le_bytes(), &ep.to_le_bytes()]),
            ..Flow::default()
        })
    }
    pub fn dgram(&mut self, pair: u64, writer_client: bool) -> &mut DgramFlow {
        let ep = self.epoch.get(&pair).copied().unwrap_or(0);
        self.dgrams.entry((pair, writer_client)).or_insert_with(|| DgramFlow {
            key: hash64(pair, &[b"dgram", &[writer_client as u8], &ep.to_le_bytes()]),
            ..DgramFlow::default()
        })
    }
    pub fn violate(&mut self, prop: &'static str, msg: String) {
        if self.viol.len() < 64 {
            self.viol.push(Violation { prop, msg });
        }
    }
}

// ---------------------------------------------------------------------------------------------
// Application configuration
// ---------------------------------------------------------------------------------------------

#[derive(Debug, Clone, Copy, PartialEq, Eq)]
pub enum EndMode {
    Finish,
    /// reset(code) once at least `at` bytes were written
    ResetAt { at: u64, code: u64 },
    /// never finish (stream stays open)
    Leave,
}

#[derive(Debug, Clone)]
pub struct StreamPlan {
    pub bidi: bool,
    pub len: u64,
    /// maximum size of one write call (1..)
    pub chunk: usize,
    pub use_write_chunks: bool,
    pub end: EndMode,
    pub prio: i32,
}

#[derive(Debug, Clone)]
pub struct AppCfg {
    pub plans: Vec<StreamPlan>,
    /// start opening/writing before `Connected` (0-RTT / pre-handshake queueing)
    pub start_early: bool,
    /// response length on accepted bidirectional streams is `hash % (respond_max + 1)`
    pub respond_max: u64,
    pub respond_chunk: usize,
    /// whether this application reads at all
    pub read_enabled: bool,
    /// percentages for the receiver policy
    pub unordered_pct: u32,
    pub stop_pct: u32,
    pub policy_seed: u64,
    /// datagrams to send: (count, min size, max size, drop flag percentage)
    pub dgram_count: u32,
    pub dgram_min: usize,
    pub dgram_max: usize,
    pub dgram_drop_pct: u32,
    pub dgram_read: bool,
    /// percentage of ordered readers that later switch to unordered reads
    pub switch_pct: u32,
    /// percentage of readers with a per-wake-up chunk budget (partial reads)
    pub budget_pct: u32,
    /// force small max_length values
    pub small_reads: bool,
    /// do nothing on events except recording them (the check drives the API itself)
    pub inert: bool,
}

impl Default for AppCfg {
    fn default() -> Self {
        Self {
            plans: vec![],
            start_early: false,
            respond_max: 0,
            respond_chunk: 4096,
            read_enabled: true,
            unordered_pct: 30,
            stop_pct: 0,
            policy_seed: 0,
            dgram_count: 0,
            dgram_min: 0,
            dgram_max: 0,
            dgram_drop_pct: 0,
            dgram_read: true,
            switch_pct: 35,
            budget_pct: 30,
            small_reads: false,
            inert: false,
        }
    }
}

#[derive(Debug)]
struct SendJob {
    sid: StreamId,
    len: u64,
    chunk: usize,
    use_write_chunks: bool,
    end: EndMode,
    written: u64,
    done: bool,
}

#[derive(Debug, Clone, Copy)]
struct RecvPolicy {
    ordered: bool,
    max_len: usize,
    stop_after: Option<(u64, u64)>,
    /// start with ordered reads, switch to unordered once this many bytes were read (legal;
    /// the reverse is not)
    switch_after: Option<u64>,
    /// read at most this many chunks per wake-up, continuing at the next step (partial reads
    /// leave overlapping retransmissions sitting in the assembler)
    budget: Option<u32>,
}

#[derive(Debug, Default)]
struct RecvJob {
    done: bool,
    read: u64,
    switched: bool,
    calls: u64,
}

pub struct App {
    pub cfg: AppCfg,
    pub side: Side,
    pub pair: u64,
    pub connected: bool,
    /// the peer's transport parameters have been processed
    pub hs_data_ready: bool,
    pub lost: Vec<String>,
    pub lost_count: u32,
    pending_plans: VecDeque<StreamPlan>,
    waiting_available: [bool; 2],
    jobs: BTreeMap<u64, SendJob>,
    recvs: BTreeMap<u64, RecvJob>,
    rng: Rng,
    scratch: Vec<u8>,
    dgram_next: u32,
    pub dgram_blocked: bool,
    pub events_seen: u64,
    /// configured datagram send buffer (for the admission model)
    pub dgram_send_buf: Option<usize>,
    /// events recorded in inert mode
    pub raw_events: Vec<Event>,
    /// streams whose last read stopped on its chunk budget, not on Blocked
    pending_reads: std::collections::BTreeSet<u64>,
    /// log of application-visible history (for C04 / C20 comparisons)
    pub history: Vec<String>,
    pub record_history: bool,
    /// while set, reads are postponed (streams are remembered and read once it is cleared)
    pub hold_reads: bool,
}

fn sid_u64(id: StreamId) -> u64 {
    u64::from(id)
}

impl App {
    pub fn new(cfg: AppCfg, side: Side, pair: u64, seed: u64) -> Self {
        let pending_plans = cfg.plans.iter().cloned().collect();
        Self {
            cfg,
            side,
            pair,
            connected: false,
            hs_data_ready: false,
            lost: vec![],
            lost_count: 0,
            pending_plans,
            waiting_available: [false; 2],
            jobs: BTreeMap::new(),
            recvs: BTreeMap::new(),
            rng: Rng::new(seed ^ 0xA99),
            scratch: Vec::new(),
            dgram_next: 0,
            dgram_blocked: false,
            events_seen: 0,
            dgram_send_buf: None,
            pending_reads: Default::default(),
            hold_reads: false,
            raw_events: Vec::new(),
            history: vec![],
            record_history: false,
        }
    }

    fn is_client(&self) -> bool {
        self.side == Side::Client
    }

    fn hist(&mut self, s: impl FnOnce() -> String) {
        if self.record_history {
            let s = s();
            self.history.push(s);
        }
    }

    fn policy(&self, sid: u64) -> RecvPolicy {
        let h = hash64(self.cfg.policy_seed ^ self.pair, &[b"policy", &sid.to_le_bytes(), &[self.is_client() as u8]]);
        let ordered = (h % 100) as u32 >= self.cfg.unordered_pct;
        let max_len = match (h >> 8) % 6 {
            0 => 1,
            1 => 7,
            2 => 1200,
            3 => 333,
            _ => usize::MAX,
        };
        let max_len = if self.cfg.small_reads { [1usize, 7, 33][((h >> 8) % 3) as usize] } else { max_len };
        let stop_after = if ((h >> 16) % 100) < self.cfg.stop_pct as u64 {
            Some(((h >> 24) % 5000, (h >> 40) % 1000))
        } else {
            None
        };
        let switch_after = if ordered && (h >> 48) % 100 < self.cfg.switch_pct as u64 { Some((h >> 52) % 12) } else { None };
        let budget = if (h >> 56) % 100 < self.cfg.budget_pct as u64 { Some(1 + ((h >> 58) % 4) as u32) } else { None };
        RecvPolicy { ordered, max_len, stop_after, switch_after, budget }
    }

    /// Called once when the connection object exists (before any event).
    pub fn start(&mut self, conn: &mut Connection, led: &mut Ledger) {
        if self.cfg.start_early {
            self.try_open(conn, led);
            self.pump_dgrams(conn, led);
        }
    }

    pub fn on_event(&mut self, conn: &mut Connection, ev: Event, led: &mut Ledger) {
        self.events_seen += 1;
        if self.cfg.inert {
            if matches!(ev, Event::Connected) {
                self.connected = true;
            }
            if let Event::ConnectionLost { reason } = &ev {
                self.lost_count += 1;
                self.lost.push(format!("{reason:?}"));
            }
            self.raw_events.push(ev);
            return;
        }
        match ev {
            Event::HandshakeDataReady => self.hs_data_ready = true,
            Event::HandshakeConfirmed => {}
            Event::Connected => {
                self.hist(|| "Connected".into());
                if self.connected {
                    led.violate("C11", format!("pair {:x}: second Connected event", self.pair));
                }
                self.connected = true;
                // limits become known (or change) with the handshake: retry opens now
                self.waiting_available = [false; 2];
                self.try_open(conn, led);
                self.pump_dgrams(conn, led);
                // 0-RTT rejection may have invalidated early streams: jobs are re-driven by
                // `resume_after_rejection` from the world when it detects it.
            }
            Event::ConnectionLost { reason } => {
                self.hist(|| format!("Lost({reason})"));
                self.lost_count += 1;
                self.lost.push(format!("{reason:?}"));
            }
            Event::Stream(se) => match se {
                StreamEvent::Opened { dir } => {
                    self.hist(|| format!("Opened({dir:?})"));
                    let mut any = false;
                    let mut accepted = 0u64;
                    while let Some(id) = conn.streams().accept(dir) {
                        any = true;
                        accepted += 1;
                        if accepted > 100_000 {
                            // no configuration used here allows this many streams at once
                            led.violate("C03", format!("pair {:x}: accept({dir:?}) handed out more than 100000 streams after one Opened event (last {id})", self.pair));
                            break;
                        }
                        led.cnt.inc("app.accepted");
                        if id.initiator() == self.side {
                            led.violate("C11", format!("accept() returned locally-initiated {id}"));
                        }
                        if dir == Dir::Bi {
                            self.start_response(conn, id, led);
                        }
                        self.do_read(conn, id, led);
                    }
                    if !any {
                        led.cnt.inc("app.opened_without_stream");
                    }
                }
                StreamEvent::Readable { id } => {
                    self.hist(|| format!("Readable({})", sid_u64(id)));
                    self.do_read(conn, id, led);
                }
                StreamEvent::Writable { id } => {
                    self.hist(|| format!("Writable({})", sid_u64(id)));
                    self.pump_job(conn, sid_u64(id), led);
                }
                StreamEvent::Finished { id } => {
                    self.hist(|| format!("Finished({})", sid_u64(id)));
                    let f = led.flow(self.pair, self.is_client(), sid_u64(id));
                    f.finished_evt += 1;
                    let (n, fin, stopped) = (f.finished_evt, f.fin_at, f.stopped_seen);
                    if n > 1 {
                        led.violate("C11", format!("pair {:x} {id}: Finished emitted {n} times", self.pair));
                    }
                    if fin.is_none() && stopped.is_none() {
                        led.violate("C11", format!("pair {:x} {id}: Finished without finish()", self.pair));
                    }
                }
                StreamEvent::Stopped { id, error_code } => {
                    self.hist(|| format!("Stopped({},{})", sid_u64(id), error_code));
                    let f = led.flow(self.pair, self.is_client(), sid_u64(id));
                    let want = f.recv_stop;
                    let already = f.stopped_seen;
                    f.stopped_seen = Some(error_code.into_inner());
                    led.cnt.inc("app.stopped_evt");
                    match want {
                        Some(c) if c == error_code.into_inner() => {}
                        other => led.violate(
                            "C11",
                            format!("pair {:x} {id}: Stopped({error_code}) but receiver stop was {other:?}", self.pair),
                        ),
                    }
                    let _ = already;
                    if let Some(j) = self.jobs.get_mut(&sid_u64(id)) {
                        j.done = true;
                    }
                    self.reset_after_stop(conn, id, error_code, led);
                }
                StreamEvent::Available { dir } => {
                    self.hist(|| format!("Available({dir:?})"));
                    self.waiting_available[dir as usize] = false;
                    self.try_open(conn, led);
                }
            },
            Event::DatagramReceived => {
                self.hist(|| "DatagramReceived".into());
                if self.cfg.dgram_read {
                    self.read_dgrams(conn, led);
                }
            }
            Event::DatagramsUnblocked => {
                self.hist(|| "DatagramsUnblocked".into());
                self.dgram_blocked = false;
                self.pump_dgrams(conn, led);
            }
        }
    }

    /// quinn-proto leaves it to the application to abandon a stopped stream (the async layer
    /// does the same in `SendStream::drop`): reset it with the peer's code.
    fn reset_after_stop(&mut self, conn: &mut Connection, id: StreamId, code: VarInt, led: &mut Ledger) {
        if conn.send_stream(id).reset(code).is_ok() {
            let f = led.flow(self.pair, self.is_client(), sid_u64(id));
            if f.reset.is_none() {
                f.reset = Some(code.into_inner());
            }
            led.cnt.inc("app.reset_after_stop");
        }
    }

    fn try_open(&mut self, conn: &mut Connection, led: &mut Ledger) {
        while let Some(plan) = self.pending_plans.front() {
            let dir = if plan.bidi { Dir::Bi } else { Dir::Uni };
            if self.waiting_available[dir as usize] {
                // strictly event-driven: wait for Available
                break;
            }
            match conn.streams().open(dir) {
                Some(id) => {
                    let plan = self.pending_plans.pop_front().unwrap();
                    led.cnt.inc("app.opened");
                    self.hist(|| format!("open->{}", sid_u64(id)));
                    if id.initiator() != self.side || id.dir() != dir {
                        led.violate("C11", format!("open({dir:?}) returned {id}"));
                    }
                    let early = !self.connected;
                    let f = led.flow(self.pair, self.is_client(), sid_u64(id));
                    f.early = early;
                    if plan.prio != 0 {
                        let _ = conn.send_stream(id).set_priority(plan.prio);
                    }
                    self.jobs.insert(
                        sid_u64(id),
                        SendJob {
                            sid: id,
                            len: plan.len,
                            chunk: plan.chunk.max(1),
                            use_write_chunks: plan.use_write_chunks,
                            end: plan.end,
                            written: 0,
                            done: false,
                        },
                    );
                    self.pump_job(conn, sid_u64(id), led);
                }
                None => {
                    self.waiting_available[dir as usize] = true;
                    led.cnt.inc("app.open_blocked");
                    break;
                }
            }
        }
    }

    fn start_response(&mut self, conn: &mut Connection, id: StreamId, led: &mut Ledger) {
        let h = hash64(self.pair, &[b"resp", &sid_u64(id).to_le_bytes()]);
        let len = if self.cfg.respond_max == 0 { 0 } else { h % (self.cfg.respond_max + 1) };
        self.jobs.insert(
            sid_u64(id),
            SendJob {
                sid: id,
                len,
                chunk: self.cfg.respond_chunk.max(1),
                use_write_chunks: h & 0x100 != 0,
                end: EndMode::Finish,
                written: 0,
                done: false,
            },
        );
        self.pump_job(conn, sid_u64(id), led);
    }

    fn pump_job(&mut self, conn: &mut Connection, sid: u64, led: &mut Ledger) {
        let Some(job) = self.jobs.get_mut(&sid) else {
            return;
        };
        if job.done {
            return;
        }
        let pair = self.pair;
        let is_client = self.side == Side::Client;
        let connected = self.connected;
        let key = led.flow(pair, is_client, sid).key;
        loop {
            if let EndMode::ResetAt { at, code } = job.end {
                if job.written >= at.min(job.len) {
                    let r = conn.send_stream(job.sid).reset(VarInt::from_u64(code).unwrap());
                    let f = led.flow(pair, is_client, sid);
                    if r.is_ok() {
                        f.reset = Some(code);
                        led.cnt.inc("app.reset");
                    }
                    job.done = true;
                    if self.record_history {
                        self.history.push(format!("reset({sid})->{r:?}"));
                    }
                    return;
                }
            }
            if job.written >= job.len {
                match job.end {
                    EndMode::Finish => {
                        let r = conn.send_stream(job.sid).finish();
                        if self.record_history {
                            self.history.push(format!("finish({sid})->{r:?}"));
                        }
                        let f = led.flow(pair, is_client, sid);
                        match r {
                            Ok(()) => {
                                f.fin_at = Some(job.written);
                                led.cnt.inc("app.finish");
                            }
                            Err(FinishError::Stopped(c)) => {
                                let want = f.recv_stop;
                                f.stopped_seen = Some(c.into_inner());
                                if want != Some(c.into_inner()) {
                                    led.violate("C11", format!("finish: Stopped({c}) but receiver stop was {want:?}"));
                                }
                                if conn.send_stream(job.sid).reset(c).is_ok() {
                                    let f = led.flow(pair, is_client, sid);
                                    f.reset.get_or_insert(c.into_inner());
                                }
                            }
                            Err(FinishError::ClosedStream) => {
                                if conn.is_closed() || f.stopped_seen.is_some() {
                                    // connection gone or stream already stopped and reaped
                                } else {
                                    led.violate("C11", format!("pair {pair:x} sid {sid}: finish() -> ClosedStream on open stream"));
                                }
                            }
                        }
                    }
                    _ => {}
                }
                job.done = true;
                return;
            }
            let mut n = (job.len - job.written).min(job.chunk as u64) as usize;
            if n > 1 {
                n = 1 + self.rng.usize(n);
            }
            if let EndMode::ResetAt { at, .. } = job.end {
                // do not overshoot the reset point by more than a chunk
                let _ = at;
            }
            self.scratch.resize(n, 0);
            payload_fill(key, job.written, &mut self.scratch);
            let probe_before = if self.rng.below(8) == 0 { Some(conn.verif_probe().streams) } else { None };
            let res: Result<usize, WriteError> = if job.use_write_chunks {
                // split into up to 3 Bytes chunks
                let a = n / 3;
                let b = n / 2;
                let mut chunks = [
                    Bytes::copy_from_slice(&self.scratch[..a]),
                    Bytes::copy_from_slice(&self.scratch[a..b]),
                    Bytes::copy_from_slice(&self.scratch[b..]),
                ];
                conn.send_stream(job.sid).write_chunks(&mut chunks).map(|w| w.bytes)
            } else {
                conn.send_stream(job.sid).write(&self.scratch)
            };
            match res {
                Ok(w) => {
                    led.cnt.inc("app.write_ok");
                    if let Some(b) = probe_before {
                        let a = conn.verif_probe().streams;
                        led.cnt.inc("c05.unacked_checks");
                        if a.unacked_data > b.send_window.max(b.unacked_data) {
                            led.violate(
                                "C05",
                                format!("pair {pair:x} sid {sid}: write of {w} bytes took unacked_data from {} to {} above send_window {}", b.unacked_data, a.unacked_data, b.send_window),
                            );
                        }
                        if a.data_sent > a.max_data {
                            led.violate("C05", format!("pair {pair:x} sid {sid}: data_sent {} exceeds peer max_data {}", a.data_sent, a.max_data));
                        }
                    }
                    if w == 0 || w > n {
                        led.violate("C05", format!("pair {pair:x} sid {sid}: write({n}) returned {w}"));
                        job.done = true;
                        return;
                    }
                    job.written += w as u64;
                    let f = led.flow(pair, is_client, sid);
                    f.written = job.written;
                    if !connected {
                        f.early_written = job.written;
                    }
                    if self.record_history {
                        self.history.push(format!("write({sid},{n})->{w}"));
                    }
                }
                Err(WriteError::Blocked) => {
                    led.cnt.inc("app.write_blocked");
                    if self.record_history {
                        self.history.push(format!("write({sid},{n})->Blocked"));
                    }
                    return;
                }
                Err(WriteError::Stopped(c)) => {
                    let f = led.flow(pair, is_client, sid);
                    let want = f.recv_stop;
                    f.stopped_seen = Some(c.into_inner());
                    if want != Some(c.into_inner()) {
                        led.violate("C11", format!("write: Stopped({c}) but receiver stop was {want:?}"));
                    }
                    led.cnt.inc("app.write_stopped");
                    if conn.send_stream(job.sid).reset(c).is_ok() {
                        let f = led.flow(pair, is_client, sid);
                        f.reset.get_or_insert(c.into_inner());
                    }
                    job.done = true;
                    return;
                }
                Err(WriteError::ClosedStream) => {
                    let f = led.flow(pair, is_client, sid);
                    if !(conn.is_closed() || f.stopped_seen.is_some() || f.early) {
                        led.violate("C11", format!("pair {pair:x} sid {sid}: write() -> ClosedStream on open stream"));
                    }
                    job.done = true;
                    return;
                }
            }
        }
    }

    pub fn do_read(&mut self, conn: &mut Connection, id: StreamId, led: &mut Ledger) {
        if !self.cfg.read_enabled {
            return;
        }
        if self.hold_reads {
            self.pending_reads.insert(sid_u64(id));
            return;
        }
        let sid = sid_u64(id);
        let pol = self.policy(sid);
        let pair = self.pair;
        let writer_client = !self.is_client();
        let job = self.recvs.entry(sid).or_default();
        if job.done {
            // A Readable for a stream we already saw the end of: allowed (spurious) but must
            // report a closed stream.
            match conn.recv_stream(id).read(pol.ordered) {
                Err(ReadableError::ClosedStream) => {}
                Err(ReadableError::IllegalOrderedRead) => {}
                Ok(mut c) => {
                    let r = c.next(usize::MAX);
                    let _ = c.finalize();
                    let f = led.flow(pair, writer_client, sid);
                    if f.recv_stop.is_none() {
                        led.violate("C11", format!("pair {pair:x} {id}: readable again after terminal outcome: {r:?}"));
                    }
                }
            }
            return;
        }
        let key = led.flow(pair, writer_client, sid).key;
        job.calls += 1;
        if let Some(n) = pol.switch_after {
            // switch on the n-th wake-up that follows some ordered reading
            if job.calls > n + 1 && job.read > 0 && !job.switched {
                job.switched = true;
                led.cnt.inc("c01.ordered_to_unordered_switch");
            }
        }
        let mut pol = pol;
        if job.switched {
            pol.ordered = false;
        }
        let pol = pol;
        led.flow(pair, writer_client, sid).unordered = !pol.ordered;
        let conn_closed = conn.is_closed();
        // "blind" stop: some stopping readers give up on their 1st..3rd wake-up without reading
        // anything (whatever has arrived by then - data, FIN, a reset - is still unread)
        if let Some((after, code)) = pol.stop_after {
            if after < 1500 && job.read == 0 && job.calls as u64 >= 1 + after % 3 {
                let r = conn.recv_stream(id).stop(VarInt::from_u64(code).unwrap());
                if r.is_ok() {
                    led.flow(pair, writer_client, sid).recv_stop = Some(code);
                    led.cnt.inc("app.stop");
                    led.cnt.inc("app.blind_stop");
                }
                job.done = true;
                self.pending_reads.remove(&sid);
                return;
            }
        }
        let mut rs = conn.recv_stream(id);
        let mut chunks = match rs.read(pol.ordered) {
            Ok(c) => c,
            Err(ReadableError::ClosedStream) => {
                let f = led.flow(pair, writer_client, sid);
                if f.recv_stop.is_none() && !f.eos && f.recv_reset.is_none() && !conn_closed {
                    led.violate("C11", format!("pair {pair:x} {id}: read() -> ClosedStream before any terminal outcome"));
                }
                return;
            }
            Err(ReadableError::IllegalOrderedRead) => {
                led.violate("C11", format!("pair {pair:x} {id}: IllegalOrderedRead with a fixed policy"));
                return;
            }
        };
        let mut stop_now = None;
        let mut chunks_this_call = 0u32;
        let mut budget_hit = false;
        self.pending_reads.remove(&sid);
        loop {
            if pol.budget.map_or(false, |b| chunks_this_call >= b) {
                budget_hit = true;
                break;
            }
            chunks_this_call += 1;
            match chunks.next(pol.max_len) {
                Ok(Some(chunk)) => {
                    led.cnt.inc("c01.chunks");
                    led.cnt.add("c01.bytes", chunk.bytes.len() as u64);
                    let len = chunk.bytes.len() as u64;
                    if chunk.bytes.is_empty() {
                        led.violate("C01", format!("pair {pair:x} {id}: empty chunk at {}", chunk.offset));
                    }
                    if pol.max_len != usize::MAX && chunk.bytes.len() > pol.max_len {
                        led.violate("C01", format!("pair {pair:x} {id}: chunk of {} exceeds max_length {}", chunk.bytes.len(), pol.max_len));
                    }
                    if let Some(i) = payload_check(key, chunk.offset, &chunk.bytes) {
                        led.violate(
                            "C01",
                            format!("pair {pair:x} {id}: byte at offset {} differs from what was written", chunk.offset + i as u64),
                        );
                    }
                    let f = led.flow(pair, writer_client, sid);
                    let mut msgs = vec![];
                    if chunk.offset + len > f.written {
                        msgs.push(format!(
                            "pair {pair:x} {id}: delivered [{}..{}) beyond written {}",
                            chunk.offset,
                            chunk.offset + len,
                            f.written
                        ));
                    }
                    if pol.ordered {
                        if chunk.offset != f.ordered_next {
                            msgs.push(format!(
                                "pair {pair:x} {id}: ordered chunk at {} but previous end {}",
                                chunk.offset, f.ordered_next
                            ));
                        }
                        f.ordered_next = chunk.offset + len;
                    }
                    let overlap = f.delivered.insert(chunk.offset, chunk.offset + len);
                    if overlap > 0 {
                        msgs.push(format!(
                            "pair {pair:x} {id}: {} bytes delivered twice at [{}..{})",
                            overlap,
                            chunk.offset,
                            chunk.offset + len
                        ));
                    }
                    for m in msgs {
                        led.violate("C01", m);
                    }
                    job.read += len;
                    if let Some((after, code)) = pol.stop_after {
                        if job.read >= after {
                            stop_now = Some(code);
                            break;
                        }
                    }
                }
                Ok(None) => {
                    led.cnt.inc("c01.eos");
                    let f = led.flow(pair, writer_client, sid);
                    f.eos = true;
                    let fin = f.fin_at;
                    let ok = match fin {
                        Some(l) => f.delivered.is_exactly(0, l),
                        None => false,
                    };
                    if !ok {
                        let d = f.delivered.as_slice().to_vec();
                        led.violate(
                            "C01",
                            format!("pair {pair:x} {id}: end-of-stream but delivered {d:?} vs finish offset {fin:?}"),
                        );
                    }
                    job.done = true;
                    if self.record_history {
                        self.history.push(format!("eos({sid})"));
                    }
                    break;
                }
                Err(ReadError::Blocked) => break,
                Err(ReadError::Reset(code)) => {
                    led.cnt.inc("c01.reset_seen");
                    let f = led.flow(pair, writer_client, sid);
                    f.recv_reset = Some(code.into_inner());
                    // A reset is legitimate if the sender reset() with this code, or if the
                    // sender was stopped by us (implicit reset carries our stop code).
                    let ok = f.reset == Some(code.into_inner())
                        || (f.recv_stop.is_some() && f.recv_stop == Some(code.into_inner()))
                        || f.early;
                    if !ok {
                        let (r, s) = (f.reset, f.recv_stop);
                        led.violate(
                            "C01",
                            format!("pair {pair:x} {id}: Reset({code}) reported but sender reset={r:?} our stop={s:?}"),
                        );
                    }
                    job.done = true;
                    if self.record_history {
                        self.history.push(format!("reset_seen({sid},{code})"));
                    }
                    break;
                }
            }
        }
        let _ = chunks.finalize();
        if budget_hit && !job.done {
            self.pending_reads.insert(sid);
            led.cnt.inc("c01.partial_reads");
        }
        if let Some(code) = stop_now {
            let r = conn.recv_stream(id).stop(VarInt::from_u64(code).unwrap());
            if r.is_ok() {
                led.flow(pair, writer_client, sid).recv_stop = Some(code);
                led.cnt.inc("app.stop");
            }
            job.done = true;
        }
    }

    // ----------------------------------------------------------------------------------------
    // datagrams
    // ----------------------------------------------------------------------------------------

    pub fn make_dgram(key: u64, seq: u32, len: usize) -> Vec<u8> {
        let mut v = vec![0u8; len];
        if len >= 8 {
            v[..4].copy_from_slice(&seq.to_le_bytes());
            v[4..8].copy_from_slice(&(len as u32).to_le_bytes());
            payload_fill(key ^ (seq as u64) << 20, 0, &mut v[8..]);
        } else {
            payload_fill(key ^ 0xABCD ^ len as u64, 0, &mut v);
        }
        v
    }

    /// how many of its datagrams this application has disposed of so far (queued, or given up on)
    pub fn dgram_progress(&self) -> u32 {
        self.dgram_next
    }

    fn pump_dgrams(&mut self, conn: &mut Connection, led: &mut Ledger) {
        if self.dgram_blocked {
            return;
        }
        let is_client = self.is_client();
        let pair = self.pair;
        while self.dgram_next < self.cfg.dgram_count {
            let Some(max) = conn.datagrams().max_size() else {
                led.cnt.inc("c16.unsupported");
                return;
            };
            let key = led.dgram(pair, is_client).key;
            let hi = self.cfg.dgram_max.min(max + 2);
            let lo = self.cfg.dgram_min.min(hi);
            let len = lo + self.rng.usize(hi - lo + 1);
            let seq = self.dgram_next;
            let drop = self.rng.chance(self.cfg.dgram_drop_pct);
            let data = Self::make_dgram(key, seq, len);
            let space_before = conn.datagrams().send_buffer_space();
            let r = conn.datagrams().send(Bytes::from(data), drop);
            led.cnt.inc("c16.send_calls");
            if let Some(sbuf) = self.dgram_send_buf {
                // admission model: TooLarge iff len > min(max_size, send buffer); Blocked iff
                // !drop and queued + len > send buffer; otherwise Ok
                led.cnt.inc("c16.admission_checks");
                let queued = sbuf.saturating_sub(space_before);
                let expect = if len > max.min(sbuf) {
                    "TooLarge"
                } else if !drop && queued + len > sbuf {
                    "Blocked"
                } else {
                    "Ok"
                };
                let got = match &r {
                    Ok(()) => "Ok",
                    Err(SendDatagramError::TooLarge) => "TooLarge",
                    Err(SendDatagramError::Blocked(_)) => "Blocked",
                    Err(_) => "Other",
                };
                if got != expect {
                    led.violate(
                        "C16",
                        format!("send(len={len}, drop={drop}) -> {got}, model says {expect} (max_size={max}, send buffer={sbuf}, queued={queued})"),
                    );
                }
            }
            match r {
                Ok(()) => {
                    if len > max {
                        led.violate("C16", format!("send accepted {len} bytes above max_size {max}"));
                    }
                    let space_after = conn.datagrams().send_buffer_space();
                    if !drop && space_after + len != space_before {
                        led.violate(
                            "C16",
                            format!("send_buffer_space went {space_before} -> {space_after} for a {len}-byte datagram"),
                        );
                    }
                    led.dgram(pair, is_client).sent.push((seq, len as u32));
                    self.dgram_next += 1;
                }
                Err(SendDatagramError::TooLarge) => {
                    led.cnt.inc("c16.too_large");
                    if len <= max && len <= space_before.max(len) {
                        // TooLarge iff len > min(max_size, send_buffer_size); the configured
                        // buffer size is not visible here, the world checks that part.
                        led.cnt.inc("c16.too_large_within_max");
                    }
                    self.dgram_next += 1;
                }
                Err(SendDatagramError::Blocked(_)) => {
                    led.cnt.inc("c16.blocked");
                    if drop {
                        led.violate("C16", "send(drop=true) returned Blocked".into());
                    }
                    if len <= space_before {
                        led.violate(
                            "C16",
                            format!("send({len}) Blocked although send_buffer_space was {space_before}"),
                        );
                    }
                    self.dgram_blocked = true;
                    // an impatient sender tries something smaller that still fits: it must be
                    // accepted, and the caller that was refused is still owed DatagramsUnblocked
                    if space_before > 0 && self.rng.chance(40) && self.dgram_next + 1 < self.cfg.dgram_count {
                        let len2 = self.rng.usize(space_before.min(max) + 1);
                        let seq2 = self.dgram_next;
                        let data2 = Self::make_dgram(key, seq2, len2);
                        led.cnt.inc("c16.smaller_after_blocked");
                        match conn.datagrams().send(Bytes::from(data2), false) {
                            Ok(()) => {
                                led.dgram(pair, is_client).sent.push((seq2, len2 as u32));
                                self.dgram_next += 1;
                            }
                            Err(e) => led.violate("C16", format!("send({len2}) after a Blocked send({len}) -> {e:?} although send_buffer_space was {space_before} and max_size {max}")),
                        }
                    }
                    return;
                }
                Err(e) => {
                    led.cnt.inc("c16.other_err");
                    let _ = e;
                    return;
                }
            }
        }
    }

    pub fn read_dgrams(&mut self, conn: &mut Connection, led: &mut Ledger) {
        let writer_client = !self.is_client();
        let pair = self.pair;
        while let Some(d) = conn.datagrams().recv() {
            led.cnt.inc("c16.recv");
            let key = led.dgram(pair, writer_client).key;
            if d.len() >= 8 {
                let seq = u32::from_le_bytes(d[..4].try_into().unwrap());
                let len = u32::from_le_bytes(d[4..8].try_into().unwrap()) as usize;
                let exp = Self::make_dgram(key, seq, len);
                let fl = led.dgram(pair, writer_client);
                let was_sent = fl.sent.iter().any(|&(s, l)| s == seq && l as usize == len);
                let dup = fl.received.contains(&seq);
                fl.received.push(seq);
                if len != d.len() || exp[..] != d[..] {
                    led.violate("C16", format!("pair {pair:x}: received datagram (claimed seq {seq}, {} bytes) matches nothing sent", d.len()));
                } else if !was_sent {
                    led.violate("C16", format!("pair {pair:x}: received datagram seq {seq} that send() never accepted"));
                } else if dup {
                    led.violate("C16", format!("pair {pair:x}: datagram seq {seq} delivered twice"));
                }
            } else {
                let exp = Self::make_dgram(key, 0, d.len());
                if exp[..] != d[..] {
                    led.violate("C16", format!("pair {pair:x}: short datagram of {} bytes corrupted", d.len()));
                }
                led.dgram(pair, writer_client).anonymous_received += 1;
            }
        }
    }

    /// Continue reads that stopped on their chunk budget. Returns whether anything was done.
    pub fn poll_pending(&mut self, conn: &mut Connection, led: &mut Ledger) -> bool {
        if self.pending_reads.is_empty() || self.hold_reads {
            return false;
        }
        let ids: Vec<u64> = self.pending_reads.iter().copied().collect();
        for sid in ids {
            self.do_read(conn, StreamId::from(VarInt::from_u64(sid).unwrap()), led);
        }
        true
    }

    pub fn jobs_done(&self) -> bool {
        self.pending_plans.is_empty() && self.jobs.values().all(|j| j.done)
    }

    pub fn has_pending_plans(&self) -> bool {
        !self.pending_plans.is_empty()
    }

    /// Stream ids this application has opened and is still working on.
    pub fn open_send_ids(&self) -> Vec<u64> {
        self.jobs.keys().copied().collect()
    }

    /// After a 0-RTT rejection all early streams are gone; re-queue the plans.
    pub fn requeue_all(&mut self) {
        self.jobs.clear();
        self.recvs.clear();
        self.pending_plans = self.cfg.plans.iter().cloned().collect();
        self.waiting_available = [false; 2];
        self.dgram_next = 0;
        self.dgram_blocked = false;
    }
}
