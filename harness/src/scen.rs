//! Scenario generators: seeded descriptions of honest-peer worlds (configuration, network fault
//! policy, driver schedule, application plans, scripted operations).

use serde_json::{json, Value};

use crate::{
    app::{AppCfg, EndMode, StreamPlan},
    cfg::{CcKind, CidGenKind, TcfgP},
    util::Rng,
    world::{DriverCfg, EpSpec, IncomingPolicy, Lane, NetCfg, Op, ServerSpec, World},
};

#[derive(Debug, Clone)]
pub struct Knobs {
    /// maximum bytes per stream
    pub max_stream_len: u64,
    pub max_streams: usize,
    pub n_clients: usize,
    /// allow faults at all
    pub faults: bool,
    /// allow resets/stops
    pub aborts: bool,
    pub ops: bool,
    pub datagrams: bool,
    pub idle_off: bool,
    pub lane: Lane,
    /// faults stop after this virtual time (None = whole run)
    pub fault_window_ns: Option<u64>,
    pub random_cfg: bool,
    pub mtu_changes: bool,
    pub migration: bool,
    pub early: bool,
}

impl Default for Knobs {
    fn default() -> Self {
        Self {
            max_stream_len: 128 * 1024,
            max_streams: 8,
            n_clients: 1,
            faults: true,
            aborts: true,
            ops: true,
            datagrams: true,
            idle_off: false,
            lane: Lane::Null,
            fault_window_ns: None,
            random_cfg: true,
            mtu_changes: true,
            migration: false,
            early: false,
        }
    }
}

#[derive(Debug, Clone)]
pub struct Honest {
    pub seed: u64,
    pub lane: Lane,
    pub net: NetCfg,
    pub drv: DriverCfg,
    pub srv_t: TcfgP,
    pub cli_t: Vec<TcfgP>,
    pub srv_app: AppCfg,
    pub cli_app: Vec<AppCfg>,
    pub ops: Vec<(u64, Op)>,
    pub policy: IncomingPolicy,
    pub cid_len: [usize; 2],
    pub cid_gen: CidGenKind,
    pub cid_lifetime_ms: Option<u64>,
    pub server_migration: bool,
    /// max_udp_payload_size advertised by the server endpoint / the client endpoints
    pub max_udp_payload: [u16; 2],
    pub retry_lifetime_ms: u64,
}

fn gen_plans(r: &mut Rng, k: &Knobs, peer: &TcfgP, own: &TcfgP) -> Vec<StreamPlan> {
    let mut plans = vec![];
    let n = 1 + r.usize(k.max_streams);
    // keep the number of round trips bounded for tiny windows
    let cap = k
        .max_stream_len
        .min(peer.stream_rwnd.saturating_mul(150))
        .min(peer.rwnd.saturating_mul(150))
        .min(own.send_window.saturating_mul(150))
        .min(own.max_bps.map_or(u64::MAX, |b| b * 2))
        .max(1);
    for _ in 0..n {
        let bidi = if peer.max_bidi == 0 {
            false
        } else if peer.max_uni == 0 {
            true
        } else {
            r.bool()
        };
        if (bidi && peer.max_bidi == 0) || (!bidi && peer.max_uni == 0) {
            continue;
        }
        let len = match r.below(6) {
            0 => 0,
            1 => 1 + r.below(100),
            2 => r.below(cap.min(5000) + 1),
            _ => r.below(cap + 1),
        };
        let end = if k.aborts && r.chance(12) {
            EndMode::ResetAt { at: r.below(len + 1), code: r.below(1000) }
        } else {
            EndMode::Finish
        };
        plans.push(StreamPlan {
            bidi,
            len,
            chunk: *r.pick(&[1, 100, 1200, 4096, 65536]),
            use_write_chunks: r.chance(30),
            end,
            prio: *r.pick(&[0, 0, 0, 1, -1, 5]),
        });
    }
    plans
}

fn gen_app(r: &mut Rng, k: &Knobs, peer: &TcfgP, own: &TcfgP, opener: bool) -> AppCfg {
    let mut a = AppCfg::default();
    if opener {
        a.plans = gen_plans(r, k, peer, own);
    }
    a.respond_max = {
        let cap = k.max_stream_len.min(peer.stream_rwnd.saturating_mul(150)).min(peer.rwnd.saturating_mul(150)).min(own.send_window.saturating_mul(150)).min(own.max_bps.map_or(u64::MAX, |b| b * 2));
        *r.pick(&[0, 10, 5000, 60_000]).min(&cap)
    };
    a.respond_chunk = *r.pick(&[1, 500, 4096, 65536]);
    a.unordered_pct = *r.pick(&[0, 30, 100]);
    a.stop_pct = if k.aborts { *r.pick(&[0, 0, 15]) } else { 0 };
    a.policy_seed = r.u64();
    if k.datagrams && r.chance(50) && own.dgram_recv_buf.is_some() && peer.dgram_recv_buf.is_some() {
        a.dgram_count = *r.pick(&[1, 5, 40, 200]);
        a.dgram_min = *r.pick(&[0, 8, 100]);
        a.dgram_max = *r.pick(&[8, 200, 1200, 1500]);
        a.dgram_drop_pct = *r.pick(&[0, 50, 100]);
    }
    a.start_early = k.early && r.bool();
    a
}

fn gen_net(r: &mut Rng, k: &Knobs) -> NetCfg {
    let mut n = NetCfg::default();
    n.latency_ns = *r.pick(&[100_000, 1_000_000, 10_000_000, 50_000_000, 150_000_000]);
    if !k.faults {
        return n;
    }
    n.jitter_ns = *r.pick(&[0, 0, 1_000_000, 20_000_000]);
    let level = r.below(5);
    let pm = [0, 10, 50, 200, 400][level as usize];
    n.loss_pm = if r.chance(70) { pm } else { 0 };
    n.dup_pm = if r.chance(50) { pm / 2 } else { 0 };
    n.reorder_pm = if r.chance(50) { pm } else { 0 };
    n.reorder_ns = *r.pick(&[1_000_000, 30_000_000, 300_000_000]);
    n.corrupt_pm = if r.chance(30) { pm / 4 } else { 0 };
    n.ce_pm = if r.chance(30) { pm } else { 0 };
    n.fault_until_ns = k.fault_window_ns.unwrap_or(u64::MAX);
    if k.mtu_changes && r.chance(40) {
        n.mtu = *r.pick(&[1200, 1300, 1452, 1500, 9000]);
        if r.chance(50) {
            let t = r.below(3_000_000_000);
            n.mtu_schedule.push((t, *r.pick(&[1200, 1250, 1400, 65535])));
        }
    }
    n
}

impl Honest {
    pub fn random(seed: u64, k: &Knobs) -> Self {
        let mut r = Rng::new(seed);
        let mut srv_t = if k.random_cfg { TcfgP::random(&mut r) } else { TcfgP::default() };
        if k.idle_off {
            srv_t.idle_ms = None;
        }
        let mut cli_t = vec![];
        let mut cli_app = vec![];
        for _ in 0..k.n_clients {
            let mut t = if k.random_cfg { TcfgP::random(&mut r) } else { TcfgP::default() };
            if k.idle_off {
                t.idle_ms = None;
            }
            cli_app.push(gen_app(&mut r, k, &srv_t, &t, true));
            cli_t.push(t);
        }
        // the server opens streams too (towards client 0's limits)
        let srv_opens = r.chance(50);
        // the server's plans must be feasible against every client: use the weakest limits
        let mut weakest = cli_t[0].clone();
        for t in &cli_t[1..] {
            weakest.stream_rwnd = weakest.stream_rwnd.min(t.stream_rwnd);
            weakest.rwnd = weakest.rwnd.min(t.rwnd);
            weakest.max_bidi = weakest.max_bidi.min(t.max_bidi);
            weakest.max_uni = weakest.max_uni.min(t.max_uni);
            if t.dgram_recv_buf.is_none() {
                weakest.dgram_recv_buf = None;
            }
        }
        let mut srv_app = gen_app(&mut r, k, &weakest, &srv_t, srv_opens);
        if k.n_clients > 1 {
            // plans must be valid against every client's limits
            let min_bidi = cli_t.iter().map(|t| t.max_bidi).min().unwrap();
            let min_uni = cli_t.iter().map(|t| t.max_uni).min().unwrap();
            srv_app.plans.retain(|p| if p.bidi { min_bidi > 0 } else { min_uni > 0 });
        }
        let net = gen_net(&mut r, k);
        let drv = if k.random_cfg { DriverCfg::random(&mut r) } else { DriverCfg::default() };
        let mut ops = vec![];
        if k.ops {
            let nops = r.below(6);
            for _ in 0..nops {
                let at = r.below(4_000_000_000);
                let ep = r.usize(1 + k.n_clients);
                let op = match r.below(7) {
                    0 | 1 => Op::KeyUpdate { ep },
                    2 => Op::Ping { ep },
                    3 => Op::SetRecvWindow { ep, v: *r.pick(&[1000, 65536, 10_000_000]) },
                    4 => Op::SetSendWindow { ep, v: *r.pick(&[1000, 65536, 10_000_000]) },
                    5 => Op::SetMaxConcurrent { ep, bidi: r.bool(), v: *r.pick(&[1, 3, 50]) },
                    _ => {
                        if k.migration && ep != 0 {
                            Op::Rebind { ep, alt: 1 + r.below(200) as u16, tell_conn: r.bool() }
                        } else {
                            Op::Ping { ep }
                        }
                    }
                };
                ops.push((at, op));
            }
        }
        let policy = *r.pick(&[IncomingPolicy::Accept, IncomingPolicy::Accept, IncomingPolicy::RetryFirst, IncomingPolicy::HoldNs(5_000_000)]);
        let multi = k.n_clients > 1;
        let cid_len = [
            *r.pick(if multi { &[4, 8, 16, 20][..] } else { &[0, 1, 4, 8, 16, 20][..] }),
            *r.pick(&[0, 4, 8, 20]),
        ];
        let cid_lifetime_ms = if r.chance(25) { Some(*r.pick(&[50, 500, 5000])) } else { None };
        // (one-byte CIDs wrap around after 256 issues: rotation then hands out values - and with
        // them reset tokens - that were in use before, and a stateless reset seen for the retired
        // value becomes valid again. Rotation with tiny CIDs is the C09 `short-cid` group's
        // business, with the bookkeeping that needs.)
        let cid_lifetime_ms = if cid_len[0] == 1 { None } else { cid_lifetime_ms };
        if cid_len[0] == 0 {
            // a server with zero-length CIDs routes by address: its clients cannot migrate
            for (_, op) in &mut ops {
                if let Op::Rebind { ep, .. } = op {
                    *op = Op::Ping { ep: *ep };
                }
            }
        }
        Self {
            seed,
            lane: k.lane,
            net,
            drv,
            srv_t,
            cli_t,
            srv_app,
            cli_app,
            ops,
            policy,
            cid_len,
            cid_gen: CidGenKind::Seq,
            cid_lifetime_ms,
            server_migration: true,
            max_udp_payload: [1472, 1472],
            // (a Retry token that expires while losses keep its Initial from arriving ends the
            // attempt with INVALID_TOKEN by design; token lifetimes are C14's business)
            retry_lifetime_ms: 10_000_000,
        }
    }

    pub fn build(&self) -> World {
        self.build_shifted(std::time::Duration::ZERO)
    }

    /// Same world with every instant translated by `shift`.
    pub fn build_shifted(&self, shift: std::time::Duration) -> World {
        let mut srv = ServerSpec::default();
        srv.tcfg = self.srv_t.clone();
        srv.policy = self.policy;
        srv.app = self.srv_app.clone();
        srv.migration = self.server_migration;
        srv.retry_lifetime_ms = self.retry_lifetime_ms;
        let mut specs = vec![];
        let mut s0 = EpSpec::new(0, Some(srv));
        s0.cid_len = self.cid_len[0];
        s0.cid_gen = self.cid_gen;
        s0.cid_lifetime_ms = self.cid_lifetime_ms;
        s0.max_udp_payload = self.max_udp_payload[0];
        specs.push(s0);
        for i in 0..self.cli_t.len() {
            let mut s = EpSpec::new(i + 1, None);
            s.cid_len = self.cid_len[1];
            s.cid_gen = self.cid_gen;
            s.cid_lifetime_ms = self.cid_lifetime_ms;
            s.max_udp_payload = self.max_udp_payload[1];
            specs.push(s);
        }
        let mut w = World::new(self.seed, self.lane, specs, self.net.clone(), self.drv.clone());
        if !shift.is_zero() {
            w.shift_epoch(shift);
        }
        w.ops = self.ops.clone();
        for i in 0..self.cli_t.len() {
            w.connect(i + 1, 0, self.cli_t[i].clone(), self.cli_app[i].clone()).expect("connect");
        }
        w
    }

    pub fn describe(&self) -> Value {
        json!({
            "seed": self.seed,
            "lane": format!("{:?}", self.lane),
            "net": format!("{:?}", self.net),
            "driver": format!("{:?}", self.drv),
            "server_transport": format!("{:?}", self.srv_t),
            "client_transport": format!("{:?}", self.cli_t),
            "server_app": format!("{:?}", self.srv_app),
            "client_apps": format!("{:?}", self.cli_app),
            "ops": format!("{:?}", self.ops),
            "incoming_policy": format!("{:?}", self.policy),
            "cid_len": self.cid_len,
            "cid_lifetime_ms": self.cid_lifetime_ms,
        })
    }

    /// Short one-line summary for evidence samples.
    pub fn summary(&self) -> String {
        format!(
            "seed={} lat={}ms loss={}pm dup={}pm reord={}pm corrupt={}pm mtu={} cc={:?}/{:?} streams={}+{} dgrams={}+{} ops={} policy={:?} cids={:?} drv(maxdg={},late={}ns)",
            self.seed,
            self.net.latency_ns / 1_000_000,
            self.net.loss_pm,
            self.net.dup_pm,
            self.net.reorder_pm,
            self.net.corrupt_pm,
            self.net.mtu,
            self.srv_t.cc,
            self.cli_t.first().map(|t| t.cc.clone()).unwrap_or(CcKind::Cubic),
            self.cli_app.iter().map(|a| a.plans.len()).sum::<usize>(),
            self.srv_app.plans.len(),
            self.cli_app.iter().map(|a| a.dgram_count).sum::<u32>(),
            self.srv_app.dgram_count,
            self.ops.len(),
            self.policy,
            self.cid_len,
            self.drv.max_datagrams,
            self.drv.timer_late_ns
        )
    }
}
