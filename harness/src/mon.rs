//! Universal monitors: they watch every simulated world, whatever the workload was built for.
//! Each records violations tagged with the property it decides.

use std::{
    collections::{BTreeMap, BTreeSet},
    net::SocketAddr,
};

use proto::{Connection, ConnectionStats, Event, Incoming, Side, Transmit, VerifProbe};

use crate::{
    app::{Counters, Ledger, Violation},
    wire::{self, DecodedPacket, Frame, PType},
    world::{Conn, Dgram, Ep, Lane},
};

pub struct Pre {
    pub probe: VerifProbe,
    pub mtu: u16,
    pub stats: ConnectionStats,
    pub closed: bool,
    pub drained: bool,
    pub remote: SocketAddr,
}

#[derive(Default, Debug)]
pub struct PathAcct {
    pub recvd: u64,
    /// bytes of datagrams that arrived exactly as their sender made them (what the connection can
    /// authenticate; `recvd` is everything, which is what the anti-amplification rule counts)
    pub genuine_recvd: u64,
    pub sent: u64,
    pub validated: bool,
}

#[derive(Default)]
pub struct ConnMon {
    pub pair: u64,
    pub is_server: bool,
    pub paths: BTreeMap<SocketAddr, PathAcct>,
    pub last_mtu: u16,
    /// sizes of MTU probes sent and the wire ids of those datagrams
    pub probes: Vec<(usize, u64)>,
    pub lost_events: u32,
    pub closed_seen_ns: Option<u64>,
    pub drained_ns: Option<u64>,
    pub close_sent: bool,
    pub local_close: Option<(u64, u64, Vec<u8>)>,
    pub initial_remote: Option<SocketAddr>,
    /// current path instance (as delimited by changes of `remote_address()`)
    pub inst_addr: Option<SocketAddr>,
    pub inst_recvd: u64,
    pub inst_sent: u64,
    pub inst_count: BTreeMap<SocketAddr, u32>,
    /// every change of Transmit.destination: (time, new destination)
    pub dest_log: Vec<(u64, SocketAddr)>,
    /// frames received (all types) at the moment of the local close()
    pub frames_rx_at_close: Option<u64>,
    /// times at which this (locally closed) connection decoded further frames from its peer after
    /// its first announcement went out
    pub heard_after_close_ns: Vec<u64>,
    pub frames_rx_running: u64,
    /// every transmit: (time, destination, bytes), kept only when `log_transmits` is on
    pub tx_log: Vec<(u64, SocketAddr, u32)>,
    /// C05 credit ledger: what the peer has advertised to this sender (superset)
    pub led_on: bool,
    pub led_max_data: u64,
    pub led_stream_default: u64,
    pub led_stream: BTreeMap<u64, u64>,
    pub led_max_streams: [u64; 2],
    /// highest offset sent per stream
    pub sent_hi: BTreeMap<u64, u64>,
    pub sent_total: u64,
    pub side_is_client: bool,
    /// C08 bookkeeping
    pub last_rx_ns: u64,
    pub last_tx_ns: u64,
    pub close_pto_ns: u64,
    pub awaiting_close_tx: bool,
    pub closer_had_early_keys: bool,
    pub lost_reason: Option<String>,
    pub lost_ns: Option<u64>,
    pub timed_out: bool,
    pub pto_at_last_event_ns: u64,
    pub max_pto_ns: u64,
    pub authed_seen: u64,
    /// close() could not be announced because the (server) closer was amplification-limited
    pub close_amp_blocked: bool,
}

/// Reset tokens a connection was given by its peer, by CID sequence number.
#[derive(Default, Clone)]
pub struct NciSeen {
    pub tokens: BTreeMap<u64, [u8; 16]>,
    /// the connection IDs themselves, by sequence number (most recent 256)
    pub cids: BTreeMap<u64, Vec<u8>>,
    /// destination CID of the last short-header packet this connection sent
    pub last_dcid_sent: Option<Vec<u8>>,
    pub last_dcid_sent_ns: u64,
    pub max_rpt: u64,
    pub srcs: Vec<SocketAddr>,
    /// sequence numbers the receiving connection itself announced as retired
    pub retired_sent: BTreeSet<u64>,
}

pub struct Mon {
    pub lane: Lane,
    pub cnt: Counters,
    pub viol: Vec<Violation>,
    pub conns: BTreeMap<(usize, usize), ConnMon>,
    /// gids of datagrams the network dropped entirely
    pub dropped: BTreeSet<u64>,
    /// bytes delivered to endpoint `ei` from `src` that were not routed to a connection (yet)
    pub unattributed: BTreeMap<(usize, SocketAddr), u64>,
    pub last_gid_by_conn: BTreeMap<(usize, usize), u64>,
    pub cur_gid: u64,
    /// frame-type x packet-type coverage on the plaintext lane
    pub frame_cov: BTreeSet<(PType, &'static str)>,
    pub enable_c07: bool,
    pub enable_c13: bool,
    pub enable_c12: bool,
    pub enable_c05: bool,
    /// C06 credit monitor (MAX_DATA / MAX_STREAM_DATA vs. application consumption)
    pub enable_credit: bool,
    /// record every transmit's destination and size per connection (C15)
    pub log_transmits: bool,
    /// every Incoming an endpoint produced: (endpoint, remote, validated, may_retry)
    pub incoming_log: Vec<(usize, SocketAddr, bool, bool)>,
    /// honest-peer world: any transport error between the peers is itself a finding
    pub honest: bool,
    pub rebinds: u32,
    /// NEW_CONNECTION_ID frames that arrived (plaintext lane), per (receiving endpoint, pair id)
    pub nci_seen: BTreeMap<(usize, u64), NciSeen>,
    /// Wire-level ownership of local CIDs (plaintext lane, worlds with short, repeating CIDs):
    /// (endpoint, CID) -> pair id of the connection that announced it and has not been told to
    /// retire it, and per (endpoint, pair) the CID of every sequence number
    pub track_cid_owner: bool,
    pub cid_owner: BTreeMap<(usize, Vec<u8>), u64>,
    pub cid_by_seq: BTreeMap<(usize, u64), BTreeMap<u64, Vec<u8>>>,
    /// sequence numbers the peer has retired (a retransmitted NEW_CONNECTION_ID frame for one of
    /// them announces nothing)
    pub cid_retired: BTreeMap<(usize, u64), BTreeSet<u64>>,
    /// DATAGRAM seqs (None for anonymous short ones) in arrival order per receiving connection
    pub dgram_arrivals: BTreeMap<(usize, usize), Vec<Option<u32>>>,
    pub last_reset_ns: BTreeMap<usize, u64>,
    /// how many connection objects an endpoint created for a pair id (duplicated Initials can
    /// create zombies)
    pub pair_creations: BTreeMap<(usize, u64), u32>,
    /// pairs one of whose sides called close()
    pub closed_pairs: BTreeSet<u64>,
}

/// Packets of a delivered datagram that are certainly genuine (see `Dgram::untouched`), decoded.
fn intact_packets(d: &Dgram, cid_len: usize) -> Vec<DecodedPacket> {
    let mut out = vec![];
    for (_, off, len) in d.untouched() {
        let bytes = &d.data[off..off + len];
        let Ok(pkt) = wire::parse_packet(bytes, cid_len) else { continue };
        let h = pkt.header_len();
        let frames = match pkt.ty {
            PType::Retry | PType::VersionNegotiation => vec![],
            _ => {
                if bytes.len() < h + 16 {
                    continue;
                }
                match wire::decode_frames(&bytes[h..bytes.len() - 16]) {
                    Ok(f) => f,
                    Err(_) => continue,
                }
            }
        };
        out.push(DecodedPacket { pkt, frames, size: bytes.len() });
    }
    out
}

/// Types of the genuine packets of a delivered datagram (works on any crypto lane).
fn intact_types(d: &Dgram) -> Vec<PType> {
    d.untouched().into_iter().map(|x| x.0).collect()
}

impl Mon {
    pub fn new(lane: Lane) -> Self {
        Self {
            lane,
            cnt: Counters::default(),
            viol: vec![],
            conns: BTreeMap::new(),
            dropped: BTreeSet::new(),
            unattributed: BTreeMap::new(),
            last_gid_by_conn: BTreeMap::new(),
            cur_gid: 0,
            frame_cov: BTreeSet::new(),
            enable_c07: true,
            enable_c13: true,
            enable_c12: true,
            enable_c05: true,
            enable_credit: false,
            log_transmits: false,
            incoming_log: vec![],
            honest: true,
            rebinds: 0,
            nci_seen: BTreeMap::new(),
            track_cid_owner: false,
            cid_owner: BTreeMap::new(),
            cid_by_seq: BTreeMap::new(),
            cid_retired: BTreeMap::new(),
            dgram_arrivals: BTreeMap::new(),
            last_reset_ns: BTreeMap::new(),
            pair_creations: BTreeMap::new(),
            closed_pairs: BTreeSet::new(),
        }
    }

    pub fn violate(&mut self, prop: &'static str, msg: String) {
        if self.viol.len() < 64 {
            self.viol.push(Violation { prop, msg });
        }
    }

    pub fn take_violations(&mut self) -> Vec<Violation> {
        std::mem::take(&mut self.viol)
    }

    /// `peer_limits` = (max_data, stream window, max bidi streams, max uni streams) the peer's
    /// configuration advertises in its transport parameters
    pub fn set_peer_limits(&mut self, ei: usize, ch: usize, l: (u64, u64, u64, u64)) {
        if let Some(cm) = self.conns.get_mut(&(ei, ch)) {
            cm.led_on = true;
            cm.led_max_data = l.0;
            cm.led_stream_default = l.1;
            cm.led_max_streams = [l.2, l.3];
        }
    }

    pub fn on_conn_created(&mut self, ei: usize, ch: usize, pair: u64, side: Side, remote: SocketAddr) {
        let mut cm = ConnMon {
            pair,
            is_server: side == Side::Server,
            side_is_client: side == Side::Client,
            initial_remote: Some(remote),
            ..ConnMon::default()
        };
        if side == Side::Server {
            let credit = self.unattributed.remove(&(ei, remote)).unwrap_or(0);
            cm.paths.entry(remote).or_default().recvd += credit;
            cm.inst_addr = Some(remote);
            cm.inst_recvd = credit;
            cm.inst_count.insert(remote, 1);
        }
        self.conns.insert((ei, ch), cm);
        *self.pair_creations.entry((ei, pair)).or_insert(0) += 1;
        self.cnt.inc("conn.created");
    }

    /// Baseline for the authenticated-packet counter right after a connection object exists
    /// (a server connection has already processed its first packet inside `accept`).
    pub fn note_created(&mut self, ei: usize, ch: usize, conn: &Connection, now: u64) {
        if let Some(cm) = self.conns.get_mut(&(ei, ch)) {
            let p = conn.verif_probe();
            cm.authed_seen = p.authed_packets;
            if p.authed_packets > 0 {
                cm.last_rx_ns = now;
            }
            cm.max_pto_ns = p.pto_data.as_nanos() as u64;
        }
    }

    pub fn on_validated(&mut self, ei: usize, ch: usize, remote: SocketAddr) {
        if let Some(cm) = self.conns.get_mut(&(ei, ch)) {
            cm.paths.entry(remote).or_default().validated = true;
        }
        self.cnt.inc("c07.validated_by_token");
    }

    pub fn on_wire(&mut self, gid: u64, _from_ep: usize, _origin: Option<usize>, _src: SocketAddr, _dst: SocketAddr, _data: &[u8]) {
        self.cur_gid = gid;
    }

    pub fn on_net_drop(&mut self, gid: u64) {
        self.dropped.insert(gid);
    }

    pub fn before_deliver(&mut self, _ei: usize, _d: &Dgram, _ep: &Ep) {}

    pub fn after_deliver(&mut self, ei: usize, d: &Dgram, ch: Option<usize>, ep: &Ep, _led: &mut Ledger) {
        self.cnt.inc("net.delivered");
        // C09: a genuine datagram produced by connection X may only reach X's own peer
        if let (Some((oe, och)), Some(rch), false) = (d.origin, ch, d.forged) {
            let from_pair = d.opair;
            let to_pair = self.conns.get(&(ei, rch)).map(|c| c.pair);
            self.cnt.inc("c09.routing_checks");
            if let (Some(a), Some(b)) = (from_pair, to_pair) {
                let to_forgotten = ep.conns.get(&rch).map_or(true, |c| c.forgotten);
                // an endpoint with zero-length CIDs routes by address tuple: the connection that
                // owns the tuple legitimately receives whatever arrives from it
                // where CIDs are short and repeat, a CID that its connection was told to retire (or
                // whose connection drained) may by now have been announced by another connection:
                // the datagram is misrouted only if, by what was seen on the wire, the producer's
                // peer still owns the CID it carries
                let owned = if self.track_cid_owner {
                    let l = ep.spec.cid_len;
                    let dcid = if d.data[0] & 0x80 != 0 { d.data.get(5).map(|n| *n as usize).and_then(|n| d.data.get(6..6 + n)) } else { d.data.get(1..1 + l) };
                    dcid.map_or(false, |c| self.cid_owner.get(&(ei, c.to_vec())) == Some(&a))
                } else {
                    true
                };
                if a != b && !to_forgotten && ep.spec.cid_len != 0 && owned {
                    self.violate(
                        "C09",
                        format!("endpoint {ei} handed a datagram of connection pair {a:x} (from {oe}/{och}) to handle {rch} which belongs to pair {b:x}"),
                    );
                }
            }
        }
        match ch {
            Some(ch) => {
                if let Some(cm) = self.conns.get_mut(&(ei, ch)) {
                    if cm.is_server {
                        cm.paths.entry(d.src).or_default().recvd += d.data.len() as u64;
                        if !d.forged {
                            cm.paths.entry(d.src).or_default().genuine_recvd += d.data.len() as u64;
                        }
                        if cm.inst_addr == Some(d.src) {
                            cm.inst_recvd += d.data.len() as u64;
                        }
                    }
                }
            }
            None => {
                *self.unattributed.entry((ei, d.src)).or_insert(0) += d.data.len() as u64;
            }
        }
    }

    pub fn before_conn_event(&mut self, _ei: usize, _ch: usize, _d: &Dgram, _conn: &Conn) {}

    pub fn after_conn_event(&mut self, ei: usize, ch: usize, d: &Dgram, conn: &Conn, _led: &mut Ledger) {
        // C07: address validation events observable from the wire
        let lane = self.lane;
        let Some(cm) = self.conns.get_mut(&(ei, ch)) else { return };
        {
            // "received" for the idle timer means authenticated and processed: use the
            // connection's own authenticated-packet counter to tell
            let pr = conn.c.verif_probe();
            if pr.authed_packets > cm.authed_seen {
                cm.authed_seen = pr.authed_packets;
                cm.last_rx_ns = d.at.max(cm.last_rx_ns);
            }
            cm.max_pto_ns = cm.max_pto_ns.max(pr.pto_data.as_nanos() as u64);
            if cm.local_close.is_some() && !cm.awaiting_close_tx {
                let total = frame_rx_total(&conn.c.stats().frame_rx);
                if total > cm.frames_rx_running {
                    cm.frames_rx_running = total;
                    cm.heard_after_close_ns.push(d.at);
                }
            }
        }
        if lane == Lane::Null && cm.led_on {
            {
                let pk = intact_packets(d, conn.cid_len);
                for p in &pk {
                    for f in &p.frames {
                        match f {
                            Frame::Datagram { data, .. } if d.copy == 0 => {
                                let seq = if data.len() >= 8 { Some(u32::from_le_bytes(data[..4].try_into().unwrap())) } else { None };
                                self.dgram_arrivals.entry((ei, ch)).or_default().push(seq);
                            }
                            Frame::NewConnectionId { seq, retire_prior_to, token, cid } => {
                                let n = self.nci_seen.entry((ei, conn.pair)).or_default();
                                n.tokens.insert(*seq, *token);
                                n.cids.insert(*seq, cid.clone());
                                if n.tokens.len() > 256 {
                                    n.tokens.pop_first(); // keep the most recent ones
                                    n.cids.pop_first();
                                }
                                n.max_rpt = n.max_rpt.max(*retire_prior_to);
                                if !n.srcs.contains(&d.src) {
                                    n.srcs.push(d.src);
                                }
                            }
                            Frame::RetireConnectionId { seq } if self.track_cid_owner => {
                                self.cid_retired.entry((ei, conn.pair)).or_default().insert(*seq);
                                if let Some(cid) = self.cid_by_seq.get_mut(&(ei, conn.pair)).and_then(|m| m.remove(seq)) {
                                    if self.cid_owner.get(&(ei, cid.clone())) == Some(&conn.pair) {
                                        self.cid_owner.remove(&(ei, cid));
                                        self.cnt.inc("c09.cids_retired");
                                    }
                                }
                            }
                            Frame::MaxData(v) => cm.led_max_data = cm.led_max_data.max(*v),
                            Frame::MaxStreamData { id, max } => {
                                let e = cm.led_stream.entry(*id).or_insert(cm.led_stream_default);
                                *e = (*e).max(*max);
                            }
                            Frame::MaxStreams { bidi, max } => {
                                let i = if *bidi { 0 } else { 1 };
                                cm.led_max_streams[i] = cm.led_max_streams[i].max(*max);
                            }
                            _ => {}
                        }
                    }
                }
            }
        }
        if cm.is_server {
            let credit = d.data.len() as u64;
            let src = d.src;
            if Self::refresh_instance(cm, conn, Some((src, credit))) {
                self.cnt.inc("c07.path_instances");
            }
        }
        if cm.is_server {
            let types = intact_types(d);
            if std::env::var("QV_C07_DEBUG").is_ok() {
                eprintln!("C07DEBUG rx {ei}/{ch} from {} len {} intact {} forged {} types {:?} split {:?}", d.src, d.data.len(), d.intact, d.forged, types, wire::split_types(&d.data));
            }
            if types.iter().any(|t| *t == PType::Handshake) {
                let p = cm.paths.entry(d.src).or_default();
                if !p.validated {
                    p.validated = true;
                    self.cnt.inc("c07.validated_by_handshake");
                }
            }
            if lane == Lane::Null {
                let cid_len = conn.cid_len;
                {
                    let pk = intact_packets(d, cid_len);
                    if pk.iter().any(|p| p.frames.iter().any(|f| matches!(f, Frame::PathResponse(_)))) {
                        let p = cm.paths.entry(d.src).or_default();
                        if !p.validated {
                            p.validated = true;
                            self.cnt.inc("c07.validated_by_path_response");
                        }
                    }
                }
            } else {
                // real crypto: frames are opaque, fall back on the connection's own flag
                let pr = conn.c.verif_probe();
                if pr.path_validated {
                    let p = cm.paths.entry(conn.c.remote_address()).or_default();
                    if !p.validated {
                        p.validated = true;
                        self.cnt.inc("c07.validated_by_probe_flag");
                    }
                }
            }
        }
    }

    /// Track path instances as delimited by changes of `remote_address()`.
    fn refresh_instance(cm: &mut ConnMon, conn: &Conn, trigger: Option<(SocketAddr, u64)>) -> bool {
        let remote = conn.c.remote_address();
        if cm.inst_addr == Some(remote) {
            return false;
        }
        cm.inst_addr = Some(remote);
        cm.inst_recvd = match trigger {
            Some((src, n)) if src == remote => n,
            _ => 0,
        };
        cm.inst_sent = 0;
        *cm.inst_count.entry(remote).or_insert(0) += 1;
        true
    }

    pub fn on_response(&mut self, ei: usize, d: &Dgram, t: &Transmit, bytes: &[u8], now: u64, min_interval_ns: u64, accepts_connections: bool, _led: &mut Ledger) {
        self.cnt.inc("ep.response");
        if !bytes.is_empty() && bytes[0] & 0x80 == 0 {
            if let Some(last) = self.last_reset_ns.insert(ei, now) {
                if now - last < min_interval_ns {
                    self.violate("C07", format!("endpoint {ei}: two stateless resets {} ns apart, min_reset_interval is {min_interval_ns} ns", now - last));
                }
            }
        }
        // a supported-version Initial in a datagram below 1200 bytes gets no reply at all, and no
        // stateless reply (close, Version Negotiation, Retry) is larger than 3x what provoked it
        let d0 = &d.data;
        let is_v1_initial = d0.len() >= 5 && d0[0] & 0x80 != 0 && d0[0] & 0x30 == 0 && d0[1..5] == [0, 0, 0, 1];
        self.cnt.inc("c07.response_checks");
        if is_v1_initial && d0.len() < 1200 && accepts_connections {
            self.violate("C07", format!("endpoint {ei}: reply of {} bytes (first byte {:02x}) to a supported-version Initial carried in a {}-byte datagram", t.size, bytes.first().copied().unwrap_or(0), d0.len()));
        } else if t.size > 3 * d0.len() {
            self.violate("C07", format!("endpoint {ei}: stateless reply of {} bytes to a {}-byte datagram from an unvalidated address", t.size, d0.len()));
        }
        // Stateless reset bound (C07): responses that look like short-header packets must be
        // strictly smaller than the datagram that provoked them.
        if !bytes.is_empty() && bytes[0] & 0x80 == 0 {
            self.cnt.inc("c07.stateless_reset");
            if t.size >= d.data.len() {
                self.violate("C07", format!("stateless reset of {} bytes in response to a {}-byte datagram", t.size, d.data.len()));
            }
        }
    }

    pub fn on_incoming(&mut self, ei: usize, inc: &Incoming) {
        self.incoming_log.push((ei, inc.remote_address(), inc.remote_address_validated(), inc.may_retry()));
        self.cnt.inc("ep.incoming");
    }

    pub fn on_stateless(&mut self, _ei: usize, _t: &Transmit, _bytes: &[u8]) {
        self.cnt.inc("ep.stateless");
    }

    pub fn on_event(&mut self, ei: usize, ch: usize, ev: &Event, _conn: &Conn, now: u64, _led: &mut Ledger) {
        if let Event::ConnectionLost { reason } = ev {
            self.cnt.inc("conn.lost");
            if self.honest {
                use proto::ConnectionError as CE;
                let code = match reason {
                    CE::TransportError(e) => Some(u64::from(e.code)),
                    CE::ConnectionClosed(c) => Some(u64::from(c.error_code)),
                    _ => None,
                };
                match code {
                    Some(0) | None => {}
                    // a client that moved during the handshake legitimately fails Retry-token address binding
                    Some(0xb) if self.rebinds > 0 => self.cnt.inc("honest.invalid_token_after_rebind"),
                    Some(c @ (0x3 | 0x4)) => self.violate("C05", format!("conn {ei}/{ch}: honest peers but connection lost with flow-control/stream-limit error {c:#x}: {reason}")),
                    Some(c @ (0x5 | 0x6)) => self.violate("C11", format!("conn {ei}/{ch}: honest peers but connection lost with stream-state/final-size error {c:#x}: {reason}")),
                    Some(c) => self.violate("C02", format!("conn {ei}/{ch}: honest peers but connection lost with transport error {c:#x}: {reason}")),
                }
            }
        }
        if let Event::ConnectionLost { reason } = ev {
            let mut msg = None;
            if let Some(cm) = self.conns.get_mut(&(ei, ch)) {
                cm.lost_events += 1;
                cm.lost_reason = Some(format!("{reason:?}"));
                cm.lost_ns = Some(now);
                cm.timed_out = matches!(reason, proto::ConnectionError::TimedOut);
                cm.pto_at_last_event_ns = _conn.c.verif_probe().pto_data.as_nanos() as u64;
                cm.closed_seen_ns.get_or_insert(now);
                if cm.lost_events > 1 {
                    msg = Some(format!("connection {ei}/{ch}: ConnectionLost emitted {} times", cm.lost_events));
                }
                if cm.local_close.is_some() {
                    msg = Some(format!("connection {ei}/{ch}: ConnectionLost emitted after a local close(): {reason:?}"));
                }
            }
            if let Some(m) = msg {
                self.violate("C08", m);
            }
        }
    }

    pub fn on_0rtt_rejected(&mut self, ei: usize, ch: usize, _pair: u64, _led: &mut Ledger) {
        self.cnt.inc("c17.rejected");
        // the peer never saw the early flight: its limits apply to what is sent from now on
        if let Some(cm) = self.conns.get_mut(&(ei, ch)) {
            cm.sent_hi.clear();
            cm.sent_total = 0;
        }
    }

    pub fn on_drained_event(&mut self, ei: usize, ch: usize, conn: &Conn, now: u64, _led: &mut Ledger) {
        self.cnt.inc("c08.drained_event");
        let n = conn.drained_events;
        if n > 1 {
            self.violate("C08", format!("connection {ei}/{ch}: Drained endpoint event emitted {n} times"));
        }
        if !conn.c.is_drained() {
            self.violate("C08", format!("connection {ei}/{ch}: Drained endpoint event while is_drained() is false"));
        }
        if let Some(m) = self.cid_by_seq.remove(&(ei, conn.pair)) {
            for (_, cid) in m {
                if self.cid_owner.get(&(ei, cid.clone())) == Some(&conn.pair) {
                    self.cid_owner.remove(&(ei, cid));
                }
            }
        }
        let mut msg = None;
        if let Some(cm) = self.conns.get_mut(&(ei, ch)) {
            cm.drained_ns = Some(now);
            if let Some((at, _, _)) = cm.local_close {
                self.cnt.inc("c08.drain_deadline_checks");
                // 3 x PTO after the close, plus the driver's configured timer lateness
                if now > at + 3 * cm.close_pto_ns + 5_000_000 && cm.close_pto_ns > 0 {
                    msg = Some(format!("conn {ei}/{ch}: drained {} ns after close(), 3 x PTO was {} ns", now - at, 3 * cm.close_pto_ns));
                }
            }
        }
        if let Some(m) = msg {
            self.violate("C08", m);
        }
    }

    pub fn pre_transmit(&mut self, ei: usize, ch: usize, conn: &Conn) -> Pre {
        let c: &Connection = &conn.c;
        let mtu = c.current_mtu();
        // MTU estimate history (C13)
        if self.enable_c13 {
            self.check_mtu_history(ei, ch, conn, mtu);
        }
        let probe = c.verif_probe();
        if self.enable_c12 {
            self.cnt.inc("c12.conservation_checks");
            if probe.sent_packets == [0, 0, 0] && (probe.in_flight_bytes != 0 || probe.in_flight_ack_eliciting != 0) {
                self.violate(
                    "C12",
                    format!(
                        "conn {ei}/{ch}: no packet is tracked as outstanding but in flight = {} bytes / {} ack-eliciting",
                        probe.in_flight_bytes, probe.in_flight_ack_eliciting
                    ),
                );
            }
            if probe.in_flight_ack_eliciting > 0 && probe.in_flight_bytes == 0 {
                self.violate("C12", format!("conn {ei}/{ch}: {} ack-eliciting packets in flight but 0 bytes", probe.in_flight_ack_eliciting));
            }
        }
        Pre {
            probe,
            mtu,
            stats: c.stats(),
            closed: c.is_closed(),
            drained: c.is_drained(),
            remote: c.remote_address(),
        }
    }

    fn check_mtu_history(&mut self, ei: usize, ch: usize, conn: &Conn, mtu: u16) {
        let Some(cm) = self.conns.get_mut(&(ei, ch)) else { return };
        let last = cm.last_mtu;
        cm.last_mtu = mtu;
        if last == 0 || last == mtu {
            return;
        }
        self.cnt.inc("c13.mtu_changes");
        let peer_max = conn.c.verif_probe().peer_max_udp_payload_size;
        let floor = (conn.tcfg.min_mtu as u64).min(peer_max) as u16;
        if mtu < floor {
            self.viol.push(Violation {
                prop: "C13",
                msg: format!("conn {ei}/{ch}: MTU estimate fell to {mtu}, below min(min_mtu {}, peer max_udp_payload {peer_max})", conn.tcfg.min_mtu),
            });
        }
        if mtu > last {
            // must equal the size of an earlier probe that the path did not drop; a migration
            // resets to the initial MTU, which is handled as a fall followed by rises.
            let ok = cm.probes.iter().any(|&(sz, gid)| sz == mtu as usize && !self.dropped.contains(&gid));
            let initial = conn.tcfg.initial_mtu.max(conn.tcfg.min_mtu);
            if !ok && mtu != initial.min(peer_max as u16).max(floor) {
                let probes: Vec<_> = cm.probes.iter().map(|p| p.0).collect();
                self.viol.push(Violation {
                    prop: "C13",
                    msg: format!("conn {ei}/{ch}: MTU estimate rose {last} -> {mtu} without a delivered probe of that size (probes sent: {probes:?})"),
                });
            }
            self.cnt.inc("c13.mtu_rises");
        }
    }

    pub fn post_transmit_none(&mut self, ei: usize, ch: usize, conn: &Conn, pre: &Pre, _now: u64, _led: &mut Ledger) {
        if let Some(cm) = self.conns.get_mut(&(ei, ch)) {
            if cm.awaiting_close_tx {
                cm.awaiting_close_tx = false;
                self.cnt.inc("c08.immediacy_checks");
                // a server that has not validated the client yet may be unable to send at all
                let amp_blocked = conn.side == Side::Server && !pre.probe.path_validated && pre.probe.path_total_sent + 1 > 3 * pre.probe.path_total_recvd;
                if pre.probe.state != "Closed" {
                    // something else (peer close, reset) ended the connection before we could poll
                    self.cnt.inc("c08.close_overtaken");
                } else if amp_blocked {
                    cm.close_amp_blocked = true;
                    self.cnt.inc("c08.close_amp_blocked");
                } else {
                    self.viol.push(Violation {
                        prop: "C08",
                        msg: format!(
                            "conn {ei}/{ch}: close() was followed by no datagram at all (state {}, in flight {} / window {}, keys {:?})",
                            pre.probe.state, pre.probe.in_flight_bytes, pre.probe.window, pre.probe.has_keys
                        ),
                    });
                }
            }
        }
    }

    /// Called right after `Connection::close()` returned.
    pub fn after_local_close(&mut self, ei: usize, ch: usize, conn: &Conn, now: u64) {
        let p = conn.c.verif_probe();
        let pto = p.pto_data.as_nanos() as u64;
        self.cnt.inc("c08.local_closes");
        let mut msgs = vec![];
        if let Some(cm) = self.conns.get_mut(&(ei, ch)) {
            cm.close_pto_ns = pto;
            cm.frames_rx_at_close = Some(frame_rx_total(&conn.c.stats().frame_rx));
            cm.awaiting_close_tx = p.state == "Closed";
            cm.closer_had_early_keys = p.has_keys[0] || p.has_keys[1] || !p.has_keys[2];
        }
        if p.state == "Closed" {
            match p.timers.iter().find(|t| t.0 == "Close") {
                None => msgs.push(format!("conn {ei}/{ch}: no Close timer armed after close()")),
                Some(&(_, at)) => {
                    let dl = conn.c.poll_timeout();
                    if dl != Some(at) && dl.map_or(true, |d| d > at) {
                        msgs.push(format!("conn {ei}/{ch}: poll_timeout() after close() is later than the close deadline"));
                    }
                    let _ = now;
                }
            }
            for (name, _) in &p.timers {
                if !matches!(*name, "Close" | "KeyDiscard" | "PushNewCid") {
                    msgs.push(format!("conn {ei}/{ch}: timer {name} still armed after close()"));
                }
            }
        }
        for m in msgs {
            self.violate("C08", m);
        }
    }

    #[allow(clippy::too_many_arguments)]
    pub fn post_transmit(
        &mut self,
        ei: usize,
        ch: usize,
        conn: &Conn,
        pre: &Pre,
        t: &Transmit,
        bytes: &[u8],
        dst_cid_len: Option<usize>,
        now: u64,
        max_datagrams: usize,
        _led: &mut Ledger,
    ) {
        self.cnt.inc("tx.transmits");
        let c: &Connection = &conn.c;
        let post_stats = c.stats();
        let post = c.verif_probe();
        let seg = t.segment_size.unwrap_or(t.size).max(1);
        let segs: Vec<&[u8]> = bytes.chunks(seg).collect();
        self.cnt.add("tx.datagrams", segs.len() as u64);
        let is_probe = post_stats.path.sent_plpmtud_probes > pre.stats.path.sent_plpmtud_probes;
        let first_gid = self.cur_gid + 1;

        if pre.drained {
            self.violate("C08", format!("conn {ei}/{ch}: poll_transmit produced {} bytes after the connection was drained", t.size));
        }

        // decode on the plaintext lane
        let mut decoded: Vec<Option<Vec<DecodedPacket>>> = Vec::new();
        if self.lane == Lane::Null {
            if let Some(cl) = dst_cid_len {
                for s in &segs {
                    match wire::decode_plain_datagram(s, cl) {
                        Ok(p) => {
                            for pk in &p {
                                for f in &pk.frames {
                                    self.frame_cov.insert((pk.pkt.ty, f.name()));
                                }
                            }
                            self.cnt.add("c10.packets_decoded_in_vivo", p.len() as u64);
                            decoded.push(Some(p));
                        }
                        Err(e) => {
                            self.violate(
                                "C10",
                                format!("conn {ei}/{ch}: independent decoder rejects an emitted datagram ({e:?}): {}", crate::util::hex(&s[..s.len().min(64)])),
                            );
                            decoded.push(None);
                        }
                    }
                }
            }
        }

        let log_tx = self.log_transmits;
        if let Some(cm) = self.conns.get_mut(&(ei, ch)) {
            if cm.dest_log.last().map(|x| x.1) != Some(t.destination) {
                cm.dest_log.push((now, t.destination));
            }
            if log_tx {
                cm.tx_log.push((now, t.destination, t.size as u32));
            }
            cm.last_tx_ns = now;
            cm.max_pto_ns = cm.max_pto_ns.max(post.pto_data.as_nanos() as u64).max(pre.probe.pto_data.as_nanos() as u64);
            if cm.awaiting_close_tx {
                cm.awaiting_close_tx = false;
                // what the closer hears from now on it hears after its first announcement
                cm.frames_rx_at_close = Some(frame_rx_total(&conn.c.stats().frame_rx));
                cm.frames_rx_running = frame_rx_total(&conn.c.stats().frame_rx);
                self.cnt.inc("c08.immediacy_checks");
                if self.lane == Lane::Null {
                    let has_close = decoded.iter().flatten().any(|d| d.iter().any(|p| p.has_close()));
                    if !has_close {
                        self.viol.push(Violation {
                            prop: "C08",
                            msg: format!("conn {ei}/{ch}: first transmit after close() carries no CONNECTION_CLOSE"),
                        });
                    }
                }
            }
        }
        if self.lane == Lane::Null && self.track_cid_owner && !conn.c.is_drained() {
            let pair = conn.pair;
            let mut announce = vec![];
            for p in decoded.iter().flatten().flatten() {
                if p.pkt.ty != PType::Short && !p.pkt.scid.is_empty() {
                    announce.push((0u64, p.pkt.scid.clone()));
                }
                for f in &p.frames {
                    if let Frame::NewConnectionId { seq, cid, .. } = f {
                        announce.push((*seq, cid.clone()));
                    }
                }
            }
            for (seq, cid) in announce {
                let known = self.cid_by_seq.entry((ei, pair)).or_default();
                if known.get(&seq) == Some(&cid) {
                    continue; // a retransmission
                }
                if seq == 0 && known.contains_key(&0) {
                    continue;
                }
                if self.cid_retired.get(&(ei, pair)).map_or(false, |r| r.contains(&seq)) {
                    continue;
                }
                match self.cid_owner.get(&(ei, cid.clone())) {
                    Some(&other) if other != pair => {
                        self.violate("C09", format!("endpoint {ei}: connection pair {pair:x} announced CID {} (sequence {seq}) while pair {other:x} had announced it and has not been told to retire it", crate::util::hex(&cid)));
                    }
                    _ => {}
                }
                self.cnt.inc("c09.cids_announced");
                self.cid_owner.insert((ei, cid.clone()), pair);
                self.cid_by_seq.entry((ei, pair)).or_default().insert(seq, cid);
            }
        }
        // RETIRE_CONNECTION_ID frames this connection sent: the CIDs (and reset tokens) it has
        // given up for certain
        if self.lane == Lane::Null {
            if let Some(p) = decoded.iter().flatten().flatten().filter(|p| p.pkt.ty == PType::Short).last() {
                let n = self.nci_seen.entry((ei, conn.pair)).or_default();
                n.last_dcid_sent = Some(p.pkt.dcid.clone());
                n.last_dcid_sent_ns = now;
            }
            for f in decoded.iter().flatten().flatten().flat_map(|p| p.frames.iter()) {
                if let Frame::RetireConnectionId { seq } = f {
                    let n = self.nci_seen.entry((ei, conn.pair)).or_default();
                    if n.retired_sent.len() < 4096 {
                        n.retired_sent.insert(*seq);
                    }
                }
            }
        }
        // ---------------- C16 on the wire ----------------
        if self.lane == Lane::Null {
            if let Some(limit) = post.peer_max_datagram_frame_size {
                for d in decoded.iter().flatten() {
                    for p in d {
                        for f in &p.frames {
                            if let Frame::Datagram { data, explicit_len } = f {
                                self.cnt.inc("c16.wire_frames_checked");
                                // the property bounds the payload by the advertised limit; the frame
                                // header of an empty datagram may exceed a limit of 0 or 1
                                let _ = explicit_len;
                                if data.len() as u64 > limit {
                                    self.violate("C16", format!("conn {ei}/{ch}: DATAGRAM payload of {} bytes exceeds the peer's max_datagram_frame_size {limit}", data.len()));
                                }
                            }
                        }
                    }
                }
            }
        }

        // ---------------- C13 ----------------
        if self.enable_c13 {
            self.cnt.inc("c13.transmits_checked");
            if segs.len() > max_datagrams {
                self.violate("C13", format!("conn {ei}/{ch}: transmit holds {} datagrams, max_datagrams was {max_datagrams}", segs.len()));
            }
            if is_probe {
                self.cnt.inc("c13.mtu_probes");
                let upper = conn.tcfg.mtud.map_or(0, |m| m.0) as u64;
                let peer = post.peer_max_udp_payload_size;
                if segs.len() != 1 {
                    self.violate("C13", format!("conn {ei}/{ch}: MTU probe sent in a multi-datagram transmit"));
                }
                if t.size as u64 > upper.min(peer) {
                    self.violate("C13", format!("conn {ei}/{ch}: MTU probe of {} bytes exceeds min(upper bound {upper}, peer max_udp_payload_size {peer})", t.size));
                }
                if let Some(cm) = self.conns.get_mut(&(ei, ch)) {
                    cm.probes.push((t.size, first_gid));
                }
            } else {
                for (i, s) in segs.iter().enumerate() {
                    // (the peer's limit as known before this call: 65527 until its parameters arrive)
                    if s.len() as u64 > pre.probe.peer_max_udp_payload_size {
                        self.violate("C13", format!("conn {ei}/{ch}: datagram {i} of {} bytes exceeds the peer's max_udp_payload_size {}", s.len(), pre.probe.peer_max_udp_payload_size));
                    }
                    if s.len() > pre.mtu as usize {
                        self.violate(
                            "C13",
                            format!("conn {ei}/{ch}: datagram {i} of {} bytes exceeds the current MTU estimate {}", s.len(), pre.mtu),
                        );
                    }
                    if i + 1 < segs.len() && s.len() != seg {
                        self.violate("C13", format!("conn {ei}/{ch}: GSO segment {i} has {} bytes, segment_size {seg}", s.len()));
                    }
                }
            }
            // client Initials padded
            if conn.side == Side::Client {
                for s in &segs {
                    if wire::split_types(s).iter().any(|(ty, _)| *ty == PType::Initial) {
                        self.cnt.inc("c13.client_initial_dgrams");
                        if s.len() < 1200 {
                            self.violate("C13", format!("conn {ei}/{ch}: client datagram with an Initial packet is only {} bytes", s.len()));
                        }
                    }
                }
            }
            // path challenge / response padded
            for (s, d) in segs.iter().zip(decoded.iter()) {
                if let Some(pk) = d {
                    let has_path = pk.iter().any(|p| p.frames.iter().any(|f| matches!(f, Frame::PathChallenge(_) | Frame::PathResponse(_))));
                    if has_path {
                        self.cnt.inc("c13.path_frames_dgrams");
                        if s.len() < 1200 {
                            self.violate("C13", format!("conn {ei}/{ch}: datagram carrying PATH_CHALLENGE/RESPONSE is only {} bytes", s.len()));
                        }
                    }
                }
            }
            // loss probes clamped to 1200
            let mut fell = 0u32;
            for i in 0..3 {
                fell += pre.probe.loss_probes[i].saturating_sub(post.loss_probes[i]);
            }
            if fell > 0 {
                self.cnt.add("c13.loss_probes_sent", fell as u64);
                let small = segs.iter().filter(|s| s.len() <= 1200).count() as u32;
                if small < fell {
                    self.violate(
                        "C13",
                        format!("conn {ei}/{ch}: {fell} loss probes consumed but only {small} datagrams <= 1200 bytes in the transmit (sizes {:?})", segs.iter().map(|s| s.len()).collect::<Vec<_>>()),
                    );
                }
            }
        }

        // ---------------- C12 gate ----------------
        if self.enable_c12 && self.lane == Lane::Null && decoded.len() == segs.len() && decoded.iter().all(|d| d.is_some()) {
            let window = pre.probe.window;
            let mut fell = 0u32;
            for i in 0..3 {
                fell += pre.probe.loss_probes[i].saturating_sub(post.loss_probes[i]);
            }
            // a client's first Handshake packet discards its Initial packets from flight in the
            // middle of the call: bytes in flight at the time of each check are then unknowable
            let initial_discarded = pre.probe.has_keys[0] && !post.has_keys[0];
            if initial_discarded {
                self.cnt.inc("c12.gate_skipped_initial_discard");
            }
            let mut f = pre.probe.in_flight_bytes;
            let mut exempt_probes = fell;
            let mut bad = vec![];
            for (i, (s, d)) in segs.iter().zip(decoded.iter()).enumerate() {
                let pk = d.as_ref().unwrap();
                let eliciting = pk.iter().any(|p| p.ack_eliciting());
                let path_frames = pk.iter().any(|p| p.frames.iter().any(|f| matches!(f, Frame::PathChallenge(_) | Frame::PathResponse(_))));
                let close = pk.iter().any(|p| p.has_close());
                let counted: u64 = pk.iter().filter(|p| p.ack_eliciting() || p.has_padding()).map(|p| p.size as u64).sum();
                // a space with a pending loss probe is exempt even when the probe is coalesced
                // into a datagram started by another space (quinn then does not consume the
                // probe credit, so it does not show up as a loss_probes decrement)
                let probe_pending = pk.iter().any(|p| p.ack_eliciting() && p.pkt.ty.space().map_or(false, |sp| pre.probe.loss_probes[sp] > 0));
                if probe_pending {
                    self.cnt.inc("c12.gate_exempt_pending_probe");
                }
                if eliciting && !is_probe && !path_frames && !close && !probe_pending && !initial_discarded {
                    self.cnt.inc("c12.gate_checked");
                    // bytes in flight once this datagram is out: only packets that count
                    let _ = s;
                    if f + counted >= window {
                        if exempt_probes > 0 {
                            exempt_probes -= 1;
                            self.cnt.inc("c12.gate_exempt_loss_probe");
                        } else {
                            let mut kinds: Vec<&'static str> = pk.iter().flat_map(|p| p.frames.iter()).filter(|f| f.is_ack_eliciting()).map(|f| f.name()).collect();
                            kinds.sort();
                            kinds.dedup();
                            let first_space = pk.first().map(|p| p.pkt.ty);
                            let eliciting_only_handshake = pk.iter().filter(|p| p.ack_eliciting()).all(|p| matches!(p.pkt.ty, PType::Initial | PType::Handshake));
                            let how = if kinds == ["STREAMS_BLOCKED"] {
                                "piggy-backed STREAMS_BLOCKED only"
                            } else if pk.len() > 1 && eliciting_only_handshake {
                                "handshake CRYPTO coalesced behind a non-eliciting packet"
                            } else if pk.len() > 1 && first_space != Some(PType::Short) {
                                "coalesced behind an earlier-space packet"
                            } else {
                                "plain"
                            };
                            bad.push(format!(
                                "conn {ei}/{ch}: [{how}] ack-eliciting datagram {i} of {} bytes sent with {} bytes in flight, window {} (packets: {:?})",
                                s.len(),
                                f,
                                window,
                                pk.iter().map(|p| (p.pkt.ty, p.frames.iter().map(|f| f.name()).collect::<Vec<_>>())).collect::<Vec<_>>()
                            ));
                        }
                    } else {
                        self.cnt.inc("c12.gate_passed_with_margin");
                        if f + counted + 1500 >= window {
                            self.cnt.inc("c12.gate_near_window");
                        }
                    }
                }
                f += counted;
            }
            if !initial_discarded {
                if f == post.in_flight_bytes {
                    self.cnt.inc("c12.send_accounting_equal");
                } else {
                    self.cnt.inc("c12.send_accounting_differs");
                }
            }
            for m in bad {
                self.violate("C12", m);
            }
        }

        // ---------------- C05 wire ledger ----------------
        if self.enable_c05 && self.lane == Lane::Null {
            if let Some(cm) = self.conns.get_mut(&(ei, ch)) {
                if cm.led_on {
                    let mut msgs = vec![];
                    for d in decoded.iter().flatten() {
                        for p in d {
                            for fr in &p.frames {
                                let (id, end) = match fr {
                                    Frame::Stream { id, off, data, .. } => (*id, off.saturating_add(data.len() as u64)),
                                    Frame::ResetStream { id, final_size, .. } => (*id, *final_size),
                                    _ => continue,
                                };
                                self.cnt.inc("c05.stream_frames_checked");
                                let limit = *cm.led_stream.get(&id).unwrap_or(&cm.led_stream_default);
                                if end > limit {
                                    msgs.push(format!("conn {ei}/{ch}: stream {id} data up to offset {end} sent, peer's stream limit is {limit}"));
                                }
                                let hi = cm.sent_hi.entry(id).or_insert(0);
                                if end > *hi {
                                    cm.sent_total = cm.sent_total.saturating_add(end - *hi);
                                    *hi = end;
                                }
                                if cm.sent_total > cm.led_max_data {
                                    msgs.push(format!("conn {ei}/{ch}: sum of highest stream offsets {} exceeds peer's connection limit {}", cm.sent_total, cm.led_max_data));
                                }
                                // stream-count limit applies to streams this side initiated
                                let initiator_client = id & 1 == 0;
                                if initiator_client == cm.side_is_client {
                                    let bidi = id & 2 == 0;
                                    let idx = id >> 2;
                                    let lim = cm.led_max_streams[if bidi { 0 } else { 1 }];
                                    if idx >= lim {
                                        msgs.push(format!("conn {ei}/{ch}: stream {id} (index {idx}) used, peer allows only {lim} {} streams", if bidi { "bidi" } else { "uni" }));
                                    }
                                }
                            }
                        }
                    }
                    for m in msgs {
                        if self.viol.len() < 64 {
                            self.viol.push(Violation { prop: "C05", msg: m });
                        }
                    }
                }
            }
        }

        // ---------------- C06 credit ----------------
        if self.enable_credit && self.lane == Lane::Null {
            let receiver_is_client = conn.side == Side::Client;
            let mut msgs = vec![];
            for d in decoded.iter().flatten() {
                for p in d {
                    for fr in &p.frames {
                        match fr {
                            Frame::MaxData(v) => {
                                self.cnt.inc("c06.credit_checks");
                                let mut consumed = 0u64;
                                let mut parts = vec![];
                                for ((pair, wc, sid), f) in _led.flows.iter() {
                                    if *pair == conn.pair && *wc != receiver_is_client {
                                        let c = if f.recv_stop.is_some() || f.reset.is_some() || f.recv_reset.is_some() { f.written.max(f.delivered.total()) } else { f.delivered.total() };
                                        consumed = consumed.saturating_add(c);
                                        parts.push((*sid, c, f.written));
                                    }
                                }
                                let bound = consumed.saturating_add(conn.tcfg.rwnd);
                                if *v > bound {
                                    msgs.push(format!("conn {ei}/{ch}: MAX_DATA({v}) sent while the application had consumed or discarded at most {consumed} bytes and the receive window is {}; per stream (id, consumed, written): {parts:?}", conn.tcfg.rwnd));
                                }
                            }
                            Frame::MaxStreamData { id, max } => {
                                self.cnt.inc("c06.credit_checks");
                                let consumed = _led.flows.get(&(conn.pair, !receiver_is_client, *id)).map_or(0, |f| f.delivered.total());
                                let bound = consumed.saturating_add(conn.tcfg.stream_rwnd);
                                if *max > bound {
                                    msgs.push(format!("conn {ei}/{ch}: MAX_STREAM_DATA(id={id},{max}) sent while the application had read {consumed} bytes of it and the stream window is {}", conn.tcfg.stream_rwnd));
                                }
                            }
                            _ => {}
                        }
                    }
                }
            }
            for m in msgs {
                self.violate("C06", m);
            }
        }

        // ---------------- C07 ----------------
        if self.enable_c07 && conn.side == Side::Server {
            let cm = self.conns.entry((ei, ch)).or_default();
            let on_current = cm.inst_addr == Some(t.destination);
            let instances = cm.inst_count.get(&t.destination).copied().unwrap_or(0);
            let (mut inst_sent, inst_recvd) = (cm.inst_sent, cm.inst_recvd);
            let p = cm.paths.entry(t.destination).or_default();
            let mut msgs = vec![];
            for s in &segs {
                if !p.validated {
                    self.cnt.inc("c07.unvalidated_dgrams");
                    if on_current && inst_sent + 1 > 3 * inst_recvd {
                        msgs.push(format!(
                            "conn {ei}/{ch}: {} more bytes to unvalidated {} after {} sent / {} received on this path (3x = {})",
                            s.len(),
                            t.destination,
                            inst_sent,
                            inst_recvd,
                            3 * inst_recvd
                        ));
                    } else if p.sent + 1 > 3 * p.recvd {
                        msgs.push(format!(
                            "conn {ei}/{ch}: cumulative over {} path instances (repeated migration to an address whose validation failed): {} more bytes to unvalidated {} after {} sent / {} received in total",
                            instances,
                            s.len(),
                            t.destination,
                            p.sent,
                            p.recvd
                        ));
                    }
                }
                p.sent += s.len() as u64;
                if on_current {
                    inst_sent += s.len() as u64;
                }
            }
            cm.inst_sent = inst_sent;
            for m in msgs {
                self.violate("C07", m);
            }
        }
        let _ = now;
    }

    pub fn on_set_receive_window(&mut self, _ei: usize, _ch: usize, _v: u64) {}

    pub fn on_local_close(&mut self, ei: usize, ch: usize, _conn: &Conn, now: u64, code: u64, reason: &[u8]) {
        self.closed_pairs.insert(_conn.pair);
        if let Some(cm) = self.conns.get_mut(&(ei, ch)) {
            cm.local_close = Some((now, code, reason.to_vec()));
            cm.closed_seen_ns.get_or_insert(now);
        }
    }

    pub fn before_timeout(&mut self, _ei: usize, _ch: usize, _conn: &Conn, _now: u64, _due: bool) {}

    pub fn after_timeout(&mut self, ei: usize, ch: usize, conn: &Conn, _now: u64, _due: bool, _before: Option<std::time::Instant>, _led: &mut Ledger) {
        self.cnt.inc("timer.handled");
        if let Some(cm) = self.conns.get_mut(&(ei, ch)) {
            if cm.is_server && Self::refresh_instance(cm, conn, None) {
                self.cnt.inc("c07.path_instances");
            }
        }
    }

    pub fn end_of_step(&mut self, _now: u64, _eps: &[Ep], _led: &mut Ledger) {}
}

/// Number of frames a connection has decoded from packets it could decrypt (frames keep being
/// counted while it is closing, unlike the authenticated-packet counter).
pub fn frame_rx_total(s: &proto::FrameStats) -> u64 {
    s.acks + s.ack_frequency + s.crypto + s.datagram + s.immediate_ack + s.max_data + s.max_stream_data + s.max_streams_bidi + s.max_streams_uni + s.new_connection_id + s.new_token + s.path_challenge + s.path_response + s.ping + s.reset_stream + s.retire_connection_id + s.stop_sending + s.stream + s.streams_blocked_bidi + s.streams_blocked_uni
}
