//! Per-thread counting allocator: live bytes allocated by the current thread. A case runs on one
//! thread, so the difference between two readings is what the code in between retained (frees of
//! memory allocated by another thread would make it imprecise; cases do not share heap objects).

use std::{
    alloc::{GlobalAlloc, Layout, System},
    cell::Cell,
};

thread_local! {
    /// debugging aid (`sites_begin` / `sites_report`): backtraces of the allocations still live
    static SITES_ON: Cell<bool> = const { Cell::new(false) };
    static IN_HOOK: Cell<bool> = const { Cell::new(false) };
    static SITES: std::cell::RefCell<Option<std::collections::HashMap<usize, (usize, std::backtrace::Backtrace)>>> = const { std::cell::RefCell::new(None) };
    static LIVE: Cell<i64> = const { Cell::new(0) };
    static TOTAL: Cell<u64> = const { Cell::new(0) };
}

pub struct Counting;

unsafe impl GlobalAlloc for Counting {
    unsafe fn alloc(&self, l: Layout) -> *mut u8 {
        let p = unsafe { System.alloc(l) };
        if !p.is_null() {
            let _ = LIVE.try_with(|c| c.set(c.get() + l.size() as i64));
            let _ = TOTAL.try_with(|c| c.set(c.get() + l.size() as u64));
            note(p as usize, l.size(), true);
        }
        p
    }
    unsafe fn dealloc(&self, p: *mut u8, l: Layout) {
        note(p as usize, 0, false);
        unsafe { System.dealloc(p, l) };
        let _ = LIVE.try_with(|c| c.set(c.get() - l.size() as i64));
    }
    unsafe fn realloc(&self, p: *mut u8, l: Layout, new: usize) -> *mut u8 {
        note(p as usize, 0, false);
        let q = unsafe { System.realloc(p, l, new) };
        if !q.is_null() {
            note(q as usize, new, true);
            let _ = LIVE.try_with(|c| c.set(c.get() + new as i64 - l.size() as i64));
            if new > l.size() {
                let _ = TOTAL.try_with(|c| c.set(c.get() + (new - l.size()) as u64));
            }
        }
        q
    }
}

/// Bytes currently allocated by this thread (0 if the counting allocator is not installed).
pub fn live() -> i64 {
    LIVE.with(|c| c.get())
}

/// Bytes ever allocated by this thread; stays 0 if the counting allocator is not installed.
pub fn total() -> u64 {
    TOTAL.with(|c| c.get())
}

fn note(p: usize, size: usize, add: bool) {
    if !SITES_ON.try_with(|c| c.get()).unwrap_or(false) || IN_HOOK.with(|c| c.replace(true)) {
        return;
    }
    SITES.with(|m| {
        if let Some(m) = m.borrow_mut().as_mut() {
            if add {
                m.insert(p, (size, std::backtrace::Backtrace::force_capture()));
            } else {
                m.remove(&p);
            }
        }
    });
    IN_HOOK.with(|c| c.set(false));
}

/// Start remembering where this thread's allocations come from (debugging aid, slow).
pub fn sites_begin() {
    IN_HOOK.with(|c| c.set(true));
    SITES.with(|m| *m.borrow_mut() = Some(Default::default()));
    IN_HOOK.with(|c| c.set(false));
    SITES_ON.with(|c| c.set(true));
}

/// The allocations made since `sites_begin` that are still live, grouped by the innermost frames
/// that are not allocator or container plumbing: (bytes, count, frames), largest first.
pub fn sites_report(top: usize) -> Vec<(usize, usize, String)> {
    SITES_ON.with(|c| c.set(false));
    IN_HOOK.with(|c| c.set(true));
    let m = SITES.with(|m| m.borrow_mut().take()).unwrap_or_default();
    let mut agg: std::collections::HashMap<String, (usize, usize)> = Default::default();
    for (_, (size, bt)) in m {
        let txt = bt.to_string();
        let frames: Vec<&str> = txt
            .lines()
            .filter(|l| !l.trim_start().starts_with("at "))
            .map(|l| l.trim().splitn(2, ": ").nth(1).unwrap_or(l))
            .filter(|l| !(l.starts_with("std::") || l.starts_with("core::") || l.starts_with("alloc::") || l.starts_with("<alloc::") || l.starts_with("<std::") || l.starts_with("<core::") || l.contains("qv::alloc") || l.starts_with("__rust") || l.starts_with("hashbrown") || l.starts_with("<hashbrown")))
            .take(6)
            .collect();
        let e = agg.entry(frames.join(" <- ")).or_default();
        e.0 += size;
        e.1 += 1;
    }
    let mut v: Vec<(usize, usize, String)> = agg.into_iter().map(|(k, (b, n))| (b, n, k)).collect();
    v.sort_by(|a, b| b.0.cmp(&a.0));
    v.truncate(top);
    IN_HOOK.with(|c| c.set(false));
    v
}
