//! Per-thread counting allocator: live bytes allocated by the current thread. A case runs on one
//! thread, so the difference between two readings is what the code in between retained (frees of
//! memory allocated by another thread would make it imprecise; cases do not share heap objects).

use std::{
    alloc::{GlobalAlloc, Layout, System},
    cell::Cell,
};

thread_local! {
    static LIVE: Cell<i64> = const { Cell::new(0) };
    static TOTAL: Cell<u64> = const { Cell::new(0) };
}

pub struct Counting;

unsafe impl GlobalAlloc for Counting {
    unsafe fn alloc(&self, l: Layout) -> *mut u8 {
        let p = unsafe { System.alloc(l) };
        if !p.is_null() {
            let _ = LIVE.try_with(|c| c.set(c.get() + l.size() as i64));
            let _ = TOTAL.try_with(|c| c.set(c.get() + l.size() as u64));
        }
        p
    }
    unsafe fn dealloc(&self, p: *mut u8, l: Layout) {
        unsafe { System.dealloc(p, l) };
        let _ = LIVE.try_with(|c| c.set(c.get() - l.size() as i64));
    }
    unsafe fn realloc(&self, p: *mut u8, l: Layout, new: usize) -> *mut u8 {
        let q = unsafe { System.realloc(p, l, new) };
        if !q.is_null() {
            let _ = LIVE.try_with(|c| c.set(c.get() + new as i64 - l.size() as i64));
            if new > l.size() {
                let _ = TOTAL.try_with(|c| c.set(c.get() + (new - l.size()) as u64));
            }
        }
        q
    }
}

/// Bytes currently allocated by this thread (0 if the counting allocator is not installed).
pub fn live() -> i64 {
    LIVE.with(|c| c.get())
}

/// Bytes ever allocated by this thread; stays 0 if the counting allocator is not installed.
pub fn total() -> u64 {
    TOTAL.with(|c| c.get())
}
