use qv::{app::*, cfg::*, world::*};

fn main() {
    let seed: u64 = std::env::args().nth(1).and_then(|s| s.parse().ok()).unwrap_or(1);
    let mut srv = ServerSpec::default();
    srv.app.respond_max = 50_000;
    let specs = vec![EpSpec::new(0, Some(srv)), EpSpec::new(1, None)];
    let mut net = NetCfg::default();
    net.loss_pm = 50;
    net.dup_pm = 30;
    net.reorder_pm = 50;
    let mut w = World::new(seed, Lane::Null, specs, net, DriverCfg::default());
    let mut app = AppCfg::default();
    for i in 0..6 {
        app.plans.push(StreamPlan { bidi: i % 2 == 0, len: 100_000 + i * 1000, chunk: 5000, use_write_chunks: i % 3 == 0, end: EndMode::Finish, prio: 0 });
    }
    w.connect(1, 0, TcfgP::default(), app).unwrap();
    let t = std::time::Instant::now();
    let end = w.run(200_000, 600_000_000_000, |w| w.all_connected() && w.workload_complete() && w.steps > 5);
    println!("end={end:?} steps={} now={}ms wall={:?}", w.steps, w.now / 1_000_000, t.elapsed());
    println!("led {:?}", w.led.cnt.m);
    println!("mon {:?}", w.mon.cnt.m);
    println!("net {:?}", w.net.fired.m);
    for v in w.all_violations() {
        println!("VIOL {} {}", v.prop, v.msg);
    }
    for (k, f) in &w.led.flows {
        println!("{k:?} written={} fin={:?} eos={} finished_evt={} delivered={:?}", f.written, f.fin_at, f.eos, f.finished_evt, f.delivered.as_slice());
    }
}
