use qv::check::{self, Ctx, Tier};

#[global_allocator]
static ALLOC: qv::alloc::Counting = qv::alloc::Counting;

fn usage() -> ! {
    eprintln!("usage: qv check <ID> [--tier quick|thorough] [--seed N] [--threads N] [--replay FILE]");
    std::process::exit(2)
}

fn main() {
    let args: Vec<String> = std::env::args().collect();
    if args.len() >= 2 && args[1] == "steady" {
        check::c20::steady();
        return;
    }
    if args.len() < 3 || args[1] != "check" {
        usage();
    }
    let id = args[2].clone();
    let mut tier = match std::env::var("VERIF_TIER").as_deref() {
        Ok("thorough") => Tier::Thorough,
        _ => Tier::Quick,
    };
    let mut seed: u64 = std::env::var("VERIF_SEED").ok().and_then(|s| s.parse().ok()).unwrap_or(1);
    let mut threads = std::thread::available_parallelism().map(|n| n.get()).unwrap_or(8);
    let mut replay = None;
    let mut i = 3;
    while i < args.len() {
        match args[i].as_str() {
            "--tier" => {
                i += 1;
                tier = if args[i] == "thorough" { Tier::Thorough } else { Tier::Quick };
            }
            "--seed" => {
                i += 1;
                seed = args[i].parse().unwrap_or(1);
            }
            "--threads" => {
                i += 1;
                threads = args[i].parse().unwrap_or(threads);
            }
            "--replay" => {
                i += 1;
                let s = std::fs::read_to_string(&args[i]).expect("read replay file");
                let v: serde_json::Value = serde_json::from_str(&s).expect("parse replay file");
                replay = Some((
                    v["group"].as_str().unwrap().to_string(),
                    v["case_index"].as_u64().unwrap(),
                    v["case_seed"].as_u64().unwrap(),
                ));
                if let Some(rs) = v["run_seed"].as_u64() {
                    seed = rs;
                }
                if v["tier"].as_str() == Some("thorough") {
                    tier = Tier::Thorough;
                }
            }
            "--case" => {
                i += 1;
                let (g, idx) = args[i].split_once(':').expect("--case group:index");
                replay = Some((g.to_string(), idx.parse().unwrap(), u64::MAX));
            }
            _ => usage(),
        }
        i += 1;
    }
    #[cfg(feature = "dbglog")]
    if std::env::var("QV_LOG").is_ok() {
        tracing_subscriber::fmt().with_env_filter(std::env::var("QV_LOG").unwrap()).with_writer(std::io::stderr).init();
    }
    check::install_panic_hook();
    let prop: &'static str = Box::leak(id.clone().into_boxed_str());
    let mut ctx = Ctx { prop, tier, seed, threads, replay, verbose: false };
    if let Some((g, idx, s)) = ctx.replay.clone() {
        if s == u64::MAX {
            let cs = check::case_seed(&ctx, &g, idx);
            ctx.replay = Some((g, idx, cs));
        }
    }
    let code = match id.as_str() {
        "C01" | "ANY" => check::c01::run(&ctx),
        "C02" => check::c02::run(&ctx),
        "C04" => check::c04::run(&ctx),
        "C05" => check::hon::run_c05(&ctx),
        "C07" => check::hon::run_c07(&ctx),
        "C08" => check::c08::run(&ctx),
        "C09" => check::c09::run(&ctx),
        "C03" => check::c03::run(&ctx),
        "C06" => check::c06::run(&ctx),
        "C11" => check::c11::run(&ctx),
        #[cfg(feature = "real")]
        "C14" => check::c14::run(&ctx),
        "C15" => check::c15::run(&ctx),
        "C17" => check::c17::run(&ctx),
        "C12" => check::hon::run_c12(&ctx),
        "C20" => check::c20::run(&ctx),
        "C13" => check::hon::run_c13(&ctx),
        "C16" => check::hon::run_c16(&ctx),
        _ => {
            eprintln!("unknown property {id}");
            2
        }
    };
    std::process::exit(code);
}
