//! Virtual-time simulated world: endpoints, connections, a fault-injecting network and the
//! driver loop. Everything is deterministic in (configuration, seed).

use std::{
    collections::{BTreeMap, BTreeSet, BinaryHeap},
    net::{IpAddr, Ipv4Addr, SocketAddr},
    sync::Arc,
    time::{Duration, Instant},
};

use bytes::BytesMut;
use proto::{
    ClientConfig, Connection, ConnectionHandle, ConnectionId, DatagramEvent, EcnCodepoint, Endpoint,
    EndpointConfig, Event, Incoming, ServerConfig, Side, Transmit, VarInt,
};

use crate::{
    app::{App, AppCfg, Counters, Ledger, Violation},
    cfg::{CcShared, CidGenKind, SeqCidGen, TcfgP},
    mon::Mon,
    nullcrypto::{NullClientConfig, NullHmacKey, NullServerConfig, NullShared, NullTokenKey},
    util::{hash64, Rng},
};

#[derive(Debug, Clone, Copy, PartialEq, Eq)]
pub enum Lane {
    Null,
    Real,
}

// ---------------------------------------------------------------------------------------------
// Network
// ---------------------------------------------------------------------------------------------

#[derive(Debug, Clone)]
pub struct NetCfg {
    /// permille of client datagrams that start with an Initial packet and get 2-8 junk long-header
    /// packets (undecryptable 0-RTT) coalesced behind it, as an attacker replaying the Initial could
    pub coalesce_junk_pm: u32,
    /// every datagram addressed to one of these is lost (a peer that never hears anything)
    pub blackhole_dst: Vec<SocketAddr>,
    /// corrupt Retry packets in flight: (kind, how many Retry packets from the start are affected)
    pub retry_mutation: Option<(u8, u32)>,
    pub latency_ns: u64,
    pub jitter_ns: u64,
    pub loss_pm: u32,
    pub dup_pm: u32,
    pub reorder_pm: u32,
    pub reorder_ns: u64,
    pub corrupt_pm: u32,
    pub ce_pm: u32,
    /// faults only apply to datagrams sent before this virtual time
    pub fault_until_ns: u64,
    /// datagrams larger than this are silently dropped; changes over time via `mtu_schedule`
    pub mtu: usize,
    pub mtu_schedule: Vec<(u64, usize)>,
    /// enumerated faults: indices (per direction, 0 = towards endpoint 0) of datagrams to drop
    pub drop_idx: [BTreeSet<u64>; 2],
    pub dup_idx: [BTreeSet<u64>; 2],
    /// per mille of genuine datagrams for which an additional forged variant (bit flips,
    /// truncation, extension, cross-connection splice, replay from a foreign address) is injected;
    /// uses its own random stream so that it does not perturb the other faults
    pub inject_forged_pm: u32,
    /// per mille of genuine datagrams replayed verbatim later (possibly much later)
    pub replay_pm: u32,
}

impl Default for NetCfg {
    fn default() -> Self {
        Self {
            coalesce_junk_pm: 0,
            blackhole_dst: vec![],
            retry_mutation: None,
            latency_ns: 10_000_000,
            jitter_ns: 0,
            loss_pm: 0,
            dup_pm: 0,
            reorder_pm: 0,
            reorder_ns: 30_000_000,
            corrupt_pm: 0,
            ce_pm: 0,
            fault_until_ns: u64::MAX,
            mtu: 65535,
            mtu_schedule: vec![],
            drop_idx: [BTreeSet::new(), BTreeSet::new()],
            dup_idx: [BTreeSet::new(), BTreeSet::new()],
            inject_forged_pm: 0,
            replay_pm: 0,
        }
    }
}

impl NetCfg {
    pub fn is_clean_fifo(&self) -> bool {
        self.jitter_ns == 0
            && self.loss_pm == 0
            && self.dup_pm == 0
            && self.reorder_pm == 0
            && self.corrupt_pm == 0
            && self.ce_pm == 0
            && self.mtu >= 65535
            && self.mtu_schedule.is_empty()
            && self.drop_idx.iter().all(|s| s.is_empty())
            && self.dup_idx.iter().all(|s| s.is_empty())
    }
}

#[derive(Debug, Clone)]
pub struct Dgram {
    pub at: u64,
    pub seq: u64,
    pub src: SocketAddr,
    pub dst: SocketAddr,
    pub ecn: Option<EcnCodepoint>,
    pub data: Vec<u8>,
    /// (endpoint index, connection handle) that produced it, if a connection did
    pub origin: Option<(usize, usize)>,
    /// identity of the genuine datagram this is (a copy of)
    pub gid: u64,
    pub copy: u32,
    /// bytes were altered by the network or injected by the harness
    pub forged: bool,
    /// length of the prefix that is byte-identical to the genuine datagram
    pub intact: usize,
    /// for a datagram the network corrupted: the genuine bytes and the byte ranges [lo, hi) of
    /// them that were altered or cut off (none when bytes were only appended). Packets that meet
    /// none of these ranges are still genuine (`untouched`).
    pub orig: Option<(Vec<u8>, Vec<(usize, usize)>)>,
    /// pair id of the producing connection at the time of sending (handles get reused)
    pub opair: Option<u64>,
}

impl Dgram {
    /// The packets of this datagram that are byte-identical to packets of the genuine datagram:
    /// (type, offset, length). All of them for an unaltered datagram, none for a forgery built by
    /// the harness, and for a datagram the network corrupted those outside the altered range.
    pub fn untouched(&self) -> Vec<(crate::wire::PType, usize, usize)> {
        let mut out = vec![];
        let mut off = 0;
        if !self.forged {
            for (ty, len) in crate::wire::split_types(&self.data) {
                out.push((ty, off, len));
                off += len;
            }
        } else if let Some((orig, touched)) = &self.orig {
            let extended = self.data.len() > orig.len();
            for (ty, len) in crate::wire::split_types(orig) {
                let clear = touched.iter().all(|(lo, hi)| off + len <= *lo || off >= *hi);
                // a short-header packet runs to the end of the datagram: appended bytes alter it
                if clear && off + len <= self.data.len() && !(extended && ty == crate::wire::PType::Short) {
                    out.push((ty, off, len));
                }
                off += len;
            }
        }
        out
    }
}

impl PartialEq for Dgram {
    fn eq(&self, o: &Self) -> bool {
        self.at == o.at && self.seq == o.seq
    }
}
impl Eq for Dgram {}
impl PartialOrd for Dgram {
    fn partial_cmp(&self, o: &Self) -> Option<std::cmp::Ordering> {
        Some(self.cmp(o))
    }
}
impl Ord for Dgram {
    fn cmp(&self, o: &Self) -> std::cmp::Ordering {
        // BinaryHeap is a max-heap: reverse
        (o.at, o.seq).cmp(&(self.at, self.seq))
    }
}

#[derive(Default)]
pub struct Net {
    pub q: BinaryHeap<Dgram>,
    pub seq: u64,
    pub gid: u64,
    pub dir_count: [u64; 2],
    pub fired: Counters,
    /// last scheduled delivery time per direction, to keep FIFO under pure latency
    pub delivered: u64,
}

// ---------------------------------------------------------------------------------------------
// Driver schedule
// ---------------------------------------------------------------------------------------------

#[derive(Debug, Clone)]
pub struct DriverCfg {
    pub max_datagrams: usize,
    /// deliver all due datagrams to the endpoint before processing any connection event
    pub batch_inputs: bool,
    /// service timers up to this much late (drawn per wakeup)
    pub timer_late_ns: u64,
    /// per step probability (percent) of a spurious handle_timeout(now) on each connection
    pub spurious_timeout_pct: u32,
    /// per step probability (percent) of extra poll_transmit/poll/poll_timeout calls after None
    pub extra_poll_pct: u32,
    /// cap on transmits drained per connection per flush round (0 = unlimited)
    pub transmit_cap: usize,
    /// a driver that does not sleep until the pacing deadline but keeps polling a rate-capped
    /// connection while its pacing timer is armed, at intervals in which less than half a byte of
    /// pacing budget accrues
    pub busy_poll: bool,
}

impl Default for DriverCfg {
    fn default() -> Self {
        Self { max_datagrams: 10, batch_inputs: false, timer_late_ns: 0, spurious_timeout_pct: 0, extra_poll_pct: 0, transmit_cap: 0, busy_poll: false }
    }
}

impl DriverCfg {
    pub fn random(r: &mut Rng) -> Self {
        Self {
            max_datagrams: *r.pick(&[1, 2, 3, 10]),
            batch_inputs: r.bool(),
            timer_late_ns: *r.pick(&[0, 0, 100_000, 3_000_000]),
            spurious_timeout_pct: *r.pick(&[0, 0, 10, 50]),
            extra_poll_pct: *r.pick(&[0, 0, 10, 50]),
            transmit_cap: *r.pick(&[0, 0, 1, 4]),
            busy_poll: false,
        }
    }
}

// ---------------------------------------------------------------------------------------------
// Endpoints and connections
// ---------------------------------------------------------------------------------------------

#[derive(Debug, Clone, Copy, PartialEq, Eq)]
pub enum IncomingPolicy {
    Accept,
    /// Retry unless the address is already validated
    RetryFirst,
    Refuse,
    Ignore,
    /// keep the Incoming for this many nanoseconds before accepting
    HoldNs(u64),
}

#[derive(Debug, Clone)]
pub struct ServerSpec {
    pub tcfg: TcfgP,
    pub policy: IncomingPolicy,
    pub migration: bool,
    pub tokens_sent: u32,
    pub app: AppCfg,
    pub retry_lifetime_ms: u64,
    pub max_incoming: usize,
    /// lifetime of NEW_TOKEN tokens (None = quinn's default of two weeks)
    pub token_lifetime_ms: Option<u64>,
    /// 0 = quinn's default log, 1 = small bloom filter, 2 = no log (tokens never accepted)
    pub token_log: u8,
    /// protect tokens with the ring HKDF/AEAD key instead of the harness's keyed hash
    pub ring_token_key: bool,
}

impl Default for ServerSpec {
    fn default() -> Self {
        Self {
            tcfg: TcfgP::default(),
            policy: IncomingPolicy::Accept,
            migration: true,
            tokens_sent: 2,
            app: AppCfg::default(),
            retry_lifetime_ms: 15_000,
            max_incoming: 1 << 16,
            token_lifetime_ms: None,
            token_log: 0,
            ring_token_key: false,
        }
    }
}

#[derive(Debug, Clone)]
pub struct EpSpec {
    pub addr: SocketAddr,
    pub cid_len: usize,
    pub cid_gen: CidGenKind,
    pub cid_lifetime_ms: Option<u64>,
    pub server: Option<ServerSpec>,
    pub allow_mtud: bool,
    pub reset_interval_ms: u64,
    pub max_udp_payload: u16,
    pub grease: bool,
}

impl EpSpec {
    pub fn new(idx: usize, server: Option<ServerSpec>) -> Self {
        Self {
            addr: addr_of(idx, 0),
            cid_len: 8,
            cid_gen: CidGenKind::Seq,
            cid_lifetime_ms: None,
            server,
            allow_mtud: true,
            reset_interval_ms: 20,
            max_udp_payload: 1472,
            grease: true,
        }
    }
}

pub fn addr_of(ep: usize, alt: u16) -> SocketAddr {
    SocketAddr::new(IpAddr::V4(Ipv4Addr::new(10, 0, ep as u8, 1 + (alt >> 8) as u8)), 4000 + ep as u16 * 16 + (alt & 0xff))
}

pub struct Conn {
    pub c: Connection,
    pub ch: ConnectionHandle,
    pub app: App,
    pub pair: u64,
    pub side: Side,
    pub cc: Arc<CcShared>,
    pub drained_events: u32,
    pub forgotten: bool,
    pub local_close_at: Option<u64>,
    pub created_ns: u64,
    /// 1 for the first connection object an endpoint created for this pair id, 2.. for zombies
    /// born later from delayed copies of the client's first Initial
    pub creation_idx: u32,
    pub tcfg: TcfgP,
    /// conn-local per-step flags
    pub blocked_transmit_cap: bool,
    /// length of the CIDs this endpoint issues (short-header DCID length of incoming packets)
    pub cid_len: usize,
}

pub struct Ep {
    pub ep: Endpoint,
    pub spec: EpSpec,
    /// current apparent source address (changes on simulated migration)
    pub addr: SocketAddr,
    /// all addresses that route to this endpoint
    pub addrs: Vec<SocketAddr>,
    pub conns: BTreeMap<usize, Conn>,
    pub held: Vec<(u64, Incoming)>,
    pub server_cfg: Option<Arc<ServerConfig>>,
    pub null_shared: Arc<NullShared>,
    pub accept_errors: Vec<String>,
    pub responses: u64,
    /// client-side token store used for connections started from this endpoint
    pub token_store: Option<Arc<dyn proto::TokenStore>>,
    /// rustls client state of this endpoint (holds its session tickets)
    #[cfg(feature = "real")]
    pub real_client: Option<Arc<proto::crypto::rustls::QuicClientConfig>>,
}

#[derive(Debug, Clone, PartialEq, Eq)]
pub enum RunEnd {
    /// predicate satisfied
    Done,
    /// nothing scheduled anywhere: the world can never move again
    Quiescent,
    StepCap,
    TimeCap,
}

#[derive(Debug, Clone)]
pub enum Op {
    KeyUpdate { ep: usize },
    Ping { ep: usize },
    /// the application tells its connections that the network path has changed
    /// (`Connection::path_changed`: RTT estimate, congestion controller and MTU discovery restart)
    PathChanged { ep: usize },
    SetRecvWindow { ep: usize, v: u64 },
    SetSendWindow { ep: usize, v: u64 },
    SetMaxConcurrent { ep: usize, bidi: bool, v: u64 },
    /// client endpoint changes its apparent source address
    Rebind { ep: usize, alt: u16, tell_conn: bool },
    Close { ep: usize, code: u32, reason: Vec<u8> },
    CloseAll { code: u32 },
    /// the endpoint vanishes: stops processing and sending
    Vanish { ep: usize },
    /// start another connection from `from` to endpoint 0
    Connect { from: usize, tcfg: Box<TcfgP>, app: Box<AppCfg> },
    /// close one connection (by handle) of an endpoint
    CloseOne { ep: usize, ch: usize, code: u32 },
    PathMtu { mtu: usize },
}

/// Virtual wall clock handed to quinn as `TimeSource` (token issue / expiry times).
pub struct VirtClock(pub Arc<std::sync::atomic::AtomicU64>);

impl proto::TimeSource for VirtClock {
    fn now(&self) -> std::time::SystemTime {
        std::time::UNIX_EPOCH + Duration::from_secs(1_700_000_000) + Duration::from_nanos(self.0.load(std::sync::atomic::Ordering::Relaxed))
    }
}

pub struct World {
    pub lane: Lane,
    pub t0: Instant,
    pub now: u64,
    pub eps: Vec<Ep>,
    pub vanished: BTreeSet<usize>,
    pub net: Net,
    pub netcfg: NetCfg,
    pub drv: DriverCfg,
    pub rng: Rng,
    /// separate streams so that driver-only variations do not perturb the network faults
    pub rng_drv: Rng,
    pub rng_late: Rng,
    pub rng_inject: Rng,
    /// turn on history recording for applications created later (server side)
    pub record_history_default: bool,
    /// recent genuine datagrams (for splices)
    pub recent: Vec<Dgram>,
    /// gid -> whether a delivery of it was fully authenticated already
    /// genuine datagram id -> (every packet of it was authenticated, time of that first delivery)
    pub counted: BTreeMap<u64, (bool, u64)>,
    pub clock: Arc<std::sync::atomic::AtomicU64>,
    pub led: Ledger,
    pub mon: Mon,
    pub steps: u64,
    pub ops: Vec<(u64, Op)>,
    pub next_pair: u64,
    pub seed: u64,
    pub trace: Option<Vec<String>>,
    pub buf: Vec<u8>,
    pub pair_cfg: BTreeMap<u64, TcfgP>,
    /// raw frames (space, bytes) queued through the injection hook on every connection an
    /// endpoint accepts, before its first transmit (hostile-server experiments)
    pub on_accept_inject: BTreeMap<usize, Vec<(usize, Vec<u8>)>>,
    /// do not advance the clock by more than this in one step (an event further away counts as
    /// "nothing can happen"); lets hostile-peer checks ignore timers armed absurdly far ahead
    pub max_jump_ns: u64,
    /// an address an endpoint has moved away from dies this long after the move (a NAT binding
    /// that lingers, then is gone): datagrams sent to it later are lost instead of still reaching
    /// the endpoint. `left_at` records the moves.
    pub old_addresses_die_after_ns: Option<u64>,
    pub left_at: BTreeMap<SocketAddr, u64>,
    keydbg: BTreeMap<(usize, usize), bool>,
    /// connections that went from alive to drained while handling a harness-made datagram
    pub reset_by_injected: Vec<(usize, usize)>,
    /// Retry packets put on the wire so far
    pub retry_seen: u32,
    polled_pending: BTreeSet<(usize, usize)>,
    pending_wake: bool,
}

fn mk_endpoint_config(spec: &EpSpec, seed: u64, idx: usize) -> EndpointConfig {
    let mut ec = EndpointConfig::new(Arc::new(NullHmacKey(hash64(seed, &[b"reset", &[idx as u8]]))));
    ec.max_udp_payload_size(spec.max_udp_payload).unwrap();
    ec.grease_quic_bit(spec.grease);
    ec.min_reset_interval(Duration::from_millis(spec.reset_interval_ms));
    let mut s = [0u8; 32];
    Rng::new(hash64(seed, &[b"epseed", &[idx as u8]])).fill(&mut s);
    ec.rng_seed(Some(s));
    let len = spec.cid_len;
    let lifetime = spec.cid_lifetime_ms.map(Duration::from_millis);
    let gseed = hash64(seed, &[b"cid", &[idx as u8]]);
    match spec.cid_gen {
        CidGenKind::Seq => {
            ec.cid_generator(Arc::new(move || Box::new(SeqCidGen { len, seed: gseed, ctr: 0, lifetime })));
        }
        CidGenKind::Random => {
            ec.cid_generator(Arc::new(move || {
                let mut g = proto::RandomConnectionIdGenerator::new(len);
                if let Some(l) = lifetime {
                    g.set_lifetime(l);
                }
                Box::new(g)
            }));
        }
        CidGenKind::Hashed => {
            ec.cid_generator(Arc::new(move || {
                let mut g = proto::HashedConnectionIdGenerator::from_key(gseed);
                if let Some(l) = lifetime {
                    g.set_lifetime(l);
                }
                Box::new(g)
            }));
        }
    }
    ec
}

impl World {
    pub fn new(seed: u64, lane: Lane, specs: Vec<EpSpec>, netcfg: NetCfg, drv: DriverCfg) -> Self {
        let t0 = Instant::now();
        let clock = Arc::new(std::sync::atomic::AtomicU64::new(0));
        let mut eps = Vec::new();
        for (idx, spec) in specs.into_iter().enumerate() {
            let ec = Arc::new(mk_endpoint_config(&spec, seed, idx));
            let null_shared = NullShared::new(hash64(seed, &[b"null", &[idx as u8]]));
            let server_cfg = spec.server.as_ref().map(|s| {
                let cc = CcShared::new();
                let mut sc = match lane {
                    #[cfg(feature = "real")]
                    Lane::Null if s.ring_token_key => ServerConfig::new(Arc::new(NullServerConfig { shared: null_shared.clone() }), crate::realcrypto::ring_token_key(hash64(seed, &[b"tok", &[idx as u8]]))),
                    Lane::Null => ServerConfig::new(
                        Arc::new(NullServerConfig { shared: null_shared.clone() }),
                        Arc::new(NullTokenKey(hash64(seed, &[b"tok", &[idx as u8]]))),
                    ),
                    #[cfg(feature = "real")]
                    Lane::Real => crate::realcrypto::server_config(seed),
                    #[cfg(not(feature = "real"))]
                    Lane::Real => panic!("real crypto lane not compiled in"),
                };
                sc.transport_config(Arc::new(s.tcfg.build(cc)));
                sc.migration(s.migration);
                sc.validation_token.sent(s.tokens_sent);
                if let Some(ms) = s.token_lifetime_ms {
                    sc.validation_token.lifetime(Duration::from_millis(ms));
                }
                match s.token_log {
                    #[cfg(feature = "real")]
                    1 => {
                        sc.validation_token.log(Arc::new(proto::BloomTokenLog::new_expected_items(64, 16)));
                    }
                    2 => {
                        sc.validation_token.log(Arc::new(proto::NoneTokenLog));
                    }
                    _ => {}
                }
                sc.retry_token_lifetime(Duration::from_millis(s.retry_lifetime_ms));
                sc.max_incoming(s.max_incoming);
                sc.time_source(Arc::new(VirtClock(clock.clone())));
                Arc::new(sc)
            });
            let ep = Endpoint::new(ec, server_cfg.clone(), spec.allow_mtud);
            eps.push(Ep {
                ep,
                addr: spec.addr,
                addrs: vec![spec.addr],
                spec,
                conns: BTreeMap::new(),
                held: vec![],
                server_cfg,
                null_shared,
                accept_errors: vec![],
                responses: 0,
                token_store: None,
                #[cfg(feature = "real")]
                real_client: None,
            });
        }
        Self {
            lane,
            t0,
            now: 0,
            eps,
            vanished: BTreeSet::new(),
            net: Net::default(),
            netcfg,
            drv,
            rng: Rng::new(seed),
            rng_drv: Rng::new(seed ^ 0xD51),
            rng_late: Rng::new(seed ^ 0x1A7E),
            rng_inject: Rng::new(seed ^ 0x1213C7),
            record_history_default: false,
            recent: Vec::new(),
            counted: BTreeMap::new(),
            clock,
            led: Ledger::default(),
            mon: Mon::new(lane),
            steps: 0,
            ops: vec![],
            next_pair: 1,
            seed,
            trace: None,
            buf: Vec::with_capacity(65536),
            pair_cfg: BTreeMap::new(),
            on_accept_inject: BTreeMap::new(),
            max_jump_ns: u64::MAX,
            old_addresses_die_after_ns: None,
            left_at: BTreeMap::new(),
            keydbg: BTreeMap::new(),
            reset_by_injected: vec![],
            retry_seen: 0,
            polled_pending: BTreeSet::new(),
            pending_wake: false,
        }
    }

    /// Translate the whole run in time (must be called before anything happens).
    pub fn shift_epoch(&mut self, d: Duration) {
        assert!(self.steps == 0 && self.now == 0);
        self.t0 += d;
    }

    pub fn instant(&self) -> Instant {
        self.t0 + Duration::from_nanos(self.now)
    }

    pub fn rel(&self, t: Instant) -> u64 {
        t.saturating_duration_since(self.t0).as_nanos().min(u64::MAX as u128 / 2) as u64
    }

    fn pair_cid(pair: u64) -> ConnectionId {
        let mut b = [0u8; 12];
        b[..8].copy_from_slice(&pair.to_be_bytes());
        b[8..].copy_from_slice(&(hash64(pair, &[b"dcid"]) as u32).to_be_bytes());
        ConnectionId::new(&b)
    }

    fn pair_of_cid(cid: &ConnectionId) -> u64 {
        if cid.len() >= 8 {
            u64::from_be_bytes(cid[..8].try_into().unwrap())
        } else {
            0
        }
    }

    /// Start a client connection from endpoint `from` to endpoint `to`.
    pub fn connect(&mut self, from: usize, to: usize, tcfg: TcfgP, app: AppCfg) -> Result<usize, String> {
        let pair = self.next_pair;
        self.next_pair += 1;
        let cc = CcShared::new();
        let mut cfg = match self.lane {
            Lane::Null => ClientConfig::new(Arc::new(NullClientConfig { shared: self.eps[from].null_shared.clone() })),
            #[cfg(feature = "real")]
            Lane::Real => {
                let q = self.eps[from].real_client.get_or_insert_with(crate::realcrypto::client_crypto).clone();
                ClientConfig::new(q)
            }
            #[cfg(not(feature = "real"))]
            Lane::Real => panic!("real crypto lane not compiled in"),
        };
        cfg.transport_config(Arc::new(tcfg.build(cc.clone())));
        if let Some(ts) = &self.eps[from].token_store {
            cfg.token_store(ts.clone());
        }
        let dcid = Self::pair_cid(pair);
        cfg.initial_dst_cid_provider(Arc::new(move || dcid));
        let now = self.instant();
        let remote = self.eps[to].addr;
        let (ch, mut c) = self.eps[from].ep.connect(now, cfg, remote, "localhost").map_err(|e| format!("{e:?}"))?;
        let mut app = App::new(app, Side::Client, pair, hash64(self.seed, &[b"app", &pair.to_le_bytes()]));
        app.dgram_send_buf = Some(tcfg.dgram_send_buf);
        app.start(&mut c, &mut self.led);
        self.mon.on_conn_created(from, ch.0, pair, Side::Client, remote);
        if let Some(s) = self.eps[to].spec.server.as_ref() {
            self.mon.set_peer_limits(from, ch.0, (s.tcfg.rwnd, s.tcfg.stream_rwnd, s.tcfg.max_bidi, s.tcfg.max_uni));
        }
        self.pair_cfg.insert(pair, tcfg.clone());
        let cid_len = self.eps[from].spec.cid_len;
        self.eps[from].conns.insert(
            ch.0,
            Conn {
                c,
                ch,
                app,
                pair,
                side: Side::Client,
                cc,
                drained_events: 0,
                forgotten: false,
                local_close_at: None,
                created_ns: self.now,
                creation_idx: self.mon.pair_creations.get(&(from, pair)).copied().unwrap_or(1),
                tcfg,
                blocked_transmit_cap: false,
                cid_len,
            },
        );
        Ok(ch.0)
    }

    // ----------------------------------------------------------------------------------------
    // network
    // ----------------------------------------------------------------------------------------

    fn cur_path_mtu(&self) -> usize {
        let mut m = self.netcfg.mtu;
        for &(at, v) in &self.netcfg.mtu_schedule {
            if at <= self.now {
                m = v;
            }
        }
        m
    }

    /// Put one datagram emitted by an endpoint on the wire, applying the fault policy.
    pub fn send_dgram(&mut self, from_ep: usize, origin: Option<usize>, dst: SocketAddr, ecn: Option<EcnCodepoint>, data: Vec<u8>) {
        let src = self.eps[from_ep].addr;
        let dir = if self.eps.first().map_or(false, |e| e.addrs.contains(&dst)) { 0 } else { 1 };
        let idx = self.net.dir_count[dir];
        self.net.dir_count[dir] += 1;
        self.net.gid += 1;
        let gid = self.net.gid;
        let mut data = data;
        if self.netcfg.coalesce_junk_pm > 0 && dir == 0 && data.len() >= 1200 && data[0] & 0xf0 == 0xc0 && crate::wire::split_types(&data).iter().all(|(t, _)| *t == crate::wire::PType::Initial) && self.rng_inject.permille(self.netcfg.coalesce_junk_pm) {
            // Initial packets carry their own length, so whatever follows is a further packet
            let (dl, sl) = (data[5] as usize, *data.get(6 + data[5] as usize).unwrap_or(&0) as usize);
            let k = 2 + self.rng_inject.below(7);
            for _ in 0..k {
                let mut p = vec![0xd0 | (self.rng_inject.below(4) as u8)]; // long header, type 0-RTT
                p.extend_from_slice(&data[1..5]); // version
                p.extend_from_slice(&data[5..6 + dl]); // dcid
                p.extend_from_slice(&data[6 + dl..7 + dl + sl]); // scid
                let body = 20 + self.rng_inject.usize(12);
                crate::wire::put_var(&mut p, body as u64);
                let b = self.rng_inject.bytes(body);
                p.extend(b);
                data.extend(p);
            }
            self.net.fired.inc("coalesced_junk");
        }
        self.mon.on_wire(gid, from_ep, origin, src, dst, &data);
        let faults_on = self.now < self.netcfg.fault_until_ns;
        let n = &self.netcfg;
        if data.len() > self.cur_path_mtu() {
            self.net.fired.inc("mtu_drop");
            return;
        }
        if n.drop_idx[dir].contains(&idx) {
            self.net.fired.inc("enum_drop");
            return;
        }
        if n.blackhole_dst.contains(&dst) {
            self.net.fired.inc("blackholed");
            return;
        }
        if faults_on && self.rng.permille(n.loss_pm) {
            self.net.fired.inc("loss");
            return;
        }
        let mut copies = 1;
        if n.dup_idx[dir].contains(&idx) {
            copies += 1;
            self.net.fired.inc("enum_dup");
        }
        if faults_on && self.rng.permille(n.dup_pm) {
            copies += 1 + self.rng.below(2) as u32;
            self.net.fired.inc("dup");
        }
        for copy in 0..copies {
            let mut at = self.now + self.netcfg.latency_ns;
            if self.netcfg.jitter_ns > 0 {
                at += self.rng.below(self.netcfg.jitter_ns + 1);
            }
            if faults_on && self.rng.permille(self.netcfg.reorder_pm) {
                at += self.rng.below(self.netcfg.reorder_ns + 1);
                self.net.fired.inc("reorder");
            }
            if copy > 0 {
                at += self.rng.below(self.netcfg.reorder_ns + 1);
            }
            let mut d = data.clone();
            let mut forged = false;
            let mut intact = d.len();
            let mut touched: Vec<(usize, usize)> = vec![];
            let mut retry_untouched = true;
            let mut ecn = ecn;
            if let Some((kind, upto)) = self.netcfg.retry_mutation {
                if d.len() > 23 && d[0] & 0xb0 == 0xb0 && u32::from_be_bytes(d[1..5].try_into().unwrap()) != 0 {
                    // a Retry packet: first byte 11 11 xxxx
                    if copy == 0 {
                        self.retry_seen += 1;
                    }
                    if self.retry_seen <= upto {
                        let n = d.len();
                        let dl = d[5] as usize;
                        let sl = *d.get(6 + dl).unwrap_or(&0) as usize;
                        let tok = 7 + dl + sl;
                        match kind {
                            0 => d[n - 1 - self.rng_inject.usize(16)] ^= 1 << self.rng_inject.below(8), // integrity tag
                            1 if tok < n - 16 => {
                                let i = tok + self.rng_inject.usize(n - 16 - tok);
                                d[i] ^= 1 << self.rng_inject.below(8) // token
                            }
                            2 if sl > 0 => d[7 + dl + self.rng_inject.usize(sl)] ^= 1 << self.rng_inject.below(8), // source CID
                            3 if dl > 0 => d[6 + self.rng_inject.usize(dl)] ^= 1 << self.rng_inject.below(8), // destination CID
                            4 => d[0] ^= 1 << self.rng_inject.below(4), // unused bits
                            5 => d.truncate(n - 1 - self.rng_inject.usize(16)),
                            6 => d.push(self.rng_inject.below(256) as u8),
                            _ => d[n - 1] ^= 0x80,
                        }
                        forged = true;
                        intact = 0;
                        retry_untouched = false;
                        self.net.fired.inc("retry_mutated");
                    } else {
                        self.net.fired.inc("retry_genuine");
                    }
                }
            }
            if faults_on && self.rng.permille(self.netcfg.corrupt_pm) {
                forged = true;
                self.net.fired.inc("corrupt");
                match self.rng.below(4) {
                    0 | 1 => {
                        let flips = 1 + self.rng.below(8);
                        for _ in 0..flips {
                            let i = self.rng.usize(d.len());
                            d[i] ^= 1 << self.rng.below(8);
                            intact = intact.min(i);
                            touched.push((i, i + 1));
                        }
                    }
                    2 => {
                        let keep = self.rng.usize(d.len());
                        d.truncate(keep.max(1));
                        intact = d.len();
                        touched.push((d.len(), data.len()));
                        if self.lane == Lane::Null {
                            // plaintext payloads expose reset tokens: a packet cut right behind a
                            // NEW_CONNECTION_ID frame *is* a valid stateless reset for a receiver
                            // that already knows that token (real packet protection hides it).
                            // A cut inside a packet also damages the last byte it leaves.
                            let mut end = 0;
                            let at_boundary = crate::wire::split_types(&data).iter().any(|x| {
                                end += x.1;
                                end == d.len()
                            });
                            if !at_boundary {
                                let i = d.len() - 1;
                                d[i] ^= 1 << self.rng.below(8);
                                intact = intact.min(i);
                                touched.push((i, i + 1));
                            }
                        }
                    }
                    _ => {
                        let extra = 1 + self.rng.usize(40);
                        let mut e = self.rng.bytes(extra);
                        d.append(&mut e);
                    }
                }
            }
            if forged && d == data {
                // the flips cancelled each other out: the datagram is genuine after all
                forged = false;
                intact = d.len();
                touched.clear();
            }
            if faults_on && ecn.is_some() && self.rng.permille(self.netcfg.ce_pm) {
                ecn = Some(EcnCodepoint::Ce);
                self.net.fired.inc("ce");
            }
            self.net.seq += 1;
            self.net.q.push(Dgram {
                at,
                seq: self.net.seq,
                src,
                dst,
                ecn,
                data: d,
                origin: origin.map(|ch| (from_ep, ch)),
                gid,
                copy,
                forged,
                intact,
                orig: if forged && retry_untouched { Some((data.clone(), touched)) } else { None },
                opair: origin.and_then(|ch| self.eps[from_ep].conns.get(&ch).map(|c| c.pair)),
            });
        }
        self.inject_variants(from_ep, origin, src, dst, ecn, &data, gid);
    }

    /// Additional hostile traffic derived from a genuine datagram (never replaces it).
    fn inject_variants(&mut self, from_ep: usize, origin: Option<usize>, src: SocketAddr, dst: SocketAddr, ecn: Option<EcnCodepoint>, data: &[u8], gid: u64) {
        let opair = origin.and_then(|ch| self.eps[from_ep].conns.get(&ch).map(|c| c.pair));
        let base = Dgram { at: 0, seq: 0, src, dst, ecn, data: data.to_vec(), origin: origin.map(|c| (from_ep, c)), gid, copy: 0, forged: false, intact: data.len(), orig: None, opair };
        if self.netcfg.replay_pm > 0 && self.rng_inject.permille(self.netcfg.replay_pm) {
            // verbatim replay, later
            let mut d = base.clone();
            d.at = self.now + self.netcfg.latency_ns + self.rng_inject.below(3_000_000_000);
            d.copy = 100;
            self.net.seq += 1;
            d.seq = self.net.seq;
            self.net.fired.inc("replay");
            self.net.q.push(d);
        }
        // (only single-packet datagrams: in a coalesced datagram the packets that the forgery
        // leaves untouched are still genuine and are legitimately processed)
        if self.netcfg.inject_forged_pm > 0 && self.rng_inject.permille(self.netcfg.inject_forged_pm) && crate::wire::split_types(data).len() == 1 {
            let mut d = base.clone();
            d.forged = true;
            d.intact = 0;
            d.copy = 200;
            d.origin = None;
            d.opair = None;
            d.at = self.now + self.netcfg.latency_ns + self.rng_inject.below(50_000_000);
            match self.rng_inject.below(6) {
                5 => {
                    // long-header packet type changed (Initial / 0-RTT / Handshake / Retry), or
                    // the header form flipped
                    if d.data[0] & 0x80 != 0 {
                        let ty = self.rng_inject.below(3) as u8 + 1;
                        d.data[0] = (d.data[0] & 0xcf) | ((((d.data[0] >> 4) & 3) + ty) & 3) << 4;
                    } else {
                        d.data[0] ^= 0x80;
                    }
                    self.net.fired.inc("forge_type");
                }
                0 => {
                    let flips = 1 + self.rng_inject.below(8);
                    for _ in 0..flips {
                        let i = self.rng_inject.usize(d.data.len());
                        d.data[i] ^= 1 << self.rng_inject.below(8);
                    }
                    self.net.fired.inc("forge_flip");
                }
                1 => {
                    if self.lane == Lane::Null {
                        // plaintext payloads expose reset tokens (a packet ending in
                        // NEW_CONNECTION_ID, cut before its tag, *is* a valid stateless reset):
                        // truncation forgeries only make sense against real packet protection
                        return;
                    }
                    let keep = 1 + self.rng_inject.usize(d.data.len());
                    d.data.truncate(keep);
                    // a truncated datagram may still contain whole genuine packets: not a forgery
                    // of those; only inject cuts inside the first packet
                    let first_len = crate::wire::split_types(data).first().map_or(data.len(), |x| x.1);
                    if keep >= first_len {
                        return;
                    }
                    self.net.fired.inc("forge_truncate");
                }
                2 => {
                    // splice: header bytes (incl. destination CID) of another recent datagram to
                    // the same destination, body of this one
                    let cands: Vec<usize> = (0..self.recent.len()).filter(|&i| self.recent[i].dst == dst && self.recent[i].opair != opair).collect();
                    if cands.is_empty() {
                        return;
                    }
                    let o = &self.recent[cands[self.rng_inject.usize(cands.len())]];
                    let n = 21.min(o.data.len()).min(d.data.len());
                    d.data[..n].copy_from_slice(&o.data[..n]);
                    self.net.fired.inc("forge_splice");
                }
                3 => {
                    // random garbage of the same length with a plausible first byte
                    let mut g = self.rng_inject.bytes(d.data.len());
                    g[0] = d.data[0];
                    d.data = g;
                    self.net.fired.inc("forge_garbage");
                }
                _ => {
                    // body kept, authentication tag altered
                    let n = d.data.len();
                    let i = n - 1 - self.rng_inject.usize(16.min(n - 1));
                    d.data[i] ^= 0x55;
                    self.net.fired.inc("forge_tag");
                }
            }
            if d.data == data {
                // the mutation cancelled itself out (same bit flipped twice): not a forgery
                return;
            }
            self.net.seq += 1;
            d.seq = self.net.seq;
            self.net.q.push(d);
        }
        if self.recent.len() < 64 {
            self.recent.push(base);
        } else {
            let i = self.rng_inject.usize(64);
            self.recent[i] = base;
        }
    }

    /// Inject an arbitrary datagram (harness as attacker / hostile peer).
    pub fn inject(&mut self, at: u64, src: SocketAddr, dst: SocketAddr, ecn: Option<EcnCodepoint>, data: Vec<u8>, gid: u64, forged: bool) {
        self.net.seq += 1;
        let intact = if forged { 0 } else { data.len() };
        self.net.q.push(Dgram { at, seq: self.net.seq, src, dst, ecn, data, origin: None, gid, copy: 1, forged, intact, orig: None, opair: None });
    }

    fn ep_of_addr(&self, a: &SocketAddr) -> Option<usize> {
        self.eps.iter().position(|e| e.addrs.contains(a))
    }

    fn emit_transmit(&mut self, ep: usize, origin: Option<usize>, t: &Transmit, bytes: &[u8]) {
        if origin.is_none() {
            if let Some(tr) = &mut self.trace {
                tr.push(format!("{} stateless-tx {ep} dst={} size={} first={:02x}", self.now, t.destination, t.size, bytes[0]));
            }
        }
        let seg = t.segment_size.unwrap_or(t.size).max(1);
        for chunk in bytes[..t.size].chunks(seg) {
            self.send_dgram(ep, origin, t.destination, t.ecn, chunk.to_vec());
        }
    }

    // ----------------------------------------------------------------------------------------
    // step
    // ----------------------------------------------------------------------------------------

    fn deliver(&mut self, d: Dgram) {
        let Some(ei) = self.ep_of_addr(&d.dst) else {
            self.net.fired.inc("undeliverable");
            return;
        };
        if let Some(grace) = self.old_addresses_die_after_ns {
            if d.dst != self.eps[ei].addr && self.left_at.get(&d.dst).map_or(false, |t| self.now > t + grace) {
                self.net.fired.inc("dead_address");
                return;
            }
        }
        if self.vanished.contains(&ei) {
            return;
        }
        self.net.delivered += 1;
        let now = self.instant();
        let mut buf = std::mem::take(&mut self.buf);
        buf.clear();
        self.mon.before_deliver(ei, &d, &self.eps[ei]);
        let ev = self.eps[ei].ep.handle(now, d.src, None, d.ecn, BytesMut::from(&d.data[..]), &mut buf);
        if std::env::var("QV_TRACE_RX").is_ok() {
            if let Some(tr) = &mut self.trace {
                let kind = match &ev {
                    None => "ignored".to_string(),
                    Some(DatagramEvent::ConnectionEvent(ch, _)) => format!("conn {}", ch.0),
                    Some(DatagramEvent::NewConnection(_)) => "incoming".into(),
                    Some(DatagramEvent::Response(_)) => "response".into(),
                };
                tr.push(format!("{} rx {ei} from {} size={} first={:02x} gid={} copy={}{} -> {kind}", self.now, d.src, d.data.len(), d.data[0], d.gid, d.copy, if d.forged { " forged" } else { "" }));
            }
        }
        match ev {
            None => {
                self.mon.after_deliver(ei, &d, None, &self.eps[ei], &mut self.led);
            }
            Some(DatagramEvent::ConnectionEvent(ch, cev)) => {
                self.mon.after_deliver(ei, &d, Some(ch.0), &self.eps[ei], &mut self.led);
                if self.eps[ei].conns.get(&ch.0).map_or(false, |c| c.forgotten) {
                    self.led.violate("C08", format!("endpoint {ei}: datagram routed to handle {} after that connection drained and was forgotten", ch.0));
                }
                if let Some(conn) = self.eps[ei].conns.get_mut(&ch.0) {
                    self.mon.before_conn_event(ei, ch.0, &d, conn);
                    let pre_rx = format!("{:?}", conn.c.stats().frame_rx);
                    let pre_authed = conn.c.verif_probe().authed_packets;
                    let was_drained = conn.c.is_drained();
                    conn.c.handle_event(cev);
                    if d.forged && d.origin.is_none() && !was_drained && conn.c.is_drained() {
                        // (a datagram made up by the harness ended this connection on the spot: a
                        // stateless reset it accepted)
                        self.reset_by_injected.push((ei, ch.0));
                    }
                    if !d.forged {
                        let npk = crate::wire::split_types(&d.data).len() as u64;
                        let authed = conn.c.verif_probe().authed_packets - pre_authed;
                        // (a zombie connection created after the first delivery is another
                        // connection: for it the datagram is new)
                        let zombie = |first_ns: u64| conn.creation_idx >= 2 && conn.created_ns > first_ns;
                        match self.counted.get(&d.gid).copied() {
                            Some((true, first_ns)) if !zombie(first_ns) => {
                                // this exact datagram was fully processed before: a second
                                // delivery must change no frame counter
                                self.mon.cnt.inc("c04.duplicate_delta_checks");
                                let post_rx = format!("{:?}", conn.c.stats().frame_rx);
                                if post_rx != pre_rx {
                                    self.led.violate("C04", format!("conn {ei}/{}: a datagram delivered a second time changed frame_rx from {pre_rx} to {post_rx}", ch.0));
                                }
                            }
                            _ => {
                                self.counted.insert(d.gid, (authed >= npk && npk > 0, self.now));
                            }
                        }
                    } else if d.untouched().is_empty() {
                        // nothing of this datagram is genuine: it must not be authenticated
                        self.mon.cnt.inc("c04.forged_delivered");
                        let authed = conn.c.verif_probe().authed_packets - pre_authed;
                        let post_rx = format!("{:?}", conn.c.stats().frame_rx);
                        if (authed > 0 || post_rx != pre_rx) && std::env::var("QV_C04_DEBUG").is_ok() {
                            let hx = |b: &[u8]| b.iter().map(|x| format!("{x:02x}")).collect::<String>();
                            eprintln!("C04DEBUG forged copy={} gid={} data={}", d.copy, d.gid, hx(&d.data));
                            for r in self.recent.iter().filter(|r| r.gid == d.gid) {
                                eprintln!("C04DEBUG base gid={} data={}", r.gid, hx(&r.data));
                            }
                        }
                        if authed > 0 {
                            // (being counted as authenticated is what restarts the idle and
                            // keep-alive timers and what makes a client ignore a later Retry or
                            // Version Negotiation)
                            self.mon.cnt.inc("c04.forged_counted_as_authenticated");
                            self.led.violate("C04", format!("conn {ei}/{}: a forged datagram ({} bytes, first byte {:02x}) was counted as an authenticated packet", ch.0, d.data.len(), d.data[0]));
                        }
                        if post_rx != pre_rx {
                            let diff: Vec<String> = pre_rx.split(", ").zip(post_rx.split(", ")).filter(|(a, b)| a != b).map(|(a, b)| format!("{a} -> {b}")).collect();
                            self.led.violate("C04", format!("conn {ei}/{}: a forged datagram ({} bytes, first byte {:02x}) was acted on, frame_rx changed: {diff:?}", ch.0, d.data.len(), d.data[0]));
                        }
                    }
                    self.mon.after_conn_event(ei, ch.0, &d, conn, &mut self.led);
                } else {
                    self.led.violate("C09", format!("endpoint {ei} routed a datagram to unknown handle {}", ch.0));
                }
            }
            Some(DatagramEvent::NewConnection(incoming)) => {
                if d.data.len() < 1200 {
                    self.led.violate("C07", format!("endpoint {ei}: connection state (an Incoming) created for an Initial carried in a {}-byte datagram", d.data.len()));
                }
                if !d.forged {
                    self.counted.insert(d.gid, (true, self.now));
                }
                self.mon.after_deliver(ei, &d, None, &self.eps[ei], &mut self.led);
                self.on_incoming(ei, incoming, &mut buf);
            }
            Some(DatagramEvent::Response(t)) => {
                self.mon.after_deliver(ei, &d, None, &self.eps[ei], &mut self.led);
                self.eps[ei].responses += 1;
                if let Some(tr) = &mut self.trace {
                    let desc = match crate::wire::decode_plain_datagram(&buf[..t.size], 0) {
                        Ok(p) => format!("{:?}", p.iter().map(|x| (x.pkt.ty, x.frames.clone())).collect::<Vec<_>>()),
                        Err(e) => format!("{e:?}"),
                    };
                    tr.push(format!("{} response {ei} dst={} size={} {}", self.now, t.destination, t.size, desc));
                }
                let min_iv = self.eps[ei].spec.reset_interval_ms * 1_000_000;
                let is_server_ep = self.eps[ei].spec.server.is_some();
                self.mon.on_response(ei, &d, &t, &buf[..t.size], self.now, min_iv, is_server_ep, &mut self.led);
                let b = buf[..t.size].to_vec();
                self.emit_transmit(ei, None, &t, &b);
            }
        }
        self.buf = buf;
    }

    fn on_incoming(&mut self, ei: usize, incoming: Incoming, buf: &mut Vec<u8>) {
        let policy = self.eps[ei].spec.server.as_ref().map_or(IncomingPolicy::Accept, |s| s.policy);
        self.mon.on_incoming(ei, &incoming);
        match policy {
            IncomingPolicy::Accept => self.accept(ei, incoming, buf),
            IncomingPolicy::RetryFirst => {
                if incoming.remote_address_validated() || !incoming.may_retry() {
                    self.accept(ei, incoming, buf)
                } else {
                    buf.clear();
                    match self.eps[ei].ep.retry(incoming, buf) {
                        Ok(t) => {
                            let b = buf[..t.size].to_vec();
                            self.mon.on_stateless(ei, &t, &b);
                            self.emit_transmit(ei, None, &t, &b);
                        }
                        Err(e) => {
                            let inc = e.into_incoming();
                            self.eps[ei].ep.ignore(inc);
                        }
                    }
                }
            }
            IncomingPolicy::Refuse => {
                buf.clear();
                let t = self.eps[ei].ep.refuse(incoming, buf);
                let b = buf[..t.size].to_vec();
                self.mon.on_stateless(ei, &t, &b);
                self.emit_transmit(ei, None, &t, &b);
            }
            IncomingPolicy::Ignore => self.eps[ei].ep.ignore(incoming),
            IncomingPolicy::HoldNs(ns) => {
                let at = self.now + ns;
                self.eps[ei].held.push((at, incoming));
            }
        }
    }

    fn accept(&mut self, ei: usize, incoming: Incoming, buf: &mut Vec<u8>) {
        let pair = Self::pair_of_cid(&incoming.orig_dst_cid());
        let remote = incoming.remote_address();
        let validated = incoming.remote_address_validated();
        let now = self.instant();
        buf.clear();
        let spec = self.eps[ei].spec.server.clone().unwrap();
        // a per-connection server config so that each connection has its own CC log
        let cc = CcShared::new();
        let mut sc = (**self.eps[ei].server_cfg.as_ref().unwrap()).clone();
        sc.transport_config(Arc::new(spec.tcfg.build(cc.clone())));
        match self.eps[ei].ep.accept(incoming, now, buf, Some(Arc::new(sc))) {
            Ok((ch, mut c)) => {
                let mut app = App::new(spec.app.clone(), Side::Server, pair, hash64(self.seed, &[b"sapp", &pair.to_le_bytes()]));
                app.dgram_send_buf = Some(spec.tcfg.dgram_send_buf);
                app.record_history = self.record_history_default;
                app.start(&mut c, &mut self.led);
                if let Some(l) = self.on_accept_inject.get(&ei) {
                    for (space, bytes) in l {
                        c.verif_inject_frames(*space, bytes.clone());
                    }
                }
                self.mon.on_conn_created(ei, ch.0, pair, Side::Server, remote);
                self.mon.note_created(ei, ch.0, &c, self.now);
                if let Some(t) = self.pair_cfg.get(&pair) {
                    self.mon.set_peer_limits(ei, ch.0, (t.rwnd, t.stream_rwnd, t.max_bidi, t.max_uni));
                }
                if validated {
                    self.mon.on_validated(ei, ch.0, remote);
                }
                if self.eps[ei].conns.get(&ch.0).map_or(false, |c| !c.forgotten) {
                    self.led.violate("C09", format!("endpoint {ei} reused handle {} while the old connection is still known", ch.0));
                }
                let cid_len = self.eps[ei].spec.cid_len;
                self.eps[ei].conns.insert(
                    ch.0,
                    Conn {
                        c,
                        ch,
                        app,
                        pair,
                        side: Side::Server,
                        cc,
                        drained_events: 0,
                        forgotten: false,
                        local_close_at: None,
                        created_ns: self.now,
                        creation_idx: self.mon.pair_creations.get(&(ei, pair)).copied().unwrap_or(1),
                        tcfg: spec.tcfg.clone(),
                        blocked_transmit_cap: false,
                        cid_len,
                    },
                );
            }
            Err(e) => {
                self.eps[ei].accept_errors.push(format!("{:?}", e.cause));
                if let Some(t) = e.response {
                    let b = buf[..t.size].to_vec();
                    self.mon.on_stateless(ei, &t, &b);
                    self.emit_transmit(ei, None, &t, &b);
                }
            }
        }
    }

    /// An application did deferred work (budgeted reads, held readers) during the last flush and
    /// may have more to do: the driver owes it another poll.
    pub fn wake_pending(&self) -> bool {
        self.pending_wake
    }

    /// Drain application events of one connection.
    fn drain_events(&mut self, ei: usize, ch: usize) -> bool {
        let mut any = false;
        if !self.polled_pending.contains(&(ei, ch)) {
            self.polled_pending.insert((ei, ch));
            if let Some(conn) = self.eps[ei].conns.get_mut(&ch) {
                if !conn.c.is_drained() && conn.app.poll_pending(&mut conn.c, &mut self.led) {
                    any = true;
                    self.pending_wake = true;
                }
            }
        }
        loop {
            let Some(conn) = self.eps[ei].conns.get_mut(&ch) else {
                return any;
            };
            let Some(ev) = conn.c.poll() else {
                return any;
            };
            any = true;
            if let Some(tr) = &mut self.trace {
                tr.push(format!("{} ev {ei}/{ch} {ev:?}", self.now));
            }
            self.mon.on_event(ei, ch, &ev, conn, self.now, &mut self.led);
            // 0-RTT rejection: early streams vanish; restart the plans
            let rejected = matches!(ev, Event::Connected) && conn.side == Side::Client && conn.c.has_0rtt() && !conn.c.accepted_0rtt();
            if rejected {
                // (C17) at this instant the client has not sent a single 1-RTT byte yet: whatever
                // the server application holds of this pair's client data is rejected early data
                let pair = conn.pair;
                let leaked: u64 = self.led.flows.iter().filter(|((p, wc, _), _)| *p == pair && *wc).map(|(_, f)| f.delivered.total()).sum();
                let leaked_dgrams = self.led.dgrams.get(&(pair, true)).map_or(0, |d| d.received.len() as u64 + d.anonymous_received);
                if leaked + leaked_dgrams > 0 {
                    self.led.violate("C17", format!("pair {pair:x}: the server application received {leaked} stream bytes and {leaked_dgrams} datagrams of early data that was rejected"));
                }
                // the early streams are gone ...
                for sid in conn.app.open_send_ids() {
                    let id = proto::StreamId::from(VarInt::from_u64(sid).unwrap());
                    match conn.c.send_stream(id).write(&[0]) {
                        Err(proto::WriteError::ClosedStream) => self.mon.cnt.inc("c17.early_stream_closed_after_rejection"),
                        other => self.led.violate("C17", format!("pair {pair:x}: write on early stream {id} after the rejection returned {other:?}, expected ClosedStream")),
                    }
                }
                // ... and the connection starts over with the newly negotiated values
                let p = conn.c.verif_probe();
                if p.streams.next != [0, 0] || p.streams.data_sent != 0 || p.streams.send_streams != 0 {
                    self.led.violate("C17", format!("pair {pair:x}: after the rejection stream numbering / accounting did not restart: next={:?} data_sent={} send_streams={}", p.streams.next, p.streams.data_sent, p.streams.send_streams));
                }
                if let Some(srv) = self.eps.iter().find_map(|e| e.spec.server.as_ref()) {
                    let t = &srv.tcfg;
                    if p.streams.max != [t.max_bidi, t.max_uni] || p.streams.max_data != t.rwnd {
                        self.led.violate("C17", format!("pair {pair:x}: after the rejection the limits are not the newly negotiated ones: max streams {:?} (server now allows [{}, {}]), max_data {} (server now allows {})", p.streams.max, t.max_bidi, t.max_uni, p.streams.max_data, t.rwnd));
                    }
                }
                let conn = self.eps[ei].conns.get_mut(&ch).unwrap();
                conn.app.requeue_all();
                // what is written from now on is new data: forget the rejected attempt
                *self.led.epoch.entry(pair).or_insert(0) += 1;
                self.led.flows.retain(|(p, wc, _), _| !(*p == pair && *wc));
                self.led.dgrams.remove(&(pair, true));
                self.mon.on_0rtt_rejected(ei, ch, pair, &mut self.led);
            }
            let conn = self.eps[ei].conns.get_mut(&ch).unwrap();
            conn.app.on_event(&mut conn.c, ev, &mut self.led);
        }
    }

    /// Endpoint events + transmits for one connection; returns whether anything happened.
    fn flush_conn(&mut self, ei: usize, ch: usize) -> bool {
        let mut any = false;
        let now = self.instant();
        // endpoint events
        loop {
            let Some(conn) = self.eps[ei].conns.get_mut(&ch) else {
                return any;
            };
            let Some(ee) = conn.c.poll_endpoint_events() else {
                break;
            };
            any = true;
            let drained = ee.is_drained();
            if conn.forgotten {
                // the connection already emitted Drained and the endpoint forgot it: anything
                // it emits now would index a freed slot inside the endpoint
                let desc = format!("{ee:?}");
                self.led.violate("C08", format!("conn {ei}/{ch}: endpoint event after the final Drained event: {}", &desc[..desc.len().min(60)]));
                continue;
            }
            if let Some(tr) = &mut self.trace {
                tr.push(format!("{} epev {ei}/{ch} drained={drained}", self.now));
            }
            if drained {
                conn.drained_events += 1;
                self.mon.on_drained_event(ei, ch, conn, self.now, &mut self.led);
            }
            let ep = &mut self.eps[ei];
            let open_before = ep.ep.open_connections();
            if let Some(cev) = ep.ep.handle_event(ConnectionHandle(ch), ee) {
                if let Some(conn) = ep.conns.get_mut(&ch) {
                    conn.c.handle_event(cev);
                }
            }
            if drained {
                let open_after = self.eps[ei].ep.open_connections();
                self.mon.cnt.inc("c08.forget_checks");
                let already = self.eps[ei].conns.get(&ch).map_or(false, |c| c.forgotten);
                if !already && open_after + 1 != open_before {
                    self.led.violate("C08", format!("endpoint {ei}: open_connections went {open_before} -> {open_after} when connection {ch} drained"));
                }
                if let Some(conn) = self.eps[ei].conns.get_mut(&ch) {
                    conn.forgotten = true;
                }
            }
        }
        // transmits
        let mut n = 0;
        let mut buf = std::mem::take(&mut self.buf);
        loop {
            if self.drv.transmit_cap > 0 && n >= self.drv.transmit_cap {
                if let Some(conn) = self.eps[ei].conns.get_mut(&ch) {
                    conn.blocked_transmit_cap = true;
                }
                break;
            }
            let Some(conn) = self.eps[ei].conns.get_mut(&ch) else {
                break;
            };
            buf.clear();
            let pre = self.mon.pre_transmit(ei, ch, conn);
            let t = conn.c.poll_transmit(now, self.drv.max_datagrams, &mut buf);
            match t {
                None => {
                    self.mon.post_transmit_none(ei, ch, conn, &pre, self.now, &mut self.led);
                    if self.rng_drv.chance(self.drv.extra_poll_pct) {
                        // extra calls right after None must be harmless
                        buf.clear();
                        let t2 = conn.c.poll_transmit(now, self.drv.max_datagrams, &mut buf);
                        self.mon.cnt.inc("c20.extra_poll_transmit");
                        if let Some(t2) = t2 {
                            self.led.violate(
                                "C20",
                                format!("poll_transmit returned {} bytes right after returning None at the same instant", t2.size),
                            );
                        }
                        let _ = conn.c.poll_timeout();
                    }
                    break;
                }
                Some(t) => {
                    any = true;
                    n += 1;
                    if let Some(tr) = &mut self.trace {
                        tr.push(format!(
                            "{} tx {ei}/{ch} dst={} ecn={:?} seg={:?} size={} h={:016x}",
                            self.now,
                            t.destination,
                            t.ecn,
                            t.segment_size,
                            t.size,
                            hash64(7, &[&buf[..t.size]])
                        ));
                        if self.lane == Lane::Null {
                            let cl = self.eps.iter().position(|e| e.addrs.contains(&t.destination)).map(|i| self.eps[i].spec.cid_len).unwrap_or(0);
                            let seg = t.segment_size.unwrap_or(t.size).max(1);
                            for s in buf[..t.size].chunks(seg) {
                                match crate::wire::decode_plain_datagram(s, cl) {
                                    Ok(p) => {
                                        for pk in p {
                                            tr.push(format!("    {:?} pn={} len={} {:?}", pk.pkt.ty, pk.pkt.pn_trunc, pk.size, pk.frames));
                                        }
                                    }
                                    Err(e) => tr.push(format!("    undecodable: {e:?}")),
                                }
                            }
                        }
                    }
                    let dst_cid_len = self.ep_of_addr(&t.destination).map(|i| self.eps[i].spec.cid_len);
                    let conn = self.eps[ei].conns.get_mut(&ch).unwrap();
                    self.mon.post_transmit(ei, ch, conn, &pre, &t, &buf[..t.size], dst_cid_len, self.now, self.drv.max_datagrams, &mut self.led);
                    let b = buf[..t.size].to_vec();
                    if !self.vanished.contains(&ei) {
                        self.emit_transmit(ei, Some(ch), &t, &b);
                    }
                }
            }
        }
        self.buf = buf;
        any
    }

    fn run_ops(&mut self) {
        let mut due = vec![];
        let mut i = 0;
        while i < self.ops.len() {
            if self.ops[i].0 <= self.now {
                due.push(self.ops.remove(i).1);
            } else {
                i += 1;
            }
        }
        for op in due {
            self.apply_op(op);
        }
    }

    pub fn apply_op(&mut self, op: Op) {
        let now = self.instant();
        if let Some(tr) = &mut self.trace {
            tr.push(format!("{} op {op:?}", self.now));
        }
        match op {
            Op::KeyUpdate { ep } => {
                for c in self.eps[ep].conns.values_mut() {
                    if !c.c.is_handshaking() && !c.c.is_closed() {
                        c.c.force_key_update();
                        self.mon.cnt.inc("op.key_update");
                    }
                }
            }
            Op::Ping { ep } => {
                for c in self.eps[ep].conns.values_mut() {
                    if !c.c.is_closed() {
                        c.c.ping();
                    }
                }
            }
            Op::PathChanged { ep } => {
                for c in self.eps[ep].conns.values_mut() {
                    if !c.c.is_closed() && !c.c.is_handshaking() {
                        c.c.path_changed(now);
                        self.mon.cnt.inc("op.path_changed");
                    }
                }
            }
            Op::SetRecvWindow { ep, v } => {
                for c in self.eps[ep].conns.values_mut() {
                    c.c.set_receive_window(VarInt::from_u64(v).unwrap());
                    self.mon.on_set_receive_window(ep, c.ch.0, v);
                }
            }
            Op::SetSendWindow { ep, v } => {
                for c in self.eps[ep].conns.values_mut() {
                    c.c.set_send_window(v);
                }
            }
            Op::SetMaxConcurrent { ep, bidi, v } => {
                if self.eps[ep].conns.is_empty() && self.now < 3_000_000_000_000 {
                    // no connection yet: try again shortly so the change is not lost
                    self.ops.push((self.now + 200_000_000, Op::SetMaxConcurrent { ep, bidi, v }));
                }
                for c in self.eps[ep].conns.values_mut() {
                    c.c.set_max_concurrent_streams(if bidi { proto::Dir::Bi } else { proto::Dir::Uni }, VarInt::from_u64(v).unwrap());
                }
            }
            Op::Rebind { ep, alt, tell_conn } => {
                // an address change before the handshake is confirmed on both sides legitimately
                // kills the handshake; postpone until every connection is established
                let all_up = self.eps.iter().all(|e| e.conns.values().all(|c| c.app.connected && !c.c.is_handshaking()))
                    && self.eps.iter().any(|e| !e.conns.is_empty())
                    && self.eps[ep].conns.values().all(|c| c.c.verif_probe().has_keys[1] == false);
                if !all_up {
                    if self.now < 3_000_000_000_000 {
                        self.ops.push((self.now + 200_000_000, Op::Rebind { ep, alt, tell_conn }));
                    }
                    return;
                }
                let idx = ep;
                let na = addr_of(idx, alt);
                let e = &mut self.eps[idx];
                if !e.addrs.contains(&na) {
                    e.addrs.push(na);
                }
                e.addr = na;
                self.mon.cnt.inc("op.rebind");
                self.mon.rebinds += 1;
                if tell_conn {
                    for c in e.conns.values_mut() {
                        c.c.local_address_changed();
                    }
                }
            }
            Op::Close { ep, code, reason } => {
                let nowns = self.now;
                for c in self.eps[ep].conns.values_mut() {
                    if !c.c.is_closed() {
                        self.mon.on_local_close(ep, c.ch.0, c, nowns, code as u64, &reason);
                        c.c.close(now, VarInt::from_u32(code), reason.clone().into());
                        c.local_close_at = Some(nowns);
                        self.mon.after_local_close(ep, c.ch.0, c, nowns);
                    }
                }
            }
            Op::CloseAll { code } => {
                for ep in 0..self.eps.len() {
                    self.apply_op(Op::Close { ep, code, reason: b"bye".to_vec() });
                }
            }
            Op::Vanish { ep } => {
                self.vanished.insert(ep);
            }
            Op::Connect { from, tcfg, app } => {
                if self.connect(from, 0, *tcfg, *app).is_ok() {
                    self.mon.cnt.inc("op.connect");
                }
            }
            Op::CloseOne { ep, ch, code } => {
                let nowns = self.now;
                if let Some(c) = self.eps[ep].conns.get_mut(&ch) {
                    if !c.c.is_closed() {
                        self.mon.on_local_close(ep, ch, c, nowns, code as u64, b"one");
                        c.c.close(now, VarInt::from_u32(code), bytes::Bytes::from_static(b"one"));
                        c.local_close_at = Some(nowns);
                        self.mon.after_local_close(ep, ch, c, nowns);
                        self.mon.cnt.inc("op.close_one");
                    }
                }
            }
            Op::PathMtu { mtu } => {
                self.netcfg.mtu = mtu;
                self.netcfg.mtu_schedule.clear();
            }
        }
    }

    fn next_timer(&self) -> Option<u64> {
        let mut best: Option<u64> = None;
        for (ei, e) in self.eps.iter().enumerate() {
            if self.vanished.contains(&ei) {
                continue;
            }
            for c in e.conns.values() {
                if let Some(t) = c.c.poll_timeout() {
                    let r = self.rel(t);
                    best = Some(best.map_or(r, |b| b.min(r)));
                }
            }
            for (at, _) in &e.held {
                best = Some(best.map_or(*at, |b| b.min(*at)));
            }
        }
        best
    }

    /// One instant of the world. Returns false if nothing can ever happen again.
    pub fn step(&mut self) -> bool {
        self.steps += 1;
        self.clock.store(self.now, std::sync::atomic::Ordering::Relaxed);
        self.polled_pending.clear();
        self.pending_wake = false;
        // 1. deliveries due now
        let mut due = vec![];
        while self.net.q.peek().map_or(false, |d| d.at <= self.now) {
            due.push(self.net.q.pop().unwrap());
        }
        for d in due {
            self.deliver(d);
        }
        // held incomings
        for ei in 0..self.eps.len() {
            let mut i = 0;
            while i < self.eps[ei].held.len() {
                if self.eps[ei].held[i].0 <= self.now {
                    let (_, inc) = self.eps[ei].held.remove(i);
                    let mut buf = Vec::new();
                    self.accept(ei, inc, &mut buf);
                } else {
                    i += 1;
                }
            }
        }
        self.run_ops();
        // adversarial congestion controllers: re-draw the window between polls
        for e in &self.eps {
            for c in e.conns.values() {
                if let crate::cfg::CcKind::Adversarial { min, max } = c.tcfg.cc {
                    let w = min + self.rng.below(max.saturating_sub(min) + 1);
                    c.cc.set_window(w);
                }
            }
        }
        // 2..4 timers, events, flush until settled at this instant
        let keys: Vec<(usize, usize)> =
            self.eps.iter().enumerate().flat_map(|(ei, e)| e.conns.keys().map(move |k| (ei, *k))).collect();
        let now_i = self.instant();
        let mut timer_rounds = 0;
        for round in 0..100_000 {
            let mut progress = false;
            let mut timer_fired = false;
            let keys_now: Vec<(usize, usize)> = if round == 0 {
                keys.clone()
            } else {
                self.eps.iter().enumerate().flat_map(|(ei, e)| e.conns.keys().map(move |k| (ei, *k))).collect()
            };
            for &(ei, ch) in &keys_now {
                if self.vanished.contains(&ei) {
                    continue;
                }
                {
                    let spurious = self.rng_drv.chance(self.drv.spurious_timeout_pct);
                    let Some(conn) = self.eps[ei].conns.get_mut(&ch) else { continue };
                    let due = conn.c.poll_timeout().map_or(false, |t| t <= now_i);
                    if due || spurious {
                        if !due {
                            self.mon.cnt.inc("c20.spurious_timeout");
                        }
                        let before = conn.c.poll_timeout();
                        self.mon.before_timeout(ei, ch, conn, self.now, due);
                        conn.c.handle_timeout(now_i);
                        self.mon.after_timeout(ei, ch, conn, self.now, due, before, &mut self.led);
                        if due {
                            progress = true;
                            timer_fired = true;
                        }
                    }
                }
                progress |= self.drain_events(ei, ch);
                progress |= self.flush_conn(ei, ch);
            }
            if !progress {
                break;
            }
            if timer_fired {
                timer_rounds += 1;
            }
            if timer_rounds > 64 || round > 50_000 {
                self.led.violate(
                    "C20",
                    format!("t={}ns: servicing timeouts/transmits at one instant did not settle within 64 rounds", self.now),
                );
                break;
            }
        }
        // a drained connection produces nothing, whatever is polled
        if self.steps % 4 == 0 {
            let now_i = self.instant();
            let mut msgs = vec![];
            for (ei, e) in self.eps.iter_mut().enumerate() {
                for (ch, c) in e.conns.iter_mut() {
                    if c.c.is_drained() && c.drained_events > 0 {
                        self.mon.cnt.inc("c20.drained_polls");
                        let mut b = Vec::new();
                        if c.c.poll_transmit(now_i, 3, &mut b).is_some() {
                            msgs.push(format!("conn {ei}/{ch}: poll_transmit produced output after drain"));
                        }
                        if let Some(ev) = c.c.poll() {
                            if !matches!(ev, Event::ConnectionLost { .. }) && c.app.events_seen > 0 {
                                // events queued before the drain may still be read; anything new is not
                            }
                            c.app.on_event(&mut c.c, ev, &mut self.led);
                        }
                        if c.c.poll_endpoint_events().is_some() {
                            msgs.push(format!("conn {ei}/{ch}: endpoint event after the Drained event"));
                        }
                        c.c.handle_timeout(now_i);
                        if c.c.poll_transmit(now_i, 3, &mut b).is_some() {
                            msgs.push(format!("conn {ei}/{ch}: poll_transmit produced output after drain + handle_timeout"));
                        }
                    }
                }
            }
            for m in msgs {
                self.led.violate("C20", m);
            }
        }
        if std::env::var("QV_TRACE_KEYS").is_ok() {
            if let Some(tr) = &mut self.trace {
                for (ei, e) in self.eps.iter().enumerate() {
                    for (ch, c) in &e.conns {
                        let p = c.c.verif_probe();
                        let k = (ei, *ch);
                        if self.keydbg.get(&k) != Some(&p.key_phase) {
                            self.keydbg.insert(k, p.key_phase);
                            tr.push(format!("{} keyphase {ei}/{ch} -> {}", self.now, p.key_phase));
                            eprintln!("KEYPHASE t={} {ei}/{ch} -> {}", self.now, p.key_phase);
                        }
                    }
                }
            }
        }
        // forget drained connections' bookkeeping
        self.mon.end_of_step(self.now, &self.eps, &mut self.led);
        // 5. advance time
        let mut next: Option<u64> = self.net.q.peek().map(|d| d.at);
        if let Some(t) = self.next_timer() {
            let mut t = t;
            if self.drv.timer_late_ns > 0 {
                t += self.rng_late.below(self.drv.timer_late_ns + 1);
            }
            next = Some(next.map_or(t, |n| n.min(t)));
        }
        if let Some(&(at, _)) = self.ops.iter().min_by_key(|(at, _)| *at) {
            next = Some(next.map_or(at, |n| n.min(at)));
        }
        let capped = self.eps.iter().any(|e| e.conns.values().any(|c| c.blocked_transmit_cap)) || self.pending_wake;
        if capped {
            for e in &mut self.eps {
                for c in e.conns.values_mut() {
                    c.blocked_transmit_cap = false;
                }
            }
            // the driver owes the connections another poll; do it 1 µs later
            let t = self.now + 1_000;
            next = Some(next.map_or(t, |n| n.min(t)));
        }
        if self.drv.busy_poll {
            for e in &self.eps {
                for c in e.conns.values() {
                    if let Some(bps) = c.tcfg.max_bps {
                        if !c.c.is_drained() && c.c.verif_probe().timers.iter().any(|t| t.0 == "Pacing") {
                            let t = self.now + (300_000_000 / bps.max(1)).max(1);
                            next = Some(next.map_or(t, |n| n.min(t)));
                            self.mon.cnt.inc("drv.busy_polls");
                        }
                    }
                }
            }
        }
        match next {
            None => false,
            Some(t) if t.saturating_sub(self.now) > self.max_jump_ns => false,
            Some(t) => {
                self.now = self.now.max(t);
                true
            }
        }
    }

    /// Let every connection emit what its last API calls queued (events, endpoint events,
    /// transmits) without delivering anything and without advancing time.
    pub fn flush_now(&mut self) {
        for _ in 0..64 {
            let mut progress = false;
            let keys: Vec<(usize, usize)> = self.eps.iter().enumerate().flat_map(|(ei, e)| e.conns.keys().map(move |k| (ei, *k))).collect();
            for (ei, ch) in keys {
                progress |= self.drain_events(ei, ch);
                progress |= self.flush_conn(ei, ch);
            }
            if !progress {
                break;
            }
        }
    }

    pub fn run(&mut self, max_steps: u64, max_ns: u64, mut done: impl FnMut(&World) -> bool) -> RunEnd {
        let start = self.steps;
        loop {
            if done(self) {
                return RunEnd::Done;
            }
            if self.steps - start >= max_steps {
                return RunEnd::StepCap;
            }
            if self.now > max_ns {
                return RunEnd::TimeCap;
            }
            if !self.step() {
                if done(self) {
                    return RunEnd::Done;
                }
                return RunEnd::Quiescent;
            }
        }
    }

    /// Drain every connection's received datagrams (end of a run). For receivers that never
    /// read before, on a FIFO path, what they hold must be a suffix of the arrival order.
    pub fn read_all_datagrams(&mut self, fifo: bool) {
        for ei in 0..self.eps.len() {
            let chs: Vec<usize> = self.eps[ei].conns.keys().copied().collect();
            for ch in chs {
                let conn = self.eps[ei].conns.get_mut(&ch).unwrap();
                let writer_client = conn.side == Side::Server;
                let pair = conn.pair;
                let before = self.led.dgram(pair, writer_client).received.len();
                let never_read = !conn.app.cfg.dgram_read;
                conn.app.read_dgrams(&mut conn.c, &mut self.led);
                if never_read && fifo && self.lane == Lane::Null {
                    let got: Vec<u32> = self.led.dgram(pair, writer_client).received[before..].to_vec();
                    let arrivals: Vec<u32> = self.mon.dgram_arrivals.get(&(ei, ch)).map(|v| v.iter().flatten().copied().collect()).unwrap_or_default();
                    self.mon.cnt.inc("c16.suffix_checks");
                    let ok = got.len() <= arrivals.len() && arrivals[arrivals.len() - got.len()..] == got[..];
                    if !ok {
                        self.mon.violate(
                            "C16",
                            format!("conn {ei}/{ch}: non-reading receiver holds {got:?}, not a suffix of the arrival order {arrivals:?} (oldest must be dropped first)"),
                        );
                    }
                    if got.len() < arrivals.len() {
                        self.mon.cnt.inc("c16.receiver_overflowed");
                    }
                }
            }
        }
    }

    pub fn all_violations(&mut self) -> Vec<Violation> {
        let mut v = std::mem::take(&mut self.led.viol);
        v.append(&mut self.mon.take_violations());
        v
    }

    /// Have all "must complete" flows completed and are all send jobs done?
    pub fn workload_complete(&self) -> bool {
        for e in &self.eps {
            for c in e.conns.values() {
                if !c.app.jobs_done() && c.app.lost_count == 0 && c.local_close_at.is_none() {
                    return false;
                }
            }
        }
        self.led.flows.values().all(|f| !f.must_complete() || f.complete())
    }

    pub fn all_connected(&self) -> bool {
        self.eps.iter().all(|e| e.conns.values().all(|c| c.app.connected))
    }
}
