//! Small deterministic utilities: PRNG, keyed hash, range set.

/// xoshiro256** seeded through splitmix64.
#[derive(Clone, Debug)]
pub struct Rng {
    s: [u64; 4],
}

pub fn splitmix(x: &mut u64) -> u64 {
    *x = x.wrapping_add(0x9E37_79B9_7F4A_7C15);
    let mut z = *x;
    z = (z ^ (z >> 30)).wrapping_mul(0xBF58_476D_1CE4_E5B9);
    z = (z ^ (z >> 27)).wrapping_mul(0x94D0_49BB_1331_11EB);
    z ^ (z >> 31)
}

impl Rng {
    pub fn new(seed: u64) -> Self {
        let mut x = seed ^ 0xA076_1D64_78BD_642F;
        let s = [splitmix(&mut x), splitmix(&mut x), splitmix(&mut x), splitmix(&mut x)];
        Self { s }
    }
    pub fn fork(&mut self, salt: u64) -> Self {
        Self::new(self.u64() ^ salt.wrapping_mul(0x9E37_79B9_7F4A_7C15))
    }
    pub fn u64(&mut self) -> u64 {
        let r = self.s[1].wrapping_mul(5).rotate_left(7).wrapping_mul(9);
        let t = self.s[1] << 17;
        self.s[2] ^= self.s[0];
        self.s[3] ^= self.s[1];
        self.s[1] ^= self.s[2];
        self.s[0] ^= self.s[3];
        self.s[2] ^= t;
        self.s[3] = self.s[3].rotate_left(45);
        r
    }
    /// Uniform in [0, n) (n > 0)
    pub fn below(&mut self, n: u64) -> u64 {
        debug_assert!(n > 0);
        ((self.u64() as u128 * n as u128) >> 64) as u64
    }
    pub fn range(&mut self, lo: u64, hi_incl: u64) -> u64 {
        lo + self.below(hi_incl - lo + 1)
    }
    pub fn usize(&mut self, n: usize) -> usize {
        self.below(n as u64) as usize
    }
    pub fn chance(&mut self, pct: u32) -> bool {
        pct > 0 && self.below(100) < pct as u64
    }
    pub fn permille(&mut self, pm: u32) -> bool {
        pm > 0 && self.below(1000) < pm as u64
    }
    pub fn bool(&mut self) -> bool {
        self.u64() & 1 == 1
    }
    pub fn pick<'a, T>(&mut self, xs: &'a [T]) -> &'a T {
        &xs[self.usize(xs.len())]
    }
    pub fn fill(&mut self, buf: &mut [u8]) {
        for c in buf.chunks_mut(8) {
            let v = self.u64().to_le_bytes();
            c.copy_from_slice(&v[..c.len()]);
        }
    }
    pub fn bytes(&mut self, n: usize) -> Vec<u8> {
        let mut v = vec![0; n];
        self.fill(&mut v);
        v
    }
    pub fn shuffle<T>(&mut self, xs: &mut [T]) {
        for i in (1..xs.len()).rev() {
            let j = self.usize(i + 1);
            xs.swap(i, j);
        }
    }
}

#[inline]
fn mix(a: u64, b: u64) -> u64 {
    let r = (a as u128).wrapping_mul(b as u128);
    (r as u64) ^ ((r >> 64) as u64)
}

/// Keyed 128-bit hash over several byte slices (length-framed).
pub fn mac128(key: u64, parts: &[&[u8]]) -> [u8; 16] {
    let mut h0 = key ^ 0x2D35_8DCC_AA6C_78A5;
    let mut h1 = key.rotate_left(32) ^ 0x8BB8_4B93_962E_ACC9;
    for p in parts {
        h0 = mix(h0 ^ p.len() as u64, 0x4B33_A62E_D433_D4A3);
        let mut it = p.chunks_exact(8);
        for c in &mut it {
            let v = u64::from_le_bytes(c.try_into().unwrap());
            h0 = mix(h0 ^ v, 0x9E37_79B9_7F4A_7C15);
            h1 = mix(h1.rotate_left(23) ^ v, 0xD6E8_FEB8_6659_FD93);
        }
        let rem = it.remainder();
        if !rem.is_empty() {
            let mut b = [0u8; 8];
            b[..rem.len()].copy_from_slice(rem);
            let v = u64::from_le_bytes(b) ^ ((rem.len() as u64) << 56);
            h0 = mix(h0 ^ v, 0x9E37_79B9_7F4A_7C15);
            h1 = mix(h1.rotate_left(23) ^ v, 0xD6E8_FEB8_6659_FD93);
        }
    }
    let a = mix(h0 ^ h1.rotate_left(17), 0xA076_1D64_78BD_642F);
    let b = mix(h1 ^ h0.rotate_left(41), 0xE703_7ED1_A0B4_28DB);
    let mut out = [0u8; 16];
    out[..8].copy_from_slice(&a.to_le_bytes());
    out[8..].copy_from_slice(&b.to_le_bytes());
    out
}

pub fn hash64(key: u64, parts: &[&[u8]]) -> u64 {
    u64::from_le_bytes(mac128(key, parts)[..8].try_into().unwrap())
}

/// Simple ordered set of half-open u64 ranges (reference implementation for oracles).
#[derive(Clone, Debug, Default, PartialEq, Eq)]
pub struct Ranges {
    v: Vec<(u64, u64)>,
}

impl Ranges {
    pub fn new() -> Self {
        Self { v: Vec::new() }
    }
    /// Insert [a,b). Returns number of bytes that were already present (overlap).
    pub fn insert(&mut self, a: u64, b: u64) -> u64 {
        if a >= b {
            return 0;
        }
        let mut overlap = 0;
        let mut na = a;
        let mut nb = b;
        let mut out = Vec::with_capacity(self.v.len() + 1);
        let mut placed = false;
        for &(x, y) in &self.v {
            if y < na {
                out.push((x, y));
            } else if x > nb {
                if !placed {
                    out.push((na, nb));
                    placed = true;
                }
                out.push((x, y));
            } else {
                let lo = x.max(a);
                let hi = y.min(b);
                if hi > lo {
                    overlap += hi - lo;
                }
                na = na.min(x);
                nb = nb.max(y);
            }
        }
        if !placed {
            out.push((na, nb));
        }
        self.v = out;
        overlap
    }
    pub fn covers(&self, a: u64, b: u64) -> bool {
        a >= b || self.v.iter().any(|&(x, y)| x <= a && b <= y)
    }
    pub fn is_exactly(&self, a: u64, b: u64) -> bool {
        if a >= b {
            self.v.is_empty()
        } else {
            self.v.len() == 1 && self.v[0] == (a, b)
        }
    }
    pub fn total(&self) -> u64 {
        self.v.iter().map(|&(x, y)| y - x).sum()
    }
    pub fn max_end(&self) -> u64 {
        self.v.last().map_or(0, |x| x.1)
    }
    pub fn as_slice(&self) -> &[(u64, u64)] {
        &self.v
    }
    pub fn is_empty(&self) -> bool {
        self.v.is_empty()
    }
}

/// Self-identifying payload: byte at `off` of the flow identified by `key`.
#[inline]
pub fn payload_byte(key: u64, off: u64) -> u8 {
    let w = mix(key ^ (off >> 3).wrapping_mul(0x9E37_79B9_7F4A_7C15), 0xD6E8_FEB8_6659_FD93);
    (w >> ((off & 7) * 8)) as u8
}

pub fn payload_fill(key: u64, off: u64, buf: &mut [u8]) {
    for (i, b) in buf.iter_mut().enumerate() {
        *b = payload_byte(key, off + i as u64);
    }
}

pub fn payload_check(key: u64, off: u64, buf: &[u8]) -> Option<usize> {
    buf.iter().enumerate().position(|(i, b)| *b != payload_byte(key, off + i as u64))
}

pub fn hex(b: &[u8]) -> String {
    let mut s = String::with_capacity(b.len() * 2);
    for x in b {
        s.push_str(&format!("{:02x}", x));
    }
    s
}
