//! Plain-data configuration descriptions (printable, replayable) and their translation into
//! quinn-proto configuration objects, plus harness-owned congestion controllers and CID generators.

use std::{
    any::Any,
    sync::{Arc, Mutex},
    time::{Duration, Instant},
};

use proto::{
    congestion::{self, Controller, ControllerFactory},
    AckFrequencyConfig, ConnectionId, ConnectionIdGenerator, IdleTimeout, MtuDiscoveryConfig,
    RttEstimator, TransportConfig, VarInt,
};

use crate::util::{mac128, Rng};

#[derive(Debug, Clone, PartialEq)]
pub enum CcKind {
    Cubic,
    NewReno,
    Bbr,
    /// Fixed window in bytes
    Fixed(u64),
    /// Window re-drawn from [min,max] whenever the harness calls `CcShared::reroll`
    Adversarial { min: u64, max: u64 },
}

#[derive(Debug, Clone, PartialEq)]
pub struct TcfgP {
    pub max_bidi: u64,
    pub max_uni: u64,
    pub idle_ms: Option<u32>,
    pub stream_rwnd: u64,
    pub rwnd: u64,
    pub send_window: u64,
    pub send_fairness: bool,
    pub packet_threshold: u32,
    pub time_threshold: f32,
    pub initial_rtt_ms: u64,
    pub initial_mtu: u16,
    pub min_mtu: u16,
    /// (upper bound, interval secs, black hole cooldown secs, minimum change)
    pub mtud: Option<(u16, u64, u64, u16)>,
    pub pad_to_mtu: bool,
    /// (ack eliciting threshold, max ack delay ms, reordering threshold)
    pub ack_freq: Option<(u32, Option<u64>, u32)>,
    pub max_bps: Option<u64>,
    pub persistent_congestion_threshold: u32,
    pub keep_alive_ms: Option<u64>,
    pub crypto_buffer: usize,
    pub allow_spin: bool,
    pub dgram_recv_buf: Option<usize>,
    pub dgram_send_buf: usize,
    pub gso: bool,
    pub cc: CcKind,
}

impl Default for TcfgP {
    fn default() -> Self {
        Self {
            max_bidi: 100,
            max_uni: 100,
            idle_ms: Some(30_000),
            stream_rwnd: 1_250_000,
            rwnd: (1u64 << 62) - 1,
            send_window: 8 * 1_250_000,
            send_fairness: true,
            packet_threshold: 3,
            time_threshold: 9.0 / 8.0,
            initial_rtt_ms: 333,
            initial_mtu: 1200,
            min_mtu: 1200,
            mtud: Some((1452, 600, 60, 20)),
            pad_to_mtu: false,
            ack_freq: None,
            max_bps: None,
            persistent_congestion_threshold: 3,
            keep_alive_ms: None,
            crypto_buffer: 16 * 1024,
            allow_spin: true,
            dgram_recv_buf: Some(1_250_000),
            dgram_send_buf: 1024 * 1024,
            gso: true,
            cc: CcKind::Cubic,
        }
    }
}

impl TcfgP {
    pub fn build(&self, cc: Arc<CcShared>) -> TransportConfig {
        let mut t = TransportConfig::default();
        t.max_concurrent_bidi_streams(VarInt::from_u64(self.max_bidi).unwrap());
        t.max_concurrent_uni_streams(VarInt::from_u64(self.max_uni).unwrap());
        t.max_idle_timeout(self.idle_ms.map(|ms| IdleTimeout::from(VarInt::from_u32(ms))));
        t.stream_receive_window(VarInt::from_u64(self.stream_rwnd).unwrap());
        t.receive_window(VarInt::from_u64(self.rwnd).unwrap());
        t.send_window(self.send_window);
        t.send_fairness(self.send_fairness);
        t.packet_threshold(self.packet_threshold);
        t.time_threshold(self.time_threshold);
        t.initial_rtt(Duration::from_millis(self.initial_rtt_ms));
        t.initial_mtu(self.initial_mtu);
        t.min_mtu(self.min_mtu);
        t.mtu_discovery_config(self.mtud.map(|(ub, int, cool, minc)| {
            let mut m = MtuDiscoveryConfig::default();
            m.upper_bound(ub)
                .interval(Duration::from_secs(int))
                .black_hole_cooldown(Duration::from_secs(cool))
                .minimum_change(minc);
            m
        }));
        t.pad_to_mtu(self.pad_to_mtu);
        t.ack_frequency_config(self.ack_freq.map(|(thr, mad, reord)| {
            let mut a = AckFrequencyConfig::default();
            a.ack_eliciting_threshold(VarInt::from_u32(thr));
            a.max_ack_delay(mad.map(Duration::from_millis));
            a.reordering_threshold(VarInt::from_u32(reord));
            a
        }));
        t.max_outgoing_bytes_per_second(self.max_bps);
        t.persistent_congestion_threshold(self.persistent_congestion_threshold);
        t.keep_alive_interval(self.keep_alive_ms.map(Duration::from_millis));
        t.crypto_buffer_size(self.crypto_buffer);
        t.allow_spin(self.allow_spin);
        t.datagram_receive_buffer_size(self.dgram_recv_buf);
        t.datagram_send_buffer_size(self.dgram_send_buf);
        t.enable_segmentation_offload(self.gso);
        t.congestion_controller_factory(Arc::new(MonCcFactory { kind: self.cc.clone(), shared: cc }));
        t
    }

    /// A random but sane configuration for honest-peer workloads.
    pub fn random(r: &mut Rng) -> Self {
        let mut t = Self::default();
        t.max_bidi = *r.pick(&[0, 1, 2, 4, 16, 100]);
        t.max_uni = *r.pick(&[0, 1, 2, 4, 16, 100]);
        t.stream_rwnd = *r.pick(&[1, 63, 64, 1000, 16383, 16384, 65536, 1_250_000]);
        t.rwnd = *r.pick(&[1, 64, 1200, 16384, 100_000, 1 << 30, (1 << 62) - 1]);
        t.send_window = *r.pick(&[1, 1000, 16384, 200_000, 10_000_000]);
        t.send_fairness = r.bool();
        t.packet_threshold = *r.pick(&[3, 3, 4, 10]);
        t.time_threshold = *r.pick(&[9.0 / 8.0, 1.5, 2.0]);
        t.initial_rtt_ms = *r.pick(&[1, 10, 100, 333]);
        t.initial_mtu = *r.pick(&[1200, 1200, 1300, 1452]);
        t.min_mtu = 1200;
        t.mtud = if r.chance(70) { Some((*r.pick(&[1452, 1500, 4000, 9000]), *r.pick(&[1, 600]), *r.pick(&[1, 60]), 20)) } else { None };
        t.pad_to_mtu = r.chance(20);
        t.ack_freq = if r.chance(40) {
            Some((*r.pick(&[0, 1, 2, 10]), if r.bool() { Some(*r.pick(&[1, 5, 25, 100])) } else { None }, *r.pick(&[0, 1, 2, 5])))
        } else {
            None
        };
        t.max_bps = if r.chance(20) { Some(*r.pick(&[10_000, 100_000, 10_000_000])) } else { None };
        t.keep_alive_ms = if r.chance(20) { Some(*r.pick(&[5, 100, 1000])) } else { None };
        t.allow_spin = r.bool();
        t.gso = r.chance(80);
        t.cc = match r.below(10) {
            0..=3 => CcKind::Cubic,
            4..=5 => CcKind::NewReno,
            6..=7 => CcKind::Bbr,
            _ => CcKind::Fixed(*r.pick(&[2400, 3000, 6000, 14720, 100_000])),
        };
        t
    }
}

// ---------------------------------------------------------------------------------------------
// Monitoring congestion controller
// ---------------------------------------------------------------------------------------------

#[derive(Debug, Default)]
pub struct CcLog {
    pub on_sent_calls: u64,
    pub on_sent_bytes: u64,
    pub on_ack_bytes: u64,
    pub congestion_events: u64,
    pub lost_bytes: u64,
    pub mtu: u16,
    pub mtu_updates: u64,
    pub window_reads: u64,
    pub min_window_seen: u64,
    pub floor_violations: Vec<String>,
    /// window override for Fixed / Adversarial kinds
    pub forced_window: Option<u64>,
    pub instances: u64,
}

#[derive(Debug, Default)]
pub struct CcShared {
    pub log: Mutex<CcLog>,
}

impl CcShared {
    pub fn new() -> Arc<Self> {
        Arc::new(Self { log: Mutex::new(CcLog { min_window_seen: u64::MAX, ..CcLog::default() }) })
    }
    pub fn set_window(&self, w: u64) {
        self.log.lock().unwrap().forced_window = Some(w);
    }
}

struct MonCcFactory {
    kind: CcKind,
    shared: Arc<CcShared>,
}

impl ControllerFactory for MonCcFactory {
    fn build(self: Arc<Self>, now: Instant, current_mtu: u16) -> Box<dyn Controller> {
        let inner: Option<Box<dyn Controller>> = match self.kind {
            CcKind::Cubic => Some(Arc::new(congestion::CubicConfig::default()).build(now, current_mtu)),
            CcKind::NewReno => Some(Arc::new(congestion::NewRenoConfig::default()).build(now, current_mtu)),
            CcKind::Bbr => Some(Arc::new(congestion::BbrConfig::default()).build(now, current_mtu)),
            CcKind::Fixed(w) => {
                self.shared.log.lock().unwrap().forced_window.get_or_insert(w);
                None
            }
            CcKind::Adversarial { min, .. } => {
                self.shared.log.lock().unwrap().forced_window.get_or_insert(min);
                None
            }
        };
        {
            let mut l = self.shared.log.lock().unwrap();
            l.mtu = current_mtu;
            l.instances += 1;
        }
        Box::new(MonCc { inner, shared: self.shared.clone(), mtu: current_mtu, cong_since_acks: false, mtu_raised: false })
    }
}

pub struct MonCc {
    inner: Option<Box<dyn Controller>>,
    shared: Arc<CcShared>,
    mtu: u16,
    /// a congestion event was reported since the last `on_end_acks`
    cong_since_acks: bool,
    /// `on_mtu_update` has raised the MTU above the one the controller was built with
    mtu_raised: bool,
}

impl MonCc {
    fn check_floor(&self, what: &str) {
        if let Some(inner) = &self.inner {
            let w = inner.window();
            let mut l = self.shared.log.lock().unwrap();
            l.window_reads += 1;
            l.min_window_seen = l.min_window_seen.min(w);
            if w < 2 * self.mtu as u64 && l.floor_violations.len() < 8 {
                l.floor_violations.push(format!("{}window {w} < 2 x mtu {} after {what}", floor_tag(self.cong_since_acks, self.mtu_raised), self.mtu));
            }
        }
    }
}

/// The two histories in which BBR is known to report a tiny window (see known findings); any
/// other history is not covered by that finding.
pub fn floor_tag(cong_since_acks: bool, mtu_raised: bool) -> &'static str {
    if cong_since_acks {
        "[read between a congestion event and the next ack batch] "
    } else if mtu_raised {
        "[MTU raised after the controller was built] "
    } else {
        ""
    }
}

static RTT_SAMPLES: Mutex<Vec<RttEstimator>> = Mutex::new(Vec::new());

/// RttEstimator values captured from live connections (the type has no public constructor).
pub fn rtt_samples() -> Vec<RttEstimator> {
    RTT_SAMPLES.lock().unwrap().clone()
}

impl Controller for MonCc {
    fn on_sent(&mut self, now: Instant, bytes: u64, last_packet_number: u64) {
        {
            let mut l = self.shared.log.lock().unwrap();
            l.on_sent_calls += 1;
            l.on_sent_bytes += bytes;
        }
        if let Some(i) = &mut self.inner {
            i.on_sent(now, bytes, last_packet_number);
        }
        self.check_floor("on_sent");
    }
    fn on_ack(&mut self, now: Instant, sent: Instant, bytes: u64, app_limited: bool, rtt: &RttEstimator) {
        self.shared.log.lock().unwrap().on_ack_bytes += bytes;
        {
            let mut v = RTT_SAMPLES.lock().unwrap();
            if v.len() < 512 {
                v.push(*rtt);
            }
        }
        if let Some(i) = &mut self.inner {
            i.on_ack(now, sent, bytes, app_limited, rtt);
        }
        self.check_floor("on_ack");
    }
    fn on_end_acks(&mut self, now: Instant, in_flight: u64, app_limited: bool, largest: Option<u64>) {
        if let Some(i) = &mut self.inner {
            i.on_end_acks(now, in_flight, app_limited, largest);
        }
        self.cong_since_acks = false;
        self.check_floor("on_end_acks");
    }
    fn on_congestion_event(&mut self, now: Instant, sent: Instant, persistent: bool, is_ecn: bool, lost_bytes: u64) {
        {
            let mut l = self.shared.log.lock().unwrap();
            l.congestion_events += 1;
            l.lost_bytes += lost_bytes;
        }
        if let Some(i) = &mut self.inner {
            i.on_congestion_event(now, sent, persistent, is_ecn, lost_bytes);
        }
        self.cong_since_acks = true;
        self.check_floor("on_congestion_event");
    }
    fn on_spurious_congestion_event(&mut self) {
        if let Some(i) = &mut self.inner {
            i.on_spurious_congestion_event();
        }
        self.check_floor("on_spurious_congestion_event");
    }
    fn on_mtu_update(&mut self, new_mtu: u16) {
        if new_mtu > self.mtu {
            self.mtu_raised = true;
        }
        self.mtu = new_mtu;
        {
            let mut l = self.shared.log.lock().unwrap();
            l.mtu = new_mtu;
            l.mtu_updates += 1;
        }
        if let Some(i) = &mut self.inner {
            i.on_mtu_update(new_mtu);
        }
        self.check_floor("on_mtu_update");
    }
    fn window(&self) -> u64 {
        match &self.inner {
            Some(i) => i.window(),
            None => {
                let l = self.shared.log.lock().unwrap();
                // never below two datagrams of the MTU last reported (see DESIGN C12)
                l.forced_window.unwrap_or(u64::MAX).max(2 * self.mtu as u64 + 1)
            }
        }
    }
    fn clone_box(&self) -> Box<dyn Controller> {
        Box::new(MonCc { inner: self.inner.as_ref().map(|i| i.clone_box()), shared: self.shared.clone(), mtu: self.mtu, cong_since_acks: self.cong_since_acks, mtu_raised: self.mtu_raised })
    }
    fn initial_window(&self) -> u64 {
        match &self.inner {
            Some(i) => i.initial_window(),
            None => self.window(),
        }
    }
    fn into_any(self: Box<Self>) -> Box<dyn Any> {
        self
    }
}

// ---------------------------------------------------------------------------------------------
// CID generator
// ---------------------------------------------------------------------------------------------

#[derive(Debug, Clone, Copy, PartialEq, Eq)]
pub enum CidGenKind {
    /// harness generator: deterministic sequence
    Seq,
    Random,
    Hashed,
}

pub struct SeqCidGen {
    pub len: usize,
    pub seed: u64,
    pub ctr: u64,
    pub lifetime: Option<Duration>,
}

impl ConnectionIdGenerator for SeqCidGen {
    fn generate_cid(&mut self) -> ConnectionId {
        self.ctr += 1;
        let h = mac128(self.seed, &[&self.ctr.to_le_bytes()]);
        let h2 = mac128(self.seed ^ 0x55, &[&self.ctr.to_le_bytes()]);
        let mut b = [0u8; 20];
        b[..16].copy_from_slice(&h);
        b[16..].copy_from_slice(&h2[..4]);
        ConnectionId::new(&b[..self.len])
    }
    fn cid_len(&self) -> usize {
        self.len
    }
    fn cid_lifetime(&self) -> Option<Duration> {
        self.lifetime
    }
}
